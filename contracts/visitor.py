"""C19 -- LatexNodesVisitor: every node exactly once, children first (arguments before body, in
document order), child results handed to the parent in that order, None placeholders kept.

Ghost state: `trace`, the sequence of visit callbacks (one event per visited object), as a z3
Seq(Int) over object ids.  Specification functions (from the property text, by structural
recursion):
    PO(chars|comment|unknown) = [n]
    PO(group|math|list)       = PO*(n.nodelist) ++ [n]
    PO(macro|specials)        = POA(n.nodeargd) ++ [n]
    PO(environment)           = POA(n.nodeargd) ++ PO*(n.nodelist) ++ [n]
    POA(None) = [] ;  POA(a)  = PO*(a.argnlist) ++ [a]
    PO*(l) = concat(PO(x) for x in l if x is not None)
Children are abstract objects (ids); `child.accept_node_visitor(v)` is used through its
interface contract  trace' = trace ++ PO(child), result = RES(child)  -- which is exactly what is
proved here for every node class (structural induction over the tree: stated, not mechanised).
"""
import z3

from pyvc import values as V
from pyvc.values import Obj, PyList, PyDict, AbsVal, Codec, Builtin, zint, simp
from pyvc.contracts import (Contract, LoopContract, FunctionUnit, sym_int, new_obj, resolve_class)
from pyvc.smt import EngineError, forall_range
from pyvc.replay import PRELUDE

N = 'pylatexenc.latexnodes.nodes.'
VIS = N + 'LatexNodesVisitor'
PA = 'pylatexenc.latexnodes._parsedargs.ParsedArguments'
NONE = -1

SeqI = z3.SeqSort(z3.IntSort())
PO = z3.Function('PO', z3.IntSort(), SeqI)
RES = z3.Function('RES', z3.IntSort(), z3.IntSort())
POL = z3.Function('POL', z3.ArraySort(z3.IntSort(), z3.IntSort()), z3.IntSort(), SeqI)
EMPTY = z3.Empty(SeqI)
TRUTHY = z3.Function('truthy', z3.IntSort(), z3.BoolSort())


class SeqVal(object):
    def __init__(self, t):
        self.t = t


def trace(it):
    g = it.ctx.ghost
    if 'trace' not in g:
        g['trace0'] = z3.Const('trace0', SeqI)
        g['trace'] = g['trace0']
        g['calls'] = []
    return g['trace']


def emit(it, seq):
    trace(it)
    it.ctx.ghost['trace'] = z3.Concat(it.ctx.ghost['trace'], seq)


def po1(term):
    """PO of a possibly-None child code"""
    return z3.If(term == NONE, EMPTY, PO(term))


def pol(it, arr, i):
    """PO*(l[:i]) with the two defining equations instantiated at i (the solver does no induction)."""
    ctx = it.ctx
    i = zint(i)
    done = ctx.ghost.setdefault('pol_inst', set())
    key = (arr.get_id(), str(simp(i)))
    if key not in done:
        done.add(key)
        ctx.assume(POL(arr, 0) == EMPTY)
        ctx.assume(z3.Implies(i >= 0, POL(arr, i + 1) == z3.Concat(POL(arr, i), po1(arr[i]))))
    return POL(arr, i)


def abs_child(it, term, kind='node'):
    def accept(it2, self, args, kwargs):
        emit(it2, PO(self.term))
        return AbsVal(RES(self.term), 'result')
    # an abstract child may be any visitable object, e.g. an (empty, hence falsy) LatexNodeList: its
    # truth value is unknown
    return AbsVal(term, kind, methods={'accept_node_visitor': accept},
                  attrs={'truth': lambda it2, self: TRUTHY(self.term)})


NODE_CODEC = Codec(
    encode=lambda it, v: NONE if v is None else v.term,
    decode=lambda it, t: (None if it.ctx.branch(t == NONE) else abs_child(it, t)),
    name='nodes')


def enc_result(it, v):
    if v is None:
        return NONE
    if isinstance(v, AbsVal):
        return v.term
    raise EngineError('unexpected visit result %r' % (v,))


RES_CODEC = Codec(encode=enc_result, decode=lambda it, t: AbsVal(t, 'result'), name='results')


def sym_nodes(it, name):
    n = z3.Int(name + '.n')
    arr = z3.Array(name + '.ids', z3.IntSort(), z3.IntSort())
    it.ctx.assume(n >= 0)
    it.ctx.register_input(name + '.n', 'int', n)
    for j in range(3):
        it.ctx.register_input('%s[%d]' % (name, j), 'int', arr[j])
    return PyList(None, n, arr, name, NODE_CODEC)


def mk_results(it, hint):
    n = it.ctx.fresh_int(hint + '.n')
    it.ctx.assume(n >= 0)
    return PyList(None, n, z3.Array('%s.r!%d' % (hint, it.ctx.next_id()), z3.IntSort(), z3.IntSort()), hint, RES_CODEC)


def unwrap(it, nl):
    """the python-level list behind a nodelist value (LatexNodeList object or list)"""
    if isinstance(nl, Obj):
        return nl.fields['nodelist']
    return nl


def _cls(q):
    return q


def mk_nodelist_value(it, name, allow_none=True):
    """None | list | LatexNodeList(list)"""
    k = it.ctx.choose(3 if allow_none else 2, 'shape of ' + name)
    if allow_none and k == 2:
        return None
    L = sym_nodes(it, name)
    if k == 0:
        return L
    return new_obj(it, N + 'LatexNodeList', {'nodelist': L, 'pos': None, 'pos_end': None, 'parsing_state': None,
                                              'latex_walker': None}, tag=name)


def mk_visitor(it):
    """a LatexNodesVisitor whose visit_* callbacks are abstract: each appends one event for the object it
    is called with, records its keyword arguments, and returns RES(object)."""
    v = new_obj(it, VIS, {}, tag='visitor')

    def cb(name):
        def f(it2, args, kwargs):
            obj = args[0]
            oid = obj_id(it2, obj)
            emit(it2, z3.Unit(oid))
            it2.ctx.ghost['calls'].append((name, obj, dict(kwargs), len(args)))
            return AbsVal(RES(oid), 'result')
        return Builtin(name, f)
    for m in ('visit_chars_node', 'visit_group_node', 'visit_comment_node', 'visit_macro_node',
              'visit_environment_node', 'visit_specials_node', 'visit_math_node', 'visit_node_list',
              'visit_parsed_arguments', 'visit_unknown_node'):
        v.fields[m] = cb(m)
    trace(it)
    return v


def obj_id(it, obj):
    if isinstance(obj, AbsVal):
        return obj.term
    ids = it.ctx.ghost.setdefault('ids', {})
    if id(obj) not in ids:
        ids[id(obj)] = (obj, z3.Int('id!%d' % (len(ids) + 1)))
    return ids[id(obj)][1]


def snapshot_trace(it, vars_):
    """T0 = the trace, N0 = the number of callbacks, at entry of the call under contract"""
    vars_['T0'] = SeqVal(trace(it))
    vars_['N0'] = len(it.ctx.ghost['calls'])


def register(reg):
    import contracts
    units = {}

    # ---- specification vocabulary -------------------------------------------------------------
    reg.spec('cat')(lambda it, *xs: SeqVal(z3.Concat(*[x.t for x in xs]) if len(xs) > 1 else xs[0].t))
    reg.spec('ev')(lambda it, o: SeqVal(z3.Unit(obj_id(it, o))))
    reg.spec('PO1')(lambda it, o: SeqVal(EMPTY if o is None else PO(o.term)))

    @reg.spec('POS')
    def POS(it, nl, i=None):
        nl = unwrap(it, nl)
        if nl is None:
            return SeqVal(EMPTY)
        return SeqVal(pol(it, nl.arr, nl.length if i is None else i))
    reg.spec('trace_is')(lambda it, x: trace(it) == x.t)
    reg.spec('n_calls')(lambda it: len(it.ctx.ghost.get('calls', [])))

    @reg.spec('call_is')
    def call_is(it, k, name, obj, **kw):
        """the k-th callback was `name`, called with exactly (obj) positionally and the given keywords"""
        calls = it.ctx.ghost.get('calls', [])
        if k >= len(calls):
            return False
        nm, o, kwargs, nargs = calls[k]
        if nm != name or o is not obj or nargs != 1 or set(kwargs) != set(kw):
            return False
        return V.z_and(*[it.equal_term_res(kwargs[key], kw[key]) for key in kw])

    @reg.spec('results_match')
    def results_match(it, res, nl, i=None):
        """res[q] == (None placeholder if nl[q] is None else RES(nl[q])) for q < i, and len(res) == i"""
        nl = unwrap(it, nl)
        hi = nl.length if i is None else i
        if not isinstance(res, PyList):
            return False        # None (or anything else) where the list of the children's results is due
        if isinstance(res, PyList) and res.items is not None:
            if not (isinstance(hi, int) or z3.is_int_value(simp(zint(hi)))) :
                return V.z_and(V.z_eq(len(res.items), hi), len(res.items) == 0)
            return len(res.items) == 0 and V.z_eq(hi, 0)
        body = forall_range(it.ctx, 0, hi, lambda q: res.arr[q] == z3.If(nl.arr[q] == NONE, NONE, RES(nl.arr[q])), 'rq')
        return V.z_and(V.z_eq(res.length, hi), body)
    reg.spec('res_of')(lambda it, o: AbsVal(RES(obj_id(it, o)), 'result'))

    # equality of visit results (AbsVal by term; lists by results_match)
    from pyvc.interp import Interp

    def equal_term_res(self, a, b):
        if isinstance(a, AbsVal) and isinstance(b, AbsVal):
            return a.term == b.term
        if isinstance(a, AbsVal) or isinstance(b, AbsVal):
            return False
        return self.equal_term(a, b)
    Interp.equal_term_res = equal_term_res
    reg.spec('same_result')(lambda it, a, b: it.equal_term_res(a, b))

    # ---- descend_into_nodelist ---------------------------------------------------------------------
    def setup_descend(it):
        v = mk_visitor(it)
        m = it.program.module('pylatexenc.latexnodes.nodes')
        uselist = it.module_get(m, '_UseList')
        default = uselist if it.ctx.choose(2, 'default given') == 0 else None
        return {'self': v, 'nodelist': mk_nodelist_value(it, 'nodelist'), 'default': default}

    c_desc = reg.add(Contract(
        VIS + '.descend_into_nodelist', setup=setup_descend,
        result_make=lambda it, env: descend_result(it, env),
        ensures=[
            ('none-list-visits-nothing', 'implies(nodelist is None, trace_is(T0))'),
            ('none-list-gives-default', 'implies(nodelist is None, (result == []) if default is _UseList else result is None)'),
            ('children-visited-in-order-once', 'implies(nodelist is not None, trace_is(cat(T0, POS(nodelist))))'),
            ('results-in-order-with-placeholders', 'implies(nodelist is not None, results_match(result, nodelist))'),
            ('no-callback-of-its-own', 'n_calls() == N0'),
        ],
        pre_state=snapshot_trace,
        modifies=[]))

    def descend_result(it, env):
        nl = env.vars['nodelist']
        if nl is None:
            m = it.program.module('pylatexenc.latexnodes.nodes')
            return PyList([]) if env.vars['default'] is it.module_get(m, '_UseList') else env.vars['default']
        L = unwrap(it, nl)
        emit(it, pol(it, L.arr, L.length))
        return mk_results(it, 'child_results')
    reg.add_loop(LoopContract(
        VIS + '.descend_into_nodelist', 0, index='i',
        havoc={'visited_results_nodelist': mk_results},
        invariant=[('results-so-far', 'results_match(visited_results_nodelist, nodelist, i)'),
                   ('visited-so-far', 'trace_is(cat(T0, POS(nodelist, i)))'),
                   ('no-callback-of-its-own', 'n_calls() == N0')]))
    units['descend_into_nodelist'] = FunctionUnit(c_desc)


    # ---- descend_into_parsed_arguments ------------------------------------------------------------------
    def mk_argd(it, name='nodeargd'):
        """None, or an abstract ParsedArguments object (visited through its own accept_node_visitor)"""
        if it.ctx.choose(2, name + ' present') == 0:
            return None
        t = z3.Int(name + '.id')
        it.ctx.assume(t != NONE)
        it.ctx.register_input(name + '.id', 'int', t)
        return abs_child(it, t, 'parsed_arguments')

    def desc_pa_result(it, env):
        pa = env.vars['parsed_arguments']
        if pa is None:
            return ''
        emit(it, PO(pa.term))
        return AbsVal(RES(pa.term), 'result')

    c_dpa = reg.add(Contract(
        VIS + '.descend_into_parsed_arguments',
        setup=lambda it: {'self': mk_visitor(it), 'parsed_arguments': mk_argd(it, 'parsed_arguments')},
        result_make=desc_pa_result,
        ensures=[('absent-arguments-visit-nothing', "implies(parsed_arguments is None, trace_is(T0) and result == '')"),
                 ('arguments-visited-as-one-subtree',
                  'implies(parsed_arguments is not None, trace_is(cat(T0, PO1(parsed_arguments))) and '
                  'same_result(result, res_of(parsed_arguments)))'),
                 ('no-callback-of-its-own', 'n_calls() == N0')],
        pre_state=snapshot_trace, modifies=[]))
    units['descend_into_parsed_arguments'] = FunctionUnit(c_dpa)

    # ---- node_standard_process_* : one unit per node kind ----------------------------------------------------
    def mk_node(it, cls, **children):
        f = {'pos': None, 'pos_end': None, 'parsing_state': None, 'latex_walker': None}
        f.update(children)
        o = new_obj(it, PA if cls.endswith('ParsedArguments') else N + cls, f, tag='node')
        o.open = True
        return o

    def simple(kind, cls, cbname):
        def setup(it):
            return {'self': mk_visitor(it), 'node': mk_node(it, cls)}
        c = reg.add(Contract(
            VIS + '.node_standard_process_' + kind, setup=setup,
            ensures=[('leaf-visited-once', 'trace_is(cat(T0, ev(node)))'),
                     ('one-callback', "n_calls() == N0 + 1 and call_is(N0, '%s', node)" % cbname),
                     ('result-is-callback-result', 'same_result(result, res_of(node))')],
            pre_state=snapshot_trace, modifies=[]))
        units['node_standard_process_' + kind] = FunctionUnit(c)
    simple('chars', 'LatexCharsNode', 'visit_chars_node')
    simple('comment', 'LatexCommentNode', 'visit_comment_node')
    simple('unknown', 'LatexNode', 'visit_unknown_node')

    def with_children(kind, cls, cbname, has_args, has_body, body_kw, body_default_none, field='nodelist'):
        def setup(it):
            ch = {}
            if has_args:
                ch['nodeargd'] = mk_argd(it)
            if has_body:
                ch[field] = mk_nodelist_value(it, field)
            argname = 'nodelist' if kind == 'list' else ('parsed_arguments' if kind == 'parsed_arguments' else 'node')
            return {'self': mk_visitor(it), argname: mk_node(it, cls, **ch)}
        nd = 'nodelist' if kind == 'list' else ('parsed_arguments' if kind == 'parsed_arguments' else 'node')
        parts = ['T0']
        kws = []
        if has_args:
            parts.append('PO1(%s.nodeargd)' % nd)
            kws.append("visited_results_arguments=('' if %s.nodeargd is None else res_of(%s.nodeargd))" % (nd, nd))
        if has_body:
            parts.append('POS(%s.%s)' % (nd, field))
        parts.append('ev(%s)' % nd)
        ens = [('children-first-arguments-before-body-then-the-node', 'trace_is(cat(%s))' % ', '.join(parts)),
               ('exactly-one-callback-for-the-node', "n_calls() == N0 + 1"),
               ('result-is-callback-result', 'same_result(result, res_of(%s))' % nd)]
        if has_args:
            ens.append(('argument-results-handed-to-parent',
                        "call_has(N0, '%s', %s, 'visited_results_arguments', "
                        "'' if %s.nodeargd is None else res_of(%s.nodeargd))" % (cbname, nd, nd, nd)))
        if has_body:
            ens.append(('body-results-handed-to-parent-in-order',
                        "call_has_list(N0, '%s', %s, '%s', %s.%s, %s)"
                        % (cbname, nd, body_kw, nd, field, 'True' if body_default_none else 'False')))
        ens.append(('callback-keywords', "call_keywords(N0, %r)" % (sorted((['visited_results_arguments'] if has_args else [])
                                                                           + ([body_kw] if has_body else [])),)))
        c = reg.add(Contract(VIS + '.node_standard_process_' + kind, setup=setup, ensures=ens,
                             pre_state=snapshot_trace, modifies=[]))
        units['node_standard_process_' + kind] = FunctionUnit(c)

    with_children('group', 'LatexGroupNode', 'visit_group_node', False, True, 'visited_results_nodelist', False)
    with_children('math', 'LatexMathNode', 'visit_math_node', False, True, 'visited_results_nodelist', True)
    with_children('macro', 'LatexMacroNode', 'visit_macro_node', True, False, None, False)
    with_children('specials', 'LatexSpecialsNode', 'visit_specials_node', True, False, None, False)
    with_children('environment', 'LatexEnvironmentNode', 'visit_environment_node', True, True, 'visited_results_body', False)
    with_children('list', 'LatexNodeList', 'visit_node_list', False, True, 'visited_results_nodelist', False)
    with_children('parsed_arguments', '../_parsedargs.ParsedArguments', 'visit_parsed_arguments', False, True,
                  'visited_results_argnlist', True, field='argnlist')

    @reg.spec('call_has')
    def call_has(it, k, name, obj, kw, val):
        calls = it.ctx.ghost.get('calls', [])
        if k >= len(calls):
            return False
        nm, o, kwargs, nargs = calls[k]
        if nm != name or o is not obj or nargs != 1 or kw not in kwargs:
            return False
        return it.equal_term_res(kwargs[kw], val)

    @reg.spec('call_has_list')
    def call_has_list(it, k, name, obj, kw, nl, none_if_absent):
        calls = it.ctx.ghost.get('calls', [])
        if k >= len(calls):
            return False
        nm, o, kwargs, nargs = calls[k]
        if nm != name or o is not obj or nargs != 1 or kw not in kwargs:
            return False
        got = kwargs[kw]
        if nl is None:
            # the property text fixes no representation for the results of an absent body:
            # None and the empty list are both accepted
            return got is None or (isinstance(got, PyList) and got.items is not None and len(got.items) == 0)
        if not isinstance(got, PyList):
            return False
        return results_match(it, got, nl)

    @reg.spec('call_keywords')
    def call_keywords(it, k, names):
        calls = it.ctx.ghost.get('calls', [])
        return k < len(calls) and sorted(calls[k][2]) == sorted(it.iter_values(names) if not isinstance(names, list) else names)

    # ---- accept_node_visitor: double dispatch, one unit per class --------------------------------------------------
    def mk_dispatch_visitor(it):
        v = new_obj(it, VIS, {}, tag='visitor')
        it.ctx.ghost['dispatch'] = []

        def rec(name):
            def f(it2, args, kwargs):
                it2.ctx.ghost['dispatch'].append((name, list(args), dict(kwargs)))
                return AbsVal(z3.Int('dispatch_result'), 'result')
            return Builtin(name, f)
        for k in ('unknown', 'chars', 'group', 'comment', 'macro', 'environment', 'specials', 'math', 'list',
                  'parsed_arguments'):
            v.fields['node_standard_process_' + k] = rec('node_standard_process_' + k)
        return v

    @reg.spec('dispatched_to')
    def dispatched_to(it, name, obj):
        d = it.ctx.ghost.get('dispatch', [])
        return len(d) == 1 and d[0][0] == name and len(d[0][1]) == 1 and d[0][1][0] is obj and not d[0][2]
    reg.spec('dispatch_result')(lambda it: AbsVal(z3.Int('dispatch_result'), 'result'))

    def accept(cls, kind, qual=None):
        q = (qual or (N + cls)) + '.accept_node_visitor'

        def setup(it):
            o = new_obj(it, qual or (N + cls), {}, tag='self')
            o.open = True
            return {'self': o, 'visitor': mk_dispatch_visitor(it)}
        c = reg.add(Contract(q, setup=setup,
                             ensures=[('dispatches-once-to-its-own-kind',
                                       "dispatched_to('node_standard_process_%s', self)" % kind),
                                      ('returns-the-visitor-result', 'same_result(result, dispatch_result())')],
                             modifies=[]))
        units['%s.accept_node_visitor' % cls] = FunctionUnit(c)
    accept('LatexNode', 'unknown')
    accept('LatexCharsNode', 'chars')
    accept('LatexGroupNode', 'group')
    accept('LatexCommentNode', 'comment')
    accept('LatexMacroNode', 'macro')
    accept('LatexEnvironmentNode', 'environment')
    accept('LatexSpecialsNode', 'specials')
    accept('LatexMathNode', 'math')
    accept('LatexNodeList', 'list')
    accept('ParsedArguments', 'parsed_arguments', qual=PA)

    # ---- LatexNodesVisitor.start --------------------------------------------------------------------------------------
    def setup_start(it):
        t = z3.Int('root.id')
        it.ctx.assume(t != NONE)
        return {'self': mk_visitor(it), 'node': abs_child(it, t)}
    c_start = reg.add(Contract(
        VIS + '.start', setup=setup_start,
        ensures=[('visits-exactly-the-tree', 'trace_is(cat(T0, PO1(node)))'),
                 ('returns-root-result', 'same_result(result, res_of(node))')],
        pre_state=snapshot_trace, modifies=[]))
    units['LatexNodesVisitor.start'] = FunctionUnit(c_start)

    for k in units:
        contracts.REPLAYERS[k] = replay
    return {'C19': units}


NATIVE = PRELUDE + r'''
from pylatexenc.latexwalker import LatexWalker
from pylatexenc.latexnodes import nodes as N
from pylatexenc.latexnodes.nodes import LatexNodesVisitor
from pylatexenc.latexnodes.parsers import LatexGeneralNodesParser

def expected(n):
    """post-order of the property text"""
    out = []
    def args(a):
        if a is None: return
        for x in (a.argnlist or []):
            if x is not None: rec(x)
        out.append(a)
    def rec(x):
        if isinstance(x, N.LatexNodeList):
            for y in x.nodelist:
                if y is not None: rec(y)
            out.append(x); return
        if isinstance(x, (N.LatexMacroNode, N.LatexSpecialsNode)):
            args(x.nodeargd)
        elif isinstance(x, N.LatexEnvironmentNode):
            args(x.nodeargd)
            for y in (x.nodelist or []):
                if y is not None: rec(y)
        elif isinstance(x, (N.LatexGroupNode, N.LatexMathNode)):
            for y in (x.nodelist or []):
                if y is not None: rec(y)
        out.append(x)
    rec(n)
    return out

KIND = [(N.LatexNodeList, "visit_node_list"), (N.LatexCharsNode, "visit_chars_node"), (N.LatexGroupNode, "visit_group_node"),
        (N.LatexCommentNode, "visit_comment_node"), (N.LatexMacroNode, "visit_macro_node"),
        (N.LatexEnvironmentNode, "visit_environment_node"), (N.LatexSpecialsNode, "visit_specials_node"),
        (N.LatexMathNode, "visit_math_node")]

class Rec(LatexNodesVisitor):
    def __init__(self):
        self.seen = []
        self.bad = None
    def _cb(self, name, obj, kw):
        self.seen.append(obj)
        want_name = "visit_parsed_arguments"
        for c, nm in KIND:
            if isinstance(obj, c): want_name = nm
        if name != want_name:
            self.bad = "callback %s used for %r (expected %s)" % (name, obj, want_name)
        def ids(lst): return None if lst is None else [None if x is None else id(x) for x in lst]
        def chk(key, lst, absent):
            want = ids(lst) if lst is not None else absent
            if kw.get(key, "<missing>") != want:
                self.bad = "%s handed to %s(%r) is %r, expected %r" % (key, name, obj, kw.get(key, "<missing>"), want)
        if isinstance(obj, (N.LatexGroupNode, N.LatexNodeList)): chk("visited_results_nodelist", obj.nodelist, [])
        elif isinstance(obj, N.LatexMathNode) and obj.nodelist is not None: chk("visited_results_nodelist", obj.nodelist, None)
        elif isinstance(obj, N.LatexEnvironmentNode): chk("visited_results_body", obj.nodelist, [])
        elif want_name == "visit_parsed_arguments": chk("visited_results_argnlist", obj.argnlist, None)
        if isinstance(obj, (N.LatexMacroNode, N.LatexSpecialsNode, N.LatexEnvironmentNode)):
            want = "" if obj.nodeargd is None else id(obj.nodeargd)
            if kw.get("visited_results_arguments", "<missing>") != want:
                self.bad = "visited_results_arguments handed to %r is %r, expected %r" % (obj, kw.get("visited_results_arguments"), want)
        return id(obj)
for _nm in ["visit_node_list", "visit_chars_node", "visit_group_node", "visit_comment_node", "visit_macro_node",
            "visit_environment_node", "visit_specials_node", "visit_math_node", "visit_parsed_arguments", "visit_unknown_node"]:
    setattr(Rec, _nm, (lambda nm: lambda self, obj, **kw: self._cb(nm, obj, kw))(_nm))

def check_doc(s, tolerant=False):
    w = LatexWalker(s, tolerant_parsing=tolerant)
    try:
        nl, _ = w.parse_content(LatexGeneralNodesParser())
    except Exception:
        return None
    if nl is None: return None
    v = Rec()
    v.start(nl)
    want = expected(nl)
    if [id(x) for x in v.seen] != [id(x) for x in want]:
        return "visit order on %r is %r, expected %r" % (s, v.seen, want)
    if v.bad: return v.bad + " on %r" % (s,)

DOCS = [r"a{b}c", r"\textbf{a}", r"\sqrt[3]{x} y", r"\begin{itemize}\item a\end{itemize}", r"$a{b}$ ~ %c" "\n",
        r"\begin{tabular}{cc}a&b\end{tabular}", r"\emph{\textit{a $x$}}{}", r"\[ \frac{1}{2} \]", r"\item[x] y", r"\\[2pt] z"]
'''


def replay(o, model):
    return NATIVE + '''
for d in DOCS:
    for tol in (False, True):
        m = check_doc(d, tol)
        if m: reproduced(m)
for t in strings("a{}$\\\\x[] ", 4):
    m = check_doc(t, True)
    if m: reproduced(m + "  [bounded search]")
not_reproduced()
'''
