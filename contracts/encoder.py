"""C04 / C13 -- latexencode/_unicode_to_latex_encoder.py (+ _partial_latex_encoder.py, __init__.py).

Rules are abstract: a dictionary rule is an unknown map from code points to replacement strings, a
regular expression an unknown matcher, a callable rule an unknown function returning None or
(consumed, replacement).  What is proved, for all inputs and all such rules:

* each _apply_rule_* implements "if the rule matches at p.pos: append protect(replacement), advance by
  the consumed length, report True; else leave p untouched and report falsy", where protect is the
  rule's own scheme if set, else the encoder's (C04);
* the protection schemes and unknown-character policies equal their documented definitions;
* one iteration of the main loop of unicode_to_latex performs exactly one documented step
  (ASCII skip / first matching rule in order / copy printable ASCII / unknown-character policy) and
  advances the position (the whole-string statement result == ENC(NFC(s)) is the induction over
  iterations: stated, not mechanised);
* __init__ compiles rule i to an application of rule i (no cross-talk between rules);
* the module-level cached helper uses an encoder whose four options equal its arguments.
"""
import z3

from pyvc import values as V
from pyvc.values import (Obj, PyList, PyDict, AbsVal, Builtin, BoundMethod, Partial, Codec, is_str, zint, simp,
                         z_and, z_or, z_not)
from pyvc.contracts import (Contract, LoopContract, FunctionUnit, LemmaUnit, sym_int, sym_str, sym_bool, new_obj,
                            resolve_class, resolve_function)
from pyvc.smt import EngineError, forall_range
from pyvc.interp import PyExc
from pyvc.replay import PRELUDE, model_str

ENC = 'pylatexenc.latexencode._unicode_to_latex_encoder.UnicodeToLatexEncoder'
RULE = 'pylatexenc.latexencode._rule.UnicodeToLatexConversionRule'
SCHEMES = ['none', 'braces', 'braces-almost-all', 'braces-all', 'braces-after-macro']


def meth(scheme):
    return '_apply_protection_' + scheme.replace('-', '_')


def ends_with_control_word(it, r):
    """the text after the last backslash of r is a non-empty run of letters"""
    k = it.B.str_find(it, r, '\\', reverse=True)
    tail = V.sslice(it.ctx, r, simp(zint(k) + 1), None)
    return z_and(V.simp(zint(k) >= 0), it.B.str_all_pred(it, tail, 'isalpha'))


def protect(it, scheme, r):
    """documented protection schemes (spec)"""
    if not isinstance(scheme, str) and scheme is not None:
        return it.call(scheme, [r], {})          # a callable given on the rule: its result for this replacement text
    if scheme == 'none':
        return r
    if scheme == 'braces-all':
        return V.sconcat(V.sconcat('{', r), '}')
    if scheme == 'braces-almost-all':
        c = it.B.str_startswith(it, r, '\\')
        cond = c
    else:
        cond = ends_with_control_word(it, r)
    wrapped = V.sconcat(r, '{}') if scheme == 'braces-after-macro' else V.sconcat(V.sconcat('{', r), '}')
    return ('cond', cond, wrapped, r)


def eq_protected(it, got, spec):
    """got == spec where spec is a string or ('cond', c, a, b)"""
    if isinstance(spec, tuple):
        _t, c, a, b = spec
        return z_and(V.z_implies(c, it.equal_term(got, a)), V.z_implies(z_not(c), it.equal_term(got, b)))
    return it.equal_term(got, spec)


def mk_p(it):
    o = Obj(it.program.builtin_classes['object'], {'latex': sym_str(it, 'p.latex'), 'pos': sym_int(it, 'p.pos', lo=0)},
            tag='p', is_input=True)
    return o


def mk_encoder(it, scheme=None, fields=None):
    f = {'non_ascii_only': sym_bool(it, 'non_ascii_only'), 'unknown_char_warning': False}
    f.update(fields or {})
    enc = new_obj(it, ENC, f, tag='self')
    if scheme is None:
        scheme = SCHEMES[it.ctx.choose(len(SCHEMES), 'encoder protection scheme')]
    enc.fields['replacement_latex_protection'] = scheme
    enc.fields['_apply_protection'] = it.getattr(enc, meth(scheme))
    it.ctx.ghost['enc_scheme'] = scheme
    return enc


def mk_rule(it, rule_value=None, scheme='?'):
    if scheme == '?':
        k = it.ctx.choose(len(SCHEMES) + 2, 'rule protection scheme')
        if k == len(SCHEMES) + 1:
            # the rule's own protection may also be a callable: an unknown function of the replacement text
            memo = {}

            def own_protection(it2, a, kw):
                key = V.str_key(a[0]) if V.is_str(a[0]) else repr(a[0])
                if key not in memo:
                    memo[key] = it2.fresh_str('own_protection(repl)')
                return memo[key]
            from pyvc.values import Builtin
            scheme = Builtin('rule.replacement_latex_protection', own_protection)
        else:
            scheme = None if k == 0 else SCHEMES[k - 1]
    it.ctx.ghost['rule_scheme'] = scheme
    return new_obj(it, RULE, {'rule_type': 'x', 'rule': rule_value, 'replacement_latex_protection': scheme}, tag='rule')


def effective(it):
    g = it.ctx.ghost
    return g['rule_scheme'] if g.get('rule_scheme') is not None else g['enc_scheme']


class CodeMap(object):
    """a dictionary rule: unknown map from code points to replacement strings"""
    def __init__(self, it, name='ruledict'):
        self.has = z3.Function(name + '.has', z3.IntSort(), z3.BoolSort())
        self.name = name

    def pyvc_contains(self, it, o):
        return self.has(zint(o))

    def value(self, it, o):
        memo = it.ctx.ghost.setdefault('codemap_vals', {})
        k = (self.name, str(simp(zint(o))))
        if k not in memo:
            memo[k] = it.fresh_str(self.name + '.val')
        return memo[k]

    def pyvc_index(self, it, o, src=''):
        if not it.ctx.spec and not it.ctx.branch(self.has(zint(o))):
            it.raise_builtin('KeyError', 'wd:key[%s]' % src)
        return self.value(it, o)


def register(reg):
    import contracts
    units = {}

    reg.spec('prot_ok')(lambda it, got, scheme, r: eq_protected(it, got, protect(it, scheme, r)))
    reg.spec('applied')(lambda it, new_latex, old_latex, r:
                        eq_applied(it, new_latex, old_latex, protect(it, effective(it), r)))

    def eq_applied(it, new_latex, old_latex, spec):
        if isinstance(spec, tuple):
            _t, c, a, b = spec
            return z_and(V.z_implies(c, it.equal_term(new_latex, V.sconcat(old_latex, a))),
                         V.z_implies(z_not(c), it.equal_term(new_latex, V.sconcat(old_latex, b))))
        return it.equal_term(new_latex, V.sconcat(old_latex, spec))

    # ---- protection schemes ---------------------------------------------------------------------------------
    for sch in SCHEMES:
        c = reg.add(Contract(
            ENC + '.' + meth(sch), setup=lambda it: {'self': mk_encoder(it, 'none'), 'repl': sym_str(it, 'repl')},
            result_type='str',
            ensures=[('documented-scheme', "prot_ok(result, '%s', repl)" % sch)], modifies=[]))
        units[meth(sch)] = FunctionUnit(c)

    # ---- unknown-character policies ------------------------------------------------------------------------------
    def setup_ch(it):
        ch = sym_str(it, 'ch')
        it.ctx.assume(zint(V.slen(ch)) == 1)
        return {'self': mk_encoder(it, 'none'), 'ch': ch}
    for pol, ens, rz in (
            ('keep', [('keeps-the-character', 'result == ch')], None),
            ('replace', [('fixed-ascii-replacement', "result == '{\\\\bfseries ?}'")], None),
            ('ignore', [('drops-the-character', "result == ''")], None),
            ('unihex', [('ascii-wrapper-around-the-hex-code',
                         "result.startswith('\\\\ensuremath{\\\\langle}\\\\texttt{U+') and "
                         "result.endswith('}\\\\ensuremath{\\\\rangle}')")], None),
            ('fail', [('never-returns', 'False')], {'ValueError': []})):
        c = reg.add(Contract(ENC + '._do_unknown_char_' + pol, setup=setup_ch, result_type='str',
                             requires=[('one-character', 'len(ch) == 1')], ensures=ens, raises=rz, modifies=[]))
        units['_do_unknown_char_' + pol] = FunctionUnit(c)

    # ---- _apply_replacement: the rule's own protection takes precedence -------------------------------------------------
    def setup_repl(it):
        return {'self': mk_encoder(it), 'p': mk_p(it), 'repl': sym_str(it, 'repl'),
                'numchars': sym_int(it, 'numchars'), 'ruleobj': mk_rule(it)}
    c_ar = reg.add(Contract(
        ENC + '._apply_replacement', setup=setup_repl,
        ensures=[('appends-the-protected-replacement', 'applied(p.latex, old(p.latex), repl)'),
                 ('advances-by-the-consumed-length', 'p.pos == old(p.pos) + numchars')],
        pre_state=lambda it, vars_: note_schemes(it, vars_),
        modifies=['p.latex', 'p.pos']))
    units['_apply_replacement'] = FunctionUnit(c_ar)

    def note_schemes(it, vars_):
        """(where the contract is assumed) read the two schemes off the receiver and the rule object"""
        enc, rule = vars_.get('self'), vars_.get('ruleobj', vars_.get('rule'))
        g = it.ctx.ghost
        if isinstance(enc, Obj) and 'replacement_latex_protection' in enc.fields:
            g['enc_scheme'] = enc.fields['replacement_latex_protection']
        if isinstance(rule, Obj):
            g['rule_scheme'] = rule.fields.get('replacement_latex_protection')

    # ---- _apply_rule_dict ------------------------------------------------------------------------------------------------
    def setup_dict(it):
        s = sym_str(it, 's')
        p = mk_p(it)
        it.ctx.assume(p.fields['pos'] < zint(V.slen(s)))
        return {'self': mk_encoder(it), 'ruledict': CodeMap(it), 'rule': mk_rule(it), 's': s, 'p': p}
    reg.spec('dict_has')(lambda it, d, o: d.has(zint(o)))
    reg.spec('dict_val')(lambda it, d, o: d.value(it, o))
    UNTOUCHED = 'p.latex == old(p.latex) and p.pos == old(p.pos)'
    c_rd = reg.add(Contract(
        ENC + '._apply_rule_dict', setup=setup_dict,
        requires=[('position-in-string', '0 <= p.pos and p.pos < len(s)')],
        result_make=lambda it, env: (True if it.ctx.choose(2, 'dict rule matches') == 0 else None),
        ensures=[('match-appends-protected-entry-and-consumes-one',
                  'implies(dict_has(ruledict, ord(s[old(p.pos)])), result is True and p.pos == old(p.pos) + 1 and '
                  'applied(p.latex, old(p.latex), dict_val(ruledict, ord(s[old(p.pos)]))))'),
                 ('no-match-leaves-state-untouched',
                  'implies(not dict_has(ruledict, ord(s[old(p.pos)])), not result and %s)' % UNTOUCHED)],
        pre_state=lambda it, vars_: note_schemes(it, vars_),
        modifies=['p.latex', 'p.pos']))
    units['_apply_rule_dict'] = FunctionUnit(c_rd)

    # ---- _apply_rule_callable ----------------------------------------------------------------------------------------------
    def mk_callable(it):
        def call(it2, args, kwargs):
            g = it2.ctx.ghost
            g.setdefault('rule_calls', []).append((list(args), dict(kwargs)))
            if it2.ctx.choose(2, 'callable rule matches') == 1:
                g['callable_result'] = None
                return None
            g['callable_result'] = (sym_int(it2, 'consumed'), sym_str(it2, 'callable_repl'))
            return g['callable_result']
        return Builtin('rulecallable', call)
    reg.spec('callable_matched')(lambda it: it.ctx.ghost.get('callable_result') is not None)
    reg.spec('callable_consumed')(lambda it: it.ctx.ghost['callable_result'][0])
    reg.spec('callable_repl')(lambda it: it.ctx.ghost['callable_result'][1])

    @reg.spec('called_once_with')
    def called_once_with(it, s, pos):
        calls = it.ctx.ghost.get('rule_calls', [])
        if len(calls) != 1 or len(calls[0][0]) != 2 or calls[0][1]:
            return False
        return z_and(it.equal_term(calls[0][0][0], s), V.z_eq(calls[0][0][1], pos),
                     V.str_key(calls[0][0][0]) == V.str_key(s))

    def setup_call(it):
        s = sym_str(it, 's')
        p = mk_p(it)
        return {'self': mk_encoder(it), 'rulecallable': mk_callable(it), 'rule': mk_rule(it), 's': s, 'p': p}
    c_rc = reg.add(Contract(
        ENC + '._apply_rule_callable', setup=setup_call,
        ensures=[('callable-gets-the-whole-string-and-the-position', 'called_once_with(s, old(p.pos))'),
                 ('match-appends-protected-replacement-and-consumes-what-the-rule-says',
                  'implies(callable_matched(), result is True and p.pos == old(p.pos) + callable_consumed() and '
                  'applied(p.latex, old(p.latex), callable_repl()))'),
                 ('no-match-leaves-state-untouched',
                  'implies(not callable_matched(), not result and %s)' % UNTOUCHED)],
        pre_state=lambda it, vars_: note_schemes(it, vars_),
        modifies=['p.latex', 'p.pos']))
    units['_apply_rule_callable'] = FunctionUnit(c_rc)

    # ---- _check_do_skip_ascii ---------------------------------------------------------------------------------------------------
    def setup_skip(it):
        s = sym_str(it, 's')
        p = mk_p(it)
        it.ctx.assume(p.fields['pos'] < zint(V.slen(s)))
        return {'self': mk_encoder(it, 'none'), 's': s, 'p': p}

    c_sk = reg.add(Contract(
        ENC + '._check_do_skip_ascii', setup=lambda it: setup_skip(it),
        requires=[('position-in-string', '0 <= p.pos and p.pos < len(s)')],
        result_type='bool',
        ensures=[('ascii-is-copied-untouched',
                  'implies(ord(s[old(p.pos)]) <= 127, result == True and p.pos == old(p.pos) + 1 and '
                  'p.latex == old(p.latex) + s[old(p.pos)])'),
                 ('non-ascii-is-left-to-the-rules', 'implies(ord(s[old(p.pos)]) > 127, result == False and %s)' % UNTOUCHED)],
        modifies=['p.latex', 'p.pos']))
    units['_check_do_skip_ascii'] = FunctionUnit(c_sk)


    # ---- _apply_rule_regex: first matching regex of the rule, matched on the whole string at p.pos -------------------------
    def mk_regex(it, name):
        def match(it2, self, args, kwargs):
            g = it2.ctx.ghost
            g.setdefault('regex_calls', []).append((self, list(args), dict(kwargs)))
            if it2.ctx.choose(2, name + ' matches') == 1:
                return None
            st = sym_int(it2, name + '.m.start')
            en = sym_int(it2, name + '.m.end')
            m = AbsVal(it2.ctx.fresh_int('match'), 'match', methods={
                'start': lambda it3, sf, a, k: st, 'end': lambda it3, sf, a, k: en,
                'expand': lambda it3, sf, a, k: expand(it3, name, a[0])})
            g.setdefault('matches', []).append((self, m, st, en))
            return m
        return AbsVal(z3.Int(name), 'regex', methods={'match': match})

    def expand(it, name, repl):
        memo = it.ctx.ghost.setdefault('expanded', {})
        if name not in memo:
            memo[name] = (repl, sym_str(it, name + '.expanded'))
        return memo[name][1]

    def setup_rx(it):
        s = sym_str(it, 's')
        p = mk_p(it)
        pairs = []
        for i in range(2):
            if it.ctx.choose(2, 'repl %d is callable' % i) == 0:
                repl = sym_str(it, 'repl%d' % i)
            else:
                def cb(it2, args, kwargs, i=i):
                    it2.ctx.ghost.setdefault('repl_calls', []).append((i, list(args)))
                    memo = it2.ctx.ghost.setdefault('repl_results', {})
                    memo[i] = sym_str(it2, 'repl%d(m)' % i)
                    return memo[i]
                repl = Builtin('repl%d' % i, cb)
            pairs.append((mk_regex(it, 'rx%d' % i), repl))
        it.ctx.ghost['pairs'] = pairs
        return {'self': mk_encoder(it), 'ruleregexes': PyList(pairs), 'rule': mk_rule(it), 's': s, 'p': p}

    @reg.spec('regex_outcome_ok')
    def regex_outcome_ok(it, s, p, old_pos, old_latex, result):
        """documented behaviour, read off the recorded calls: regexes are tried in order on (s, old_pos) until
        one matches; then protect(replacement) is appended and m.end()-m.start() consumed"""
        g = it.ctx.ghost
        calls = g.get('regex_calls', [])
        matches = g.get('matches', [])
        pairs = g['pairs']
        conds = []
        # every call is rx.match(s, old_pos) on the full string, in order, stopping at the first match
        for idx, (rx, args, kwargs) in enumerate(calls):
            if idx >= len(pairs) or rx is not pairs[idx][0] or kwargs or len(args) != 2:
                return False
            conds.append(V.str_key(args[0]) == V.str_key(s))
            conds.append(V.z_eq(args[1], old_pos))
        if matches:
            rx, m, st, en = matches[0]
            idx = [q for q, pr in enumerate(pairs) if pr[0] is rx][0]
            if len(matches) != 1 or len(calls) != idx + 1:
                return False
            repl = pairs[idx][1]
            if isinstance(repl, Builtin):
                rc = g.get('repl_calls', [])
                if len(rc) != 1 or rc[0][0] != idx or len(rc[0][1]) != 1 or rc[0][1][0] is not m:
                    return False
                text = g['repl_results'][idx]
            else:
                ex = g.get('expanded', {}).get('rx%d' % idx)
                if ex is None or ex[0] is not repl:
                    return False
                text = ex[1]
            conds.append(it.identity(result, True))
            conds.append(V.z_eq(p.fields['pos'], simp(zint(old_pos) + en - st)))
            conds.append(eq_applied(it, p.fields['latex'], old_latex, protect(it, effective(it), text)))
        else:
            if len(calls) != len(pairs):
                return False
            conds.append(z_not(it.truth_term(result)))
            conds.append(V.z_eq(p.fields['pos'], old_pos))
            conds.append(it.equal_term(p.fields['latex'], old_latex))
        return z_and(*conds)

    c_rx = reg.add(Contract(
        ENC + '._apply_rule_regex', setup=setup_rx,
        ensures=[('first-matching-regex-on-the-whole-string-at-pos',
                  'regex_outcome_ok(s, p, old(p.pos), old(p.latex), result)')],
        pre_state=lambda it, vars_: note_schemes(it, vars_),
        modifies=['p.latex', 'p.pos']))
    units['_apply_rule_regex'] = FunctionUnit(c_rx, inline={ENC + '._apply_replacement'})

    # ---- the main loop of unicode_to_latex: one documented step per iteration ----------------------------------------------------
    RCH = z3.Function('rule_chunk_chars', z3.IntSort(), z3.IntSort(), z3.ArraySort(z3.IntSort(), z3.IntSort()))
    RCL = z3.Function('rule_chunk_len', z3.IntSort(), z3.IntSort(), z3.IntSort())
    RCN = z3.Function('rule_consumed', z3.IntSort(), z3.IntSort(), z3.IntSort())
    RM = z3.Function('rule_matches', z3.IntSort(), z3.IntSort(), z3.BoolSort())

    PCH = z3.Function('policy_out_chars', z3.IntSort(), z3.ArraySort(z3.IntSort(), z3.IntSort()))
    PLN = z3.Function('policy_out_len', z3.IntSort(), z3.IntSort())

    def policy_str(ch):
        """what the (abstract) unknown-character policy returns for a one-character string: a function of
        that character"""
        code = zint(V.char_at(ch, 0))
        return V.StrBase('policy(%s)' % code, arr=PCH(code), length=z3.If(PLN(code) >= 0, PLN(code), 0)).whole()

    def chunk(rid, pos):
        rid, pos = zint(rid), zint(pos)
        return V.StrBase('chunk[%s,%s]' % (rid, pos), arr=RCH(rid, pos),
                         length=z3.If(RCL(rid, pos) >= 0, RCL(rid, pos), 0)).whole()

    def consumed(rid, pos):
        return z3.If(RCN(zint(rid), zint(pos)) >= 1, RCN(zint(rid), zint(pos)), 1)

    def dec_rule(it, t):
        def call(it2, self, args, kwargs):
            s_, p_ = args
            pos = p_.fields['pos']
            if it2.ctx.branch(RM(self.term, zint(pos))):
                p_.fields['latex'] = V.sconcat(p_.fields['latex'], chunk(self.term, pos))
                p_.fields['pos'] = simp(zint(pos) + consumed(self.term, pos))
                if it2.heap_log is not None:
                    it2.heap_log.extend([(p_, 'latex'), (p_, 'pos')])
                return True
            return None
        return AbsVal(t, 'compiled_rule', methods={'__call__': call})
    RULES_CODEC = Codec(encode=lambda it, v: v.term, decode=dec_rule, name='compiled rules')

    def setup_loop(it):
        ctx = it.ctx
        n = z3.Int('n_rules')
        ctx.assume(n >= 0)
        rules = PyList(None, n, z3.Array('compiled_rules', z3.IntSort(), z3.IntSort()), 'rules', RULES_CODEC)
        enc = new_obj(it, ENC, {'_compiled_rules': rules, 'latex_string_class': it.builtins['str']}, tag='self')
        nao = ctx.choose(2, 'non_ascii_only') == 1
        enc.fields['non_ascii_only'] = nao
        if nao:
            enc.fields['_maybe_skip_ascii'] = it.getattr(enc, '_check_do_skip_ascii')
        else:
            enc.fields['_maybe_skip_ascii'] = Builtin('no-skip', lambda it2, a, k: False)
        enc.fields['_do_warn_unknown_char'] = Builtin('warn', lambda it2, a, k: None)
        fail = ctx.choose(2, 'unknown_char_policy raises') == 1
        ctx.ghost['policy_fails'] = fail

        def policy(it2, args, kwargs):
            if fail:
                it2.raise_builtin('ValueError', 'unknown_char_policy=fail')
            it2.ctx.ghost['policy_arg'] = args[0]
            return policy_str(args[0])
        enc.fields['_do_unknown_char'] = Builtin('policy', policy)
        return {'self': enc, 's': sym_str(it, 's_in')}

    reg.lib('unicodedata.normalize')(lambda it, form, s: sym_str(it, 'nfc_s'))
    reg.spec('RM_')(lambda it, enc, q, pos: RM(enc.fields['_compiled_rules'].arr[zint(q)], zint(pos)))
    reg.spec('chunk_')(lambda it, enc, q, pos: chunk(enc.fields['_compiled_rules'].arr[zint(q)], pos))
    reg.spec('consumed_')(lambda it, enc, q, pos: consumed(enc.fields['_compiled_rules'].arr[zint(q)], pos))
    reg.spec('n_rules')(lambda it, enc: enc.fields['_compiled_rules'].length)
    reg.spec('policy_out')(lambda it, ch: policy_str(ch))
    reg.spec('policy_called_with')(lambda it, ch: ('policy_arg' in it.ctx.ghost) and
                                   it.equal_term(it.ctx.ghost['policy_arg'], ch))

    SKIP = '(self.non_ascii_only and ord(s[pos0]) <= 127)'
    ANY = 'exists(0, n_rules(self), lambda q: RM_(self, q, pos0))'
    PRINTABLE = "((ord(s[pos0]) >= 32 and ord(s[pos0]) <= 127) or s[pos0] in '\\n\\r\\t')"
    c_loop = reg.add(Contract(
        ENC + '.unicode_to_latex', setup=setup_loop,
        pre_state=lambda it, vars_: it.ctx.ghost.__setitem__('used_encoder', vars_.get('self')),
        result_type='str',
        raises={'ValueError': []},
        modifies=[]))
    reg.add_loop(LoopContract(
        ENC + '.unicode_to_latex', 0,
        invariant=[('position-nonnegative', 'p.pos >= 0')],
        variant='len(s) - p.pos',
        havoc_fields=['p.latex', 'p.pos'],
        snapshot={'pos0': 'p.pos', 'latex0': 'p.latex'},
        step=[('ascii-passed-through-when-non-ascii-only',
               'implies(%s, p.pos == pos0 + 1 and p.latex == latex0 + s[pos0])' % SKIP),
              ('first-matching-rule-in-order-supplies-replacement-and-consumed-length',
               'implies(not %s, forall(0, n_rules(self), lambda q: implies(RM_(self, q, pos0) and '
               'forall(0, q, lambda r: not RM_(self, r, pos0)), p.pos == pos0 + consumed_(self, q, pos0) and '
               'p.latex == latex0 + chunk_(self, q, pos0))))' % SKIP),
              ('unmatched-printable-ascii-copied',
               'implies(not %s and not %s and %s, p.pos == pos0 + 1 and p.latex == latex0 + s[pos0])' % (SKIP, ANY, PRINTABLE)),
              ('other-unmatched-characters-follow-the-policy',
               'implies(not %s and not %s and not %s, p.pos == pos0 + 1 and policy_called_with(s[pos0]) and '
               'p.latex == latex0 + policy_out(s[pos0]))' % (SKIP, ANY, PRINTABLE))]))
    reg.add_loop(LoopContract(
        ENC + '.unicode_to_latex', 1, index='ri',
        havoc_fields=['p.latex', 'p.pos'],
        invariant=[('no-earlier-rule-matched', 'forall(0, ri, lambda q: not RM_(self, q, pos0))'),
                   ('state-untouched-so-far', 'p.pos == pos0 and p.latex == latex0')]))
    units['unicode_to_latex'] = FunctionUnit(c_loop)


    # ---- __init__: rule i is compiled to an application of rule i ------------------------------------------------------------------
    @reg.lib('inspect.getfullargspec')
    def getfullargspec(it, fn):
        names = getattr(fn, 'argnames', None)
        if names is None and isinstance(fn, BoundMethod):
            names = [a.arg for a in fn.func.node.args.args][1:]
        if names is None and hasattr(fn, 'node'):
            names = [a.arg for a in fn.node.args.args]
        if names is None:
            raise EngineError('getfullargspec of %r' % (fn,))
        return (PyList(list(names)),)

    class RuleFn(Builtin):
        __slots__ = ('argnames', 'idx')

    def lemma_compile(it):
        ctx = it.ctx
        m = it.program.module('pylatexenc.latexencode._rule')
        RD, RR, RC = (it.module_get(m, n) for n in ('RULE_DICT', 'RULE_REGEX', 'RULE_CALLABLE'))
        kinds = ['callable+u2lobj', 'dict', 'callable', 'callable+u2lobj', 'regex']
        calls = ctx.ghost.setdefault('rule_fn_calls', [])
        rules = []
        for i, kd in enumerate(kinds):
            if kd.startswith('callable'):
                def f(it2, a, k, i=i):
                    calls.append((i, list(a), dict(k)))
                    return None
                fn = RuleFn('rulefn%d' % i, f)
                fn.argnames = ['s', 'pos'] + (['u2lobj'] if kd.endswith('u2lobj') else [])
                fn.idx = i
                payload, rt = fn, RC
            elif kd == 'dict':
                payload, rt = CodeMap(it, 'dict%d' % i), RD
            else:
                payload, rt = PyList([]), RR
            sch = [None, 'none', 'braces-all', None, 'braces'][i]
            rules.append(new_obj(it, RULE, {'rule_type': rt, 'rule': payload, 'replacement_latex_protection': sch},
                                 tag='rule%d' % i))
        for scheme in ('braces', 'none'):
            for nao in (False, True):
                enc = it.instantiate(resolve_class(it, ENC), [], {
                    'conversion_rules': PyList(list(rules)), 'replacement_latex_protection': scheme,
                    'unknown_char_policy': 'replace', 'non_ascii_only': nao, 'unknown_char_warning': False})
                tag = '%s,non_ascii_only=%s' % (scheme, nao)
                comp = enc.fields['_compiled_rules']
                ctx.prove('compile[%s]:one compiled rule per rule, in order' % tag,
                          isinstance(comp, PyList) and comp.items is not None and len(comp.items) == len(rules), 'post')
                for i, kd in enumerate(kinds):
                    cr = comp.items[i]
                    want = {'dict': '_apply_rule_dict', 'regex': '_apply_rule_regex'}.get(kd, '_apply_rule_callable')
                    ok = (isinstance(cr, Partial) and isinstance(cr.func, BoundMethod) and cr.func.recv is enc
                          and cr.func.func.name == want and len(cr.args) == 2 and cr.args[1] is rules[i] and not cr.kwargs)
                    ctx.prove('compile[%s]:rule %d (%s) is applied by %s together with its own rule object' % (tag, i, kd, want),
                              bool(ok), 'post')
                    if not ok:
                        continue
                    if kd in ('dict', 'regex'):
                        ctx.prove('compile[%s]:rule %d (%s) keeps its own table' % (tag, i, kd),
                                  cr.args[0] is rules[i].fields['rule'], 'post')
                    else:
                        del calls[:]
                        s = it.fresh_str('s')
                        pos = ctx.fresh_int('pos')
                        try:
                            it.call(cr.args[0], [s, pos], {})
                        except PyExc:
                            del calls[:]
                        good = (len(calls) == 1 and calls[0][0] == i and len(calls[0][1]) == 2
                                and calls[0][1][0] is s and calls[0][1][1] is pos
                                and (set(calls[0][2]) == ({'u2lobj'} if kd.endswith('u2lobj') else set()))
                                and (not kd.endswith('u2lobj') or calls[0][2]['u2lobj'] is enc))
                        ctx.prove('compile[%s]:compiled rule %d calls rule %d\'s own callable with (s, pos%s)'
                                  % (tag, i, i, ', u2lobj=encoder' if kd.endswith('u2lobj') else ''), bool(good), 'post',
                                  src='calls observed: %r' % ([(c[0], sorted(c[2])) for c in calls],))
                ap = enc.fields.get('_apply_protection')
                ctx.prove('compile[%s]:encoder protection scheme bound to its method' % tag,
                          isinstance(ap, BoundMethod) and ap.func.name == meth(scheme) and ap.recv is enc, 'post')
                du = enc.fields.get('_do_unknown_char')
                ctx.prove('compile[%s]:unknown_char_policy bound to its method' % tag,
                          isinstance(du, BoundMethod) and du.func.name == '_do_unknown_char_replace' and du.recv is enc, 'post')
                sk = enc.fields.get('_maybe_skip_ascii')
                if nao:
                    ok = isinstance(sk, BoundMethod) and sk.func.name == '_check_do_skip_ascii' and sk.recv is enc
                else:
                    ok = isinstance(sk, V.Func) and it.call(sk, [it.fresh_str('s'), Obj(it.program.builtin_classes['object'])], {}) is False
                ctx.prove('compile[%s]:ascii skipping enabled exactly when non_ascii_only' % tag, bool(ok), 'post')
    units['__init__:rule-compilation'] = LemmaUnit('__init__:rule-compilation', lemma_compile, functions=[ENC + '.__init__'])


    # ---- PartialLatexToLatexEncoder: copies one LaTeX token through, raises nothing -------------------------------------------------
    PART = 'pylatexenc.latexencode._partial_latex_encoder.PartialLatexToLatexEncoder'
    WALKER = 'pylatexenc.latexwalker._walker.LatexWalker'

    class WalkerClassContract(object):
        """LatexWalker(s, tolerant_parsing=...) as used by the partial encoder: only s and the tolerant flag matter"""
        def instantiate(self, it, cls, args, kwargs, node):
            from contracts.tokenizer import mk_parsing_state
            tol = kwargs.get('tolerant_parsing', True)
            w = Obj(cls, {'s': args[0], 'tolerant_parsing': tol, 'line_number_offset': 1, 'first_line_column_offset': 0,
                          'column_offset': 0, '_line_no_calc': None, 'debug_nodes': False}, tag='walker')
            w.open = True
            it.ctx.ghost['walker_made'] = w
            return w
    reg.class_contracts[WALKER] = WalkerClassContract()

    def make_ps_result(it, env):
        from contracts.tokenizer import mk_parsing_state
        return mk_parsing_state(it, 'ps')
    reg.add(Contract(WALKER + '.make_parsing_state', result_make=make_ps_result, modifies=[],
                     ensures=[('context-database-invariant', 'result.latex_context is None or db_inv(result.latex_context)')],
                     note='assumed: returns the default parsing state (a ParsingState satisfying PS_inv)'))

    def setup_part(it):
        s = sym_str(it, 's')
        pos = sym_int(it, 'pos', lo=0)
        it.ctx.assume(pos < zint(V.slen(s)))
        from contracts.tokenizer import charset
        enc = new_obj(it, PART, {'keep_latex_chars': charset(it, 'keep_latex_chars')}, tag='self')
        return {'self': enc, 's': s, 'pos': pos}
    c_part = reg.add(Contract(
        PART + '._do_partial_latex_encode_step', setup=setup_part,
        requires=[('position-in-string', '0 <= pos and pos < len(s)'),
                  ('keep-characters-are-not-whitespace', 'implies(s[pos] in self.keep_latex_chars, not s[pos].isspace())')],
        ensures=[('other-characters-are-left-to-the-rules', 'implies(result is None, not (s[pos] in self.keep_latex_chars))'),
                 ('a-latex-token-is-copied-through-unchanged',
                  'implies(result is not None, s[pos] in self.keep_latex_chars and result[0] >= 1 and '
                  'pos + result[0] <= len(s) and result[1] == s[pos : pos + result[0]])'),
                 # "copying well-formed existing LaTeX tokens through": the whole token that the tokenizer reads at pos, of
                 # whatever kind (macro with its trailing space, \\begin{name}, a brace, a comment ...), not a part of it
                 ('exactly-the-one-token-that-stands-there',
                  'implies(result is not None, last_token() is not None and last_token().pos == pos and '
                  'pos + result[0] == last_token().pos_end)')],
        modifies=[]))
    units['_do_partial_latex_encode_step'] = FunctionUnit(c_part)


    # the constructor: an explicitly EMPTY keep set / rule list is kept as given (only None means "the default")
    def lemma_partial_init(it):
        ctx = it.ctx
        PCls = resolve_class(it, PART)
        for keep_given, rules_given in ((False, False), (True, True), (True, False), (False, True)):
            kw = {'unknown_char_warning': False}
            if keep_given:
                kw['keep_latex_chars'] = ''
            if rules_given:
                kw['conversion_rules'] = PyList([])
            enc = it.instantiate(PCls, [], kw)
            tag = 'keep_latex_chars=%s, conversion_rules=%s' % ("''" if keep_given else 'default', '[]' if rules_given else 'default')
            k = enc.fields.get('keep_latex_chars')
            ctx.prove('PartialLatexToLatexEncoder(%s): the keep characters are the given ones' % tag,
                      (k == '') if keep_given else (k == '\\${}^_'), 'post', src='keep_latex_chars = %r' % (k,))
            cr = enc.fields.get('conversion_rules')
            items = list(cr.items) if isinstance(cr, PyList) and cr.items is not None else None
            ok = items is not None and len(items) >= 1 and isinstance(items[0], Obj) and \
                items[0].fields.get('replacement_latex_protection') == 'none'
            rest = items[1:] if items else None
            ctx.prove('PartialLatexToLatexEncoder(%s): the rules are its own token-keeping rule followed by exactly the given rules' % tag,
                      ok and (rest == [] if rules_given else rest == ['defaults']), 'post', src='rules after the first: %r' % (rest,))
    units['PartialLatexToLatexEncoder.__init__'] = LemmaUnit('PartialLatexToLatexEncoder.__init__', lemma_partial_init,
                                                             functions=[PART + '.__init__'])

    # ---- module-level cached helper: a cached encoder is interchangeable with a fresh one ---------------------------------------------
    HELPER = 'pylatexenc.latexencode.unicode_to_latex'
    OPTS = ['non_ascii_only', 'replacement_latex_protection', 'unknown_char_policy', 'unknown_char_warning']

    class EncoderCtor(object):
        """UnicodeToLatexEncoder(**options) as seen by the helper: an encoder object carrying exactly these options
        (that the constructor stores and acts on its options is the subject of '__init__:rule-compilation')"""
        def instantiate(self, it, cls, args, kwargs, node):
            if not it.ctx.ghost.get('abstract_encoder_ctor'):
                return NotImplemented
            if args or set(kwargs) - set(OPTS):
                it.raise_builtin('TypeError', 'wd:bind[UnicodeToLatexEncoder(%s)]' % sorted(kwargs))
            f = {'non_ascii_only': False, 'replacement_latex_protection': 'braces', 'unknown_char_policy': 'keep',
                 'unknown_char_warning': True}
            f.update(kwargs)
            o = Obj(cls, f, tag='fresh_encoder')
            it.ctx.ghost.setdefault('constructed', []).append(o)
            return o
    reg.class_contracts[ENC] = EncoderCtor()

    def opt_val(it, name):
        return AbsVal(z3.Int(name), 'option', attrs={'truth': lambda it2, sf: z3.Bool(name + '.truthy')})

    def setup_helper(it):
        ctx = it.ctx
        ctx.ghost['abstract_encoder_ctor'] = True
        args = {o: opt_val(it, o) for o in OPTS}
        cache = PyDict()
        n = ctx.choose(3, 'cache entries')
        for j in range(n):
            key = tuple(opt_val(it, 'cached%d.%s' % (j, o)) for o in OPTS)
            encj = Obj(resolve_class(it, ENC), dict(zip(OPTS, key)), tag='cached%d' % j, is_input=True)
            cache.items[key] = encj
        it.module_state[('pylatexenc.latexencode', '_u2l_obj_cache')] = cache
        ctx.ghost['cache'] = cache
        d = {'s': sym_str(it, 's')}
        d.update(args)
        return d

    @reg.spec('used_encoder_has_options')
    def used_encoder_has_options(it, *vals):
        u = it.ctx.ghost.get('used_encoder')
        if not isinstance(u, Obj):
            return False
        return z_and(*[it.equal_term(u.fields.get(o), v) for o, v in zip(OPTS, vals)])

    @reg.spec('cache_consistent')
    def cache_consistent(it):
        out = []
        for key, e in it.ctx.ghost['cache'].items.items():
            if not isinstance(key, tuple) or len(key) != len(OPTS):
                return False           # the key must determine every option of the encoder stored under it
            out.extend(it.equal_term(e.fields.get(o), kv) for o, kv in zip(OPTS, key))
        return z_and(*out)

    c_help = reg.add(Contract(
        HELPER, setup=setup_helper,
        ensures=[('encodes-with-an-encoder-carrying-exactly-the-requested-options',
                  'used_encoder_has_options(non_ascii_only, replacement_latex_protection, unknown_char_policy, '
                  'unknown_char_warning)'),
                 ('every-cached-encoder-matches-its-key', 'cache_consistent()')],
        raises={'ValueError': []},
        modifies=[]))
    units['latexencode.unicode_to_latex(cached helper)'] = FunctionUnit(c_help)

    for k in units:
        contracts.REPLAYERS[k] = replay
    return {'C04': units}


NATIVE = PRELUDE + r'''
import re, unicodedata
from pylatexenc.latexencode import (UnicodeToLatexEncoder, UnicodeToLatexConversionRule, RULE_DICT, RULE_REGEX,
                                    RULE_CALLABLE, PartialLatexToLatexEncoder, unicode_to_latex, get_builtin_conversion_rules)

def ends_cw(r):
    k = r.rfind("\\")
    return k >= 0 and r[k+1:].isalpha()
PROT = {"none": lambda r: r, "braces": lambda r: "{" + r + "}" if ends_cw(r) else r,
        "braces-almost-all": lambda r: "{" + r + "}" if r[0:1] == "\\" else r,
        "braces-all": lambda r: "{" + r + "}", "braces-after-macro": lambda r: r + "{}" if ends_cw(r) else r}
UNK = {"keep": lambda ch: ch, "replace": lambda ch: r"{\bfseries ?}", "ignore": lambda ch: "",
       "unihex": lambda ch: r"\ensuremath{\langle}\texttt{U+" + ("%X" % ord(ch)).zfill(4) + r"}\ensuremath{\rangle}"}

def reference(s, rules, prot, policy, non_ascii_only):
    """the documented semantics (ENC of DESIGN C04); rules: list of (kind, payload, own protection)"""
    s = unicodedata.normalize("NFC", s)
    out = ""; i = 0
    while i < len(s):
        if non_ascii_only and ord(s[i]) <= 127:
            out += s[i]; i += 1; continue
        hit = None
        for kind, payload, own in rules:
            if kind == "dict" and ord(s[i]) in payload:
                hit = (1, payload[ord(s[i])], own)
            elif kind == "regex":
                for rx, repl in payload:
                    m = rx.match(s, i)
                    if m is not None:
                        hit = (m.end() - m.start(), repl(m) if callable(repl) else m.expand(repl), own); break
            elif kind == "callable":
                import inspect
                r = payload(s, i, u2lobj=None) if "u2lobj" in inspect.getfullargspec(payload)[0] else payload(s, i)
                if r is not None: hit = (r[0], r[1], own)
            if hit: break
        if hit:
            out += PROT[hit[2] or prot](hit[1]); i += hit[0]
        elif 32 <= ord(s[i]) <= 127 or s[i] in "\n\r\t":
            out += s[i]; i += 1
        else:
            if policy == "fail": return ValueError
            out += UNK[policy](s[i]); i += 1
    return out

def cases():
    d1 = {ord("a"): r"\alpha", ord("b"): "B", 0x7f: r"\del", ord("\t"): r"\tab", ord("\u00e9"): r"\'e", 0x0c: r"\ff",
          ord("^"): r"\^{}"}
    rx1 = [(re.compile(r"\b[A-Z]{2,}"), r"{\g<0>}"), (re.compile(r"(?<=\d)-(?=\d)"), "--"), (re.compile(r"\.\.\."), r"\\ldots")]
    def c1(s, pos):
        if s.startswith("--", pos): return (2, r"\textendash")
        return None
    def c2(s, pos, u2lobj):
        if s[pos] == "%": return (1, r"\textpercent")
        return None
    for own in (None, "none", "braces-all", "braces-after-macro"):
        yield [("callable", c2, own), ("dict", d1, None), ("callable", c1, "braces")]
        yield [("regex", rx1, own), ("dict", d1, "none")]
        yield [("dict", d1, own)]
        yield [("callable", c1, None), ("callable", c2, own), ("regex", rx1, None)]

INPUTS = ["x^2 \x80\x81", "a--b %c", "McDONALD NASA xABC 1-2 a...b", "ab\tc\x7fd\x0ce\u00e9", "e\u0301 x\U0001F600y\u0378", "", "%a\\", "a\x01"]

def build(rules):
    out = []
    for kind, payload, own in rules:
        t = {"dict": RULE_DICT, "regex": RULE_REGEX, "callable": RULE_CALLABLE}[kind]
        out.append(UnicodeToLatexConversionRule(t, payload, replacement_latex_protection=own))
    return out

def search():
    for rules in cases():
        for prot in PROT:
            for policy in ("keep", "replace", "ignore", "unihex", "fail"):
                for nao in (False, True):
                    u = UnicodeToLatexEncoder(conversion_rules=build(rules), replacement_latex_protection=prot,
                                              unknown_char_policy=policy, non_ascii_only=nao, unknown_char_warning=False)
                    for s in INPUTS:
                        want = reference(s, rules, prot, policy, nao)
                        try:
                            got = u.unicode_to_latex(s)
                        except ValueError:
                            got = ValueError
                        except Exception as e:
                            return "unicode_to_latex(%r) raised %r (rules %r, %s, %s, non_ascii_only=%r)" % (s, e, [r[0] for r in rules], prot, policy, nao)
                        if got != want:
                            return "unicode_to_latex(%r) = %r, documented semantics give %r (rules %r own=%r, prot %s, policy %s, non_ascii_only=%r)" % (
                                s, got, want, [r[0] for r in rules], [r[2] for r in rules], prot, policy, nao)
    # cached module-level helper: each call must behave like a fresh encoder with the same options
    for args in [(False, "braces", "keep"), (True, "braces", "replace"), (True, "none", "keep"), (False, "braces-all", "ignore"), (True, "braces", "replace")]:
        for s in INPUTS[:5]:
            a = unicode_to_latex(s, non_ascii_only=args[0], replacement_latex_protection=args[1], unknown_char_policy=args[2], unknown_char_warning=False)
            b = UnicodeToLatexEncoder(non_ascii_only=args[0], replacement_latex_protection=args[1], unknown_char_policy=args[2], unknown_char_warning=False).unicode_to_latex(s)
            if a != b: return "cached helper unicode_to_latex(%r, %r) = %r differs from a fresh encoder: %r" % (s, args, a, b)
    # partial encoder: never raises anything but ValueError('fail'); copies LaTeX tokens through
    for s in ["a\\", "\\", "x $y$ \\textbf{\u00e9} {", "50% \\% \u00e9\\", "\\begin{", "a_b^c \\alpha\u03b2"]:
        try:
            PartialLatexToLatexEncoder(unknown_char_warning=False).unicode_to_latex(s)
        except ValueError:
            pass
        except Exception as e:
            return "PartialLatexToLatexEncoder().unicode_to_latex(%r) raised %r" % (s, e)
    # ... and copies each existing LaTeX token through whole (a \\begin{name} token is one token)
    for rules, s, keep in [(["unicode-xml"], "\\begin{align*} a \u00e9 \\end{align*}", ["\\begin{align*}", "\\end{align*}"]),
                           (["defaults"], "\\begin{my*env}x\\end{my*env} \\'e {\\it x}", ["\\begin{my*env}", "\\end{my*env}", "\\'e", "{\\it x}"])]:
        got = PartialLatexToLatexEncoder(conversion_rules=rules + [UnicodeToLatexConversionRule(RULE_DICT, {ord("*"): "{\\ast}"})],
                                         unknown_char_warning=False).unicode_to_latex(s)
        for k in keep:
            if k not in got:
                return "PartialLatexToLatexEncoder(%r + [* -> {\\ast}]).unicode_to_latex(%r) = %r: the token %r was not copied through" % (rules, s, got, k)
'''


def replay(o, model):
    return NATIVE + '''
m = search()
if m: reproduced(m)
not_reproduced()
'''
