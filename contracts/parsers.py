"""Parser layer (C01 span contract, C05 located errors / rejection, C06 recovery):
LatexGeneralNodesParser.parse and LatexWalker.parse_content, against the parser interface contract.

Parser interface contract PIC (what `parser.parse(latex_walker=, token_reader=, parsing_state=)` promises;
START = the reader position at the call, or the call token's position for call parsers):
  normal    returns (node, delta); node.pos == START, node.pos_end == reader position afterwards, the reader
            did not move backwards; delimited parsers consume at least their opening delimiter;
  raises    LatexWalkerParseError with 0 <= pos <= len(s); a LatexWalkerNodesParseError may carry
            recovery_nodes (None or a node lying in [START, len(s)]), and at most one of recovery_at_token /
            recovery_past_token, a token that was read at or after the reader position of the call;
            the reader did not move backwards;  or LatexWalkerEndOfStream.
parse_content is verified against the contract the collector assumes for it (contracts/collector.py),
given PIC for the parser it is handed.  LatexGeneralNodesParser.parse is verified against PIC.
"""
import z3

from pyvc import values as V
from pyvc.values import Obj, PyList, PyDict, AbsVal, Builtin, zint, simp, z_and, z_or, z_not
from pyvc.contracts import (Contract, FunctionUnit, LemmaUnit, LoopContract, sym_int, sym_str, sym_bool, new_obj, resolve_class)
from pyvc.smt import EngineError
from pyvc.interp import PyExc
from contracts.tokenizer import mk_parsing_state, mk_token, TR
from contracts.collector import (NodeSeq, mk_walker_for_parsing, mk_reader_at, abstract_callback, COLL, W, NODES, EXC,
                                 replay as replay_parse)

GNP = 'pylatexenc.latexnodes.parsers._generalnodes.LatexGeneralNodesParser'


def register(reg):
    import contracts
    units = {}

    # ---- collector services used by parsers (assumed: they inspect the whole node list) ---------------------------
    def make_final_nodelist(it, env):
        c = env.vars['self']
        ns = c.fields['_nodelist']
        if it.ctx.branch(V.zbool(ns.nonempty) if not isinstance(ns.nonempty, bool) else ns.nonempty):
            pos, pos_end = ns.first, ns.end
        else:
            pos, pos_end = None, None
        o = new_obj(it, NODES + 'LatexNodeList', {'nodelist': ns, 'pos': pos, 'pos_end': pos_end,
                                                  'parsing_state': c.fields['start_parsing_state'],
                                                  'latex_walker': c.fields['latex_walker']}, tag='nodelist', is_input=False)
        return o
    reg.add(Contract(COLL + '.get_final_nodelist', requires=[('finalized', 'self._finalized')],
                     result_make=make_final_nodelist, modifies=[],
                     note='assumed: LatexNodeList(...) takes pos/pos_end from the first/last non-None node'))
    reg.add(Contract(COLL + '.pos_start',
                     result_make=lambda it, env: (env.vars['self'].fields['_nodelist'].first
                                                  if it.ctx.branch(V.zbool(env.vars['self'].fields['_nodelist'].nonempty))
                                                  else env.vars['self'].fields['_pending_chars_pos']),
                     modifies=[], note='assumed: position of the first non-None node, else of the pending characters'))

    # ---- LatexGeneralNodesParser.parse -------------------------------------------------------------------------------------
    def setup_gnp(it):
        ctx = it.ctx
        s = sym_str(it, 's')
        w = mk_walker_for_parsing(it, s)
        tr = mk_reader_at(it, s, w.fields['tolerant_parsing'])
        ps = mk_parsing_state(it, 'parsing_state', db_inv=True)
        stc = abstract_callback(it, 'stop_token_condition')
        snc = abstract_callback(it, 'stop_nodelist_condition')
        parser = new_obj(it, GNP, dict(
            stop_token_condition=stc, stop_nodelist_condition=snc,
            require_stop_condition_met=sym_bool(it, 'require_stop_condition_met'), stop_condition_message=None,
            make_child_parsing_state=None, include_stop_token_pre_space_chars=sym_bool(it, 'include_pre_space'),
            handle_stop_condition_token=None, handle_stop_data=abstract_callback(it, 'handle_stop_data')), tag='self')

        def make_collector(it2, a, k):
            start = k['token_reader'].fields['_pos']
            c = new_obj(it2, COLL, dict(
                latex_walker=w, token_reader=k['token_reader'], parsing_state=k['parsing_state'],
                start_parsing_state=k['parsing_state'], _nodelist=NodeSeq(0, start, True, True, None, False),
                _pending_chars='', _pending_chars_pos=None, _finalized=False,
                stop_token_condition=k.get('stop_token_condition'), stop_nodelist_condition=k.get('stop_nodelist_condition'),
                include_stop_token_pre_space_chars=k.get('include_stop_token_pre_space_chars', True),
                _make_child_parsing_state_fn=k.get('make_child_parsing_state'),
                _stop_token_condition_met=False, _stop_token_condition_met_token=None,
                _stop_nodelist_condition_met=False, _stop_condition_stop_data=None, _reached_end_of_stream=False),
                tag='collector', is_input=False)
            it2.ctx.ghost['collector'] = c
            return c
        w.fields['make_nodes_collector'] = Builtin('make_nodes_collector', make_collector)
        return {'self': parser, 'latex_walker': w, 'token_reader': tr, 'parsing_state': ps, 'kwargs': PyDict()}

    reg.spec('the_collector')(lambda it: it.ctx.ghost['collector'])
    RDP = 'token_reader._pos'
    TOLW = 'latex_walker.tolerant_parsing'
    LOC = ('located-error', 'exc.pos is not None and 0 <= exc.pos and exc.pos <= len(latex_walker.s)')
    c_gnp = reg.add(Contract(
        GNP + '.parse', setup=setup_gnp,
        requires=[('reader-in-range', '0 <= %s and %s <= len(token_reader.s)' % (RDP, RDP)),
                  ('reader-and-walker-share-the-string', 'token_reader.s == latex_walker.s')],
        ensures=[
            ('strict:list-spans-exactly-what-was-consumed',
             'implies(not %s, result[0].pos == old(%s) and result[0].pos_end == %s)' % (TOLW, RDP, RDP)),
            ('list-lies-in-range', 'old(%s) <= result[0].pos and result[0].pos <= result[0].pos_end and '
                                   'result[0].pos_end <= len(latex_walker.s)' % RDP),
            ('reader-never-moves-backwards', 'old(%s) <= %s and %s <= len(latex_walker.s)' % (RDP, RDP, RDP)),
            ('returns-what-the-collector-collected', 'result[0].nodelist is the_collector()._nodelist'),
            ('strict:children-are-consecutive', 'implies(not %s, nodes_exact(the_collector()))' % TOLW),
        ],
        raises={EXC + 'LatexWalkerNodesParseError': {'ensures': [
            LOC,
            ('nodes-parsed-before-the-error-are-attached',
             'exc.recovery_nodes is not None and exc.recovery_nodes.nodelist is the_collector()._nodelist'),
            ('recovery-nodes-lie-in-range',
             'exc.recovery_nodes.pos is not None and exc.recovery_nodes.pos_end is not None and '
             'old(%s) <= exc.recovery_nodes.pos and exc.recovery_nodes.pos <= exc.recovery_nodes.pos_end and '
             'exc.recovery_nodes.pos_end <= len(latex_walker.s)' % RDP),
            ('reader-never-moves-backwards', 'old(%s) <= %s and %s <= len(latex_walker.s)' % (RDP, RDP, RDP)),
        ]}},
        modifies=[('token_reader._pos', 'int'), ('latex_walker._line_no_calc', lambda it, hint, cur=None: cur)]))
    units['LatexGeneralNodesParser.parse'] = FunctionUnit(c_gnp, inline={
        COLL + '.get_parser_parsing_state_delta', COLL + '.stop_token_condition_met', COLL + '.stop_nodelist_condition_met',
        COLL + '.stop_token_condition_met_token', COLL + '.stop_condition_stop_data'}, split_depth=5)


    # ---- LatexExpressionParser._parse_single_token -------------------------------------------------------------------------
    EXPR = 'pylatexenc.latexnodes.parsers._expression.LatexExpressionParser'

    def setup_pst(it):
        ctx = it.ctx
        s = sym_str(it, 's')
        w = mk_walker_for_parsing(it, s)
        tr = mk_reader_at(it, s, w.fields['tolerant_parsing'])
        ps = mk_parsing_state(it, 'parsing_state', with_context=True, db_inv=True)
        eps = mk_parsing_state(it, 'expr_parsing_state', with_context=True, db_inv=True)
        parser = new_obj(it, EXPR, dict(allow_pre_space=sym_bool(it, 'allow_pre_space'),
                                         allow_pre_comments=sym_bool(it, 'allow_pre_comments'),
                                         return_full_node_list=sym_bool(it, 'return_full_node_list'),
                                         single_token_requiring_arg_is_error=sym_bool(it, 'single_token_requiring_arg_is_error')),
                         tag='self')
        return {'self': parser, 'latex_walker': w, 'token_reader': tr, 'expr_parsing_state': eps, 'parsing_state': ps,
                'kwargs': PyDict()}

    reg.spec('last_token')(lambda it: it.ctx.ghost.get('last_token'))

    @reg.spec('nodes_span_token')
    def nodes_span_token(it, res, reader_pos=None):
        """a one-node result covers exactly the token that was read, and the reader stands at its end"""
        t = it.ctx.ghost.get('last_token')
        if not (isinstance(res, PyList) and res.items is not None and len(res.items) == 1 and t is not None):
            return True
        n = res.items[0]
        if n is None or t.fields['tok'] == 'brace_open':
            return True
        return z_and(V.z_eq(it.getattr(n, 'pos'), t.fields['pos']), V.z_eq(it.getattr(n, 'pos_end'), t.fields['pos_end']),
                     True if reader_pos is None else V.z_eq(reader_pos, it.getattr(n, 'pos_end')))

    TRY = 'pylatexenc.latexnodes.parsers._expression._TryAgainWithSkippedCommentOrWhitespaceNodes'

    def skipped_node(it, kind, tag):
        """a comment node or a whitespace chars node that the expression parser skipped over"""
        p = it.ctx.fresh_int(tag + '.pos')
        e = it.ctx.fresh_int(tag + '.pos_end')
        it.ctx.assume(z3.And(0 <= p, p < e))
        base = {'pos': p, 'pos_end': e, 'parsing_state': None, 'latex_walker': None}
        if kind == 'comment':
            base.update(comment=it.fresh_str(tag + '.comment'), comment_post_space=it.fresh_str(tag + '.post_space'))
            n = new_obj(it, NODES + 'LatexCommentNode', base, tag=tag, is_input=False)
            it.ctx.ghost.setdefault('skipped_comments', []).append(n)
        else:
            base.update(chars=it.fresh_str(tag + '.chars'))
            n = new_obj(it, NODES + 'LatexCharsNode', base, tag=tag, is_input=False)
        it.ctx.ghost.setdefault('skipped_all', []).append(n)
        return n

    def make_err(it, env, cls):
        o = Obj(resolve_class(it, EXC + cls), {
            'pos': it.ctx.fresh_int('err.pos'), 'lineno': None, 'colno': None, 'msg': it.fresh_str('msg'), 's': None,
            'open_contexts': PyList([]), 'error_type_info': None, 'input_source': None, 'args': ()}, tag='exc')
        o.open = True
        return o

    def make_expr_nodes(it, env):
        """the expression itself: one node (seen from LatexExpressionParser.parse); in tolerant mode possibly nothing at all
        (end of input where an expression was expected)"""
        if it.ctx.choose(2, 'the single-token step found an expression') == 1:
            it.ctx.ghost['no_expression_found'] = True
            return PyList([])
        p = it.ctx.fresh_int('expr.pos')
        e = it.ctx.fresh_int('expr.pos_end')
        it.ctx.assume(z3.And(0 <= p, p <= e))
        n = new_obj(it, NODES + 'LatexGroupNode', {'pos': p, 'pos_end': e, 'parsing_state': None, 'latex_walker': None,
                                                   'nodelist': None, 'delimiters': ('', '')}, tag='expression', is_input=False)
        return PyList([n])

    def make_try_again(it, env):
        k = it.ctx.choose(3, 'what was skipped')
        nodes = [] if k == 0 else [skipped_node(it, 'comment' if k == 1 else 'chars', 'skipped')]
        return Obj(resolve_class(it, TRY), {'skipped_nodes': PyList(nodes), 'pos': it.ctx.fresh_int('try.pos'), 'args': ()}, tag='exc')
    c_pst = reg.add(Contract(
        EXPR + '._parse_single_token', setup=setup_pst,
        requires=[('reader-in-range', '0 <= %s and %s <= len(token_reader.s)' % (RDP, RDP)),
                  ('reader-and-walker-share-the-string', 'token_reader.s == latex_walker.s'),
                  ('reader-and-walker-agree-on-tolerant-mode', 'token_reader.tolerant_parsing == latex_walker.tolerant_parsing'),
                  ('context-database-invariant', 'db_inv(parsing_state.latex_context) and db_inv(expr_parsing_state.latex_context)')],
        ensures=[('a-begin-or-end-macro-is-no-expression',
                  "implies(not %s and self.single_token_requiring_arg_is_error and last_token() is not None and "
                  "last_token().tok == 'macro', not (last_token().arg in ('begin', 'end')))" % TOLW),
                 ('single-token-node-covers-its-token-and-the-reader-stands-at-its-end',
                  'nodes_span_token(result, %s)' % RDP),
                 ('one-node-or-nothing-and-nothing-only-in-tolerant-mode', 'len(result) == 1 or (len(result) == 0 and %s)' % TOLW),
                 ('reader-never-moves-backwards', 'old(%s) <= %s and %s <= len(latex_walker.s)' % (RDP, RDP, RDP))],
        result_make=make_expr_nodes,
        raises={EXC + 'LatexWalkerNodesParseError': {'make': lambda it, env: make_err(it, env, 'LatexWalkerNodesParseError'), 'ensures': [LOC]},
                EXC + 'LatexWalkerParseError': {'make': lambda it, env: make_err(it, env, 'LatexWalkerParseError'), 'ensures': [LOC]},
                TRY: {'make': make_try_again, 'ensures': [
                    ('reader-never-moves-backwards', 'old(%s) <= %s and %s <= len(latex_walker.s)' % (RDP, RDP, RDP))]}},
        modifies=[('token_reader._pos', 'int'), ('latex_walker._line_no_calc', lambda it, hint, cur=None: cur)]))
    units['LatexExpressionParser._parse_single_token'] = FunctionUnit(c_pst, inline={
        EXPR + '._check_if_requires_args', W + '.make_node', W + '.check_tolerant_parsing_ignore_error'}, split_depth=5)

    # ---- _update_posposend_from_nodelist: a node list spans from its first to its last non-None node ----------------------------------
    UPD = NODES + '_update_posposend_from_nodelist'
    ISNONE = z3.Function('entry_is_none', z3.IntSort(), z3.BoolSort())
    EPOS = z3.Function('entry_pos', z3.IntSort(), z3.IntSort())
    EEND = z3.Function('entry_pos_end', z3.IntSort(), z3.IntSort())

    class AbsEntries(object):
        """a list of arbitrary length whose entries are None or nodes with arbitrary positions"""
        def __init__(self, it, rev=False, n=None):
            self.n = n if n is not None else it.ctx.fresh_int('len(nodelist)')
            it.ctx.assume(self.n >= 0)
            self.rev = rev

        def idx(self, i):
            return simp(self.n - 1 - zint(i)) if self.rev else zint(i)

        def pyvc_seq(self, it):
            def item(i):
                j = self.idx(i)
                it.ctx.ghost.setdefault('entry_log', []).append(j)
                if it.ctx.branch(ISNONE(j)):
                    return None
                return AbsVal(j, 'node', attrs={'pos': EPOS(j), 'pos_end': EEND(j), 'truth': lambda it2, sf: True})
            return (self.n, item)

        def pyvc_reversed(self, it):
            return AbsEntries(it, rev=not self.rev, n=self.n)

    def setup_upd(it):
        ctx = it.ctx
        pos = None if ctx.choose(2, 'pos given') == 0 else sym_int(it, 'pos')
        pe = None if ctx.choose(2, 'pos_end given') == 0 else sym_int(it, 'pos_end')
        lst = AbsEntries(it)
        ctx.ghost['entries'] = lst
        return {'pos': pos, 'pos_end': pe, 'nodelist': lst}
    reg.spec('entry_none')(lambda it, q: ISNONE(zint(q)))
    reg.spec('entry_index')(lambda it, lst, i: lst.idx(i))
    reg.spec('nlen')(lambda it, lst: lst.n)

    @reg.spec('first_node_position')
    def first_node_position(it, res, lst):
        """res is the position of the first non-None entry (witness: the entry the loop stopped at), or None when all are None"""
        ctx = it.ctx
        if res is None:
            q = z3.Int('fq!%d' % ctx.next_id())
            return z3.ForAll([q], z3.Implies(z3.And(0 <= q, q < lst.n), ISNONE(q)))
        q = z3.Int('fq!%d' % ctx.next_id())
        return z_or(*[z3.And(0 <= w, w < lst.n, z3.Not(ISNONE(w)), zint(res) == EPOS(w),
                             z3.ForAll([q], z3.Implies(z3.And(0 <= q, q < w), ISNONE(q)))) for w in ctx.ghost.get('entry_log', [])])

    @reg.spec('last_node_end')
    def last_node_end(it, res, lst):
        ctx = it.ctx
        if res is None:
            q = z3.Int('lq!%d' % ctx.next_id())
            return z3.ForAll([q], z3.Implies(z3.And(0 <= q, q < lst.n), ISNONE(q)))
        q = z3.Int('lq!%d' % ctx.next_id())
        return z_or(*[z3.And(0 <= w, w < lst.n, z3.Not(ISNONE(w)), zint(res) == EEND(w),
                             z3.ForAll([q], z3.Implies(z3.And(w < q, q < lst.n), ISNONE(q)))) for w in ctx.ghost.get('entry_log', [])])

    reg.add_loop(LoopContract(UPD, 0, index='k', invariant=[('only-None-entries-so-far', 'forall(0, k, lambda q: entry_none(q))'),
                                                             ('nothing-found-yet', 'pos is None')],
                              havoc={'n': 'none'}, note='first loop: scan from the front'))
    reg.add_loop(LoopContract(UPD, 1, index='k2', invariant=[('only-None-entries-so-far-from-the-back',
                                                              'forall(0, k2, lambda q: entry_none(nlen(nodelist) - 1 - q))'),
                                                             ('nothing-found-yet', 'pos_end is None')],
                              havoc={'n': 'none'}, note='second loop: scan from the back'))
    c_upd = reg.add(Contract(
        UPD, setup=setup_upd,
        ensures=[('a-given-position-is-kept', 'implies(old(pos) is not None, result[0] == old(pos))'),
                 ('a-given-end-is-kept', 'implies(old(pos_end) is not None, result[1] == old(pos_end))'),
                 ('internal:otherwise-the-list-starts-at-its-first-non-None-node', 'implies(old(pos) is None, first_node_position(result[0], nodelist))'),
                 ('internal:otherwise-the-list-ends-at-its-last-non-None-node', 'implies(old(pos_end) is None, last_node_end(result[1], nodelist))')],
        modifies=[]))
    c_upd.extra_olds = ['pos', 'pos_end']
    upd_units = {'_update_posposend_from_nodelist': FunctionUnit(c_upd)}

    # ---- LatexExpressionParser.parse: what becomes of the comments skipped before the expression (C12) ---------------------------------
    def setup_expr(it):
        d = setup_pst(it)
        eps = d.pop('expr_parsing_state')
        # sub_context(enable_environments=False) yields some parsing state satisfying the invariant (C17 verifies
        # which fields it carries; they do not matter here)
        d['parsing_state'].fields['sub_context'] = Builtin('sub_context', lambda it2, a, k: eps)
        return d

    def mk_skipped_so_far(it, hint):
        """bounded stand-in: at most two nodes were skipped in earlier iterations (stated in the evidence)"""
        n = it.ctx.choose(3, 'nodes skipped so far')
        return PyList([skipped_node(it, 'comment' if it.ctx.choose(2, 'earlier skipped node %d is a comment' % i) else 'chars',
                                    'earlier%d' % i) for i in range(n)])

    @reg.spec('keeps_skipped_comments')
    def keeps_skipped_comments(it, result):
        want = it.ctx.ghost.get('skipped_comments', [])
        if not want:
            return True
        have = []
        if isinstance(result, Obj) and result.cls.name == 'LatexNodeList':
            have = list(result.fields['nodelist'].items)
        elif isinstance(result, Obj) and result.cls.name == 'LatexGroupNode' and isinstance(result.fields.get('nodelist'), Obj):
            have = list(result.fields['nodelist'].fields['nodelist'].items)
        return all(any(h is w for h in have) for w in want)
    @reg.spec('skipped_nodes_handed_back_at_the_end_of_input')
    def skipped_nodes_handed_back(it, parser, result):
        """the input ended where the expression was expected: what was skipped on the way is what is handed back (all of it in
        a full node list, otherwise its last node, as for a found expression) -- it is not thrown away"""
        if not it.ctx.ghost.get('no_expression_found'):
            return True
        sk = it.ctx.ghost.get('skipped_all', [])
        if not sk:
            return True
        have = list(result.fields['nodelist'].items) if isinstance(result, Obj) and result.cls.name == 'LatexNodeList' else []
        full = it.truth_term(parser.fields['return_full_node_list'])
        all_of_it = len(have) == len(sk) and all(h is w for h, w in zip(have, sk))
        return z_or(z_and(full, all_of_it), z_and(z_not(full), result is sk[-1]))

    reg.add_loop(LoopContract(EXPR + '.parse', 0, invariant=[('reader-in-range', '0 <= %s and %s <= len(token_reader.s)' % (RDP, RDP))], havoc={'exprnodes': mk_skipped_so_far, 'moreexprnodes': 'none',
                                                                       'thenodelist': 'none', 'result': 'none', 'e': 'none'},
                              havoc_fields=['token_reader._pos', 'latex_walker._line_no_calc'],
                              note='bounded: the nodes skipped in earlier iterations are a list of at most two'))
    c_expr = Contract(
        EXPR + '.parse', setup=setup_expr,
        requires=[('reader-in-range', '0 <= %s and %s <= len(token_reader.s)' % (RDP, RDP)),
                  ('reader-and-walker-share-the-string', 'token_reader.s == latex_walker.s'),
                  ('reader-and-walker-agree-on-tolerant-mode', 'token_reader.tolerant_parsing == latex_walker.tolerant_parsing'),
                  ('context-database-invariant', 'db_inv(parsing_state.latex_context)')],
        ensures=[('internal:comments-read-on-the-way-to-the-expression-stay-in-the-tree', 'keeps_skipped_comments(result[0])'),
                 ('internal:nodes-skipped-before-the-end-of-the-input-are-handed-back',
                  'skipped_nodes_handed_back_at_the_end_of_input(self, result[0])')],
        raises={EXC + 'LatexWalkerNodesParseError': {'ensures': [LOC]}, EXC + 'LatexWalkerParseError': {'ensures': [LOC]}},
        modifies=[('token_reader._pos', 'int'), ('latex_walker._line_no_calc', lambda it, hint, cur=None: cur)])
    c_expr_tot = Contract(
        EXPR + '.parse', setup=setup_expr,
        requires=c_expr.requires,
        ensures=[('always-hands-back-a-node-or-a-node-list', 'result[0] is not None and result[1] is None')],
        raises={EXC + 'LatexWalkerNodesParseError': {'ensures': [LOC]}, EXC + 'LatexWalkerParseError': {'ensures': [LOC]}},
        modifies=[('token_reader._pos', 'int'), ('latex_walker._line_no_calc', lambda it, hint, cur=None: cur)])
    EXPR_INLINE = {W + '.make_nodelist', W + '.make_node', NODES + 'LatexNodeList.__init__', NODES + 'LatexNodeList.__getitem__',
                   NODES + 'LatexNodeList.__len__', NODES + '_update_posposend_from_nodelist'}
    units['LatexExpressionParser.parse[no other exception, in either mode]'] = FunctionUnit(c_expr_tot, inline=EXPR_INLINE, split_depth=4)
    expr_units = {'LatexExpressionParser.parse': FunctionUnit(c_expr, inline={
        W + '.make_nodelist', W + '.make_node', NODES + 'LatexNodeList.__init__', NODES + 'LatexNodeList.__getitem__',
        NODES + 'LatexNodeList.__len__', NODES + '_update_posposend_from_nodelist'}, split_depth=4)}

    # ---- latex_verbatim(): a node is its source slice; a node list is the concatenation of its nodes' source, in order -----------------
    def setup_nv(it):
        src = sym_str(it, 's')
        w = None if it.ctx.choose(2, 'the node knows its walker') == 1 else new_obj(it, W, {'s': src}, tag='latex_walker')
        a = sym_int(it, 'pos', lo=0)
        e = sym_int(it, 'pos_end', lo=0)
        n = new_obj(it, NODES + 'LatexCharsNode', {'pos': a, 'pos_end': e, 'latex_walker': w, 'parsing_state': None, 'chars': ''}, tag='self')
        return {'self': n}
    c_nv = Contract(NODES + 'LatexNode.latex_verbatim', setup=setup_nv,
                    requires=[('the-node-lies-in-the-source',
                               'self.latex_walker is None or (0 <= self.pos and self.pos <= self.pos_end and self.pos_end <= len(self.latex_walker.s))')],
                    ensures=[('the-source-slice-of-the-node', 'result == self.latex_walker.s[self.pos : self.pos_end]')],
                    raises={'TypeError': {'when': 'self.latex_walker is None', 'ensures': []}}, modifies=[])
    upd_units['LatexNode.latex_verbatim'] = FunctionUnit(c_nv)

    def setup_lv(it):
        ctx = it.ctx
        n = ctx.choose(4, 'entries in the list')          # bounded: lists of at most three entries (stated)
        items, texts = [], []
        for j in range(n):
            if ctx.choose(2, 'entry %d is None' % j) == 1:
                items.append(None)
                continue
            t = it.fresh_str('verbatim_of_child_%d' % j)
            texts.append(t)
            items.append(AbsVal(z3.Int('child%d' % j), 'node', methods={'latex_verbatim': (lambda t: lambda it2, sf, a_, kw: t)(t)},
                                attrs={'truth': lambda it2, sf: True}))
        ctx.ghost['child_texts'] = texts
        src = sym_str(it, 's')
        w = None if ctx.choose(2, 'the list knows its walker') == 1 else new_obj(it, W, {'s': src}, tag='latex_walker')
        pos = None if ctx.choose(2, 'the list has a position') == 1 else sym_int(it, 'pos', lo=0)
        lst = new_obj(it, NODES + 'LatexNodeList', {'nodelist': PyList(items), 'pos': pos, 'pos_end': (None if pos is None else sym_int(it, 'pos_end', lo=0)),
                                                    'latex_walker': w, 'parsing_state': None}, tag='self')
        return {'self': lst}

    @reg.spec('children_verbatim_joined')
    def children_verbatim_joined(it):
        out = ''
        for t in it.ctx.ghost.get('child_texts', []):
            out = V.sconcat(out, t)
        return out
    c_lv = Contract(NODES + 'LatexNodeList.latex_verbatim', setup=setup_lv,
                    ensures=[('the-concatenation-of-its-nodes-source-in-order', 'result == children_verbatim_joined()')], modifies=[])
    upd_units['LatexNodeList.latex_verbatim'] = FunctionUnit(c_lv, inline={NODES + 'LatexNodeList.__len__'})

    for k in list(units) + list(expr_units):
        contracts.REPLAYERS[k] = replay_parse
    c01 = dict(units)
    c01.update(upd_units)
    return {'C01': c01, 'C05': dict(units), 'C06': dict(units), 'C12': expr_units}
