"""LatexWalker (latexwalker/_walker.py): line/column service and error annotation (C20),
tolerant/strict error handling of parse_content (C05/C06)."""
import z3

from pyvc import values as V
from pyvc.values import Obj, PyList, PyDict, Opaque, AbsVal, Builtin, zint, simp
from pyvc.interp import PyExc
from pyvc.contracts import (Contract, FunctionUnit, sym_int, sym_str, sym_bool, sym_intlist, new_obj,
                            resolve_class, make_value)
from pyvc.smt import forall_range
from pyvc.replay import PRELUDE, model_str, model_int
from contracts.util import lines, LNC

W = 'pylatexenc.latexwalker._walker.LatexWalker'
PC = W + '._ParsingContext'
PCQ = PC
EXC = 'pylatexenc.latexnodes._exctypes.'
TOK = 'pylatexenc.latexnodes._token.LatexToken'


def mk_calc(it, s, lo, fo, co, tag='calc'):
    """a LineNumbersCalculator that satisfies its invariant for string s"""
    L = make_value(it, 'intlist', 'starts')
    o = new_obj(it, LNC, {'line_number_offset': lo, 'first_line_column_offset': fo, 'column_offset': co,
                          '_pos_new_lines': L}, tag=tag)
    return o


def mk_walker(it, calc=None, name='walker'):
    ctx = it.ctx
    s = sym_str(it, 's')
    lo, fo, co = sym_int(it, 'line_number_offset'), sym_int(it, 'first_line_column_offset'), sym_int(it, 'column_offset')
    w = new_obj(it, W, {'s': s, 'line_number_offset': lo, 'first_line_column_offset': fo, 'column_offset': co,
                        'tolerant_parsing': sym_bool(it, 'tolerant_parsing'), 'debug_nodes': False,
                        '_line_no_calc': None}, tag=name)
    if calc is None:
        calc = ctx.choose(2, 'line calculator already created') == 1
    if calc:
        w.fields['_line_no_calc'] = mk_calc(it, s, lo, fo, co)
    w.open = True
    return w


CALC = 'self._line_no_calc'
WALKER_INV = [('calculator-consistent',
               'self._line_no_calc is None or ('
               'self._line_no_calc.line_number_offset == self.line_number_offset and '
               'self._line_no_calc.first_line_column_offset == self.first_line_column_offset and '
               'self._line_no_calc.column_offset == self.column_offset)')] + \
    [(n, 'self._line_no_calc is None or (%s)' % c) for n, c in lines('self._line_no_calc._pos_new_lines', 'self.s')]


def p2l_post(W_, LN, CN, POS, guard):
    """C20 relation between (lineno, colno) and pos for walker expression W_ (post-state table)."""
    T = '%s._line_no_calc._pos_new_lines' % W_
    I = '(%s - %s.line_number_offset)' % (LN, W_)
    COL = '(%s - (%s.first_line_column_offset if %s == 0 else %s.column_offset))' % (CN, W_, I, W_)
    return [
        ('line-index-in-table', 'implies(%s, 0 <= %s and %s < len(%s))' % (guard, I, I, T)),
        ('pos-is-line-start-plus-column', 'implies(%s, %s[%s] + %s == %s and %s >= 0)' % (guard, T, I, COL, POS, COL)),
        ('pos-before-next-line-start', 'implies(%s, %s == len(%s) - 1 or %s < %s[%s + 1])' % (guard, I, T, POS, T, I)),
    ]


def register(reg):
    import contracts
    units = {}

    # ---------------- LatexWalker.pos_to_lineno_colno ---------------------------------------------------
    def setup_p2l(it):
        w = mk_walker(it, name='self')
        as_dict = bool(it.ctx.choose(2, 'as_dict'))
        pos = None if it.ctx.choose(2, 'pos is None') == 1 else sym_int(it, 'pos')
        return {'self': w, 'pos': pos, 'as_dict': as_dict}

    def make_p2l_result(it, env):
        v = env.vars
        if v['pos'] is None:
            ln, cn = None, None
        else:
            ln, cn = it.ctx.fresh_int('lineno'), it.ctx.fresh_int('colno')
        if it.ctx.branch(it.truth_term(v['as_dict'])):
            return PyDict({'lineno': ln, 'colno': cn})
        return (ln, cn)

    def make_calc_field(it, hint, cur=None):
        # lazily created once, then reused: an existing calculator object is kept
        if cur is not None:
            return cur
        return mk_calc(it, it.fresh_str('calc_s'), it.ctx.fresh_int('lo'), it.ctx.fresh_int('fo'),
                       it.ctx.fresh_int('co'))
    make_calc_field.wants_current = True

    LN = "(result['lineno'] if as_dict else result[0])"
    CN = "(result['colno'] if as_dict else result[1])"
    c_p2l = reg.add(Contract(
        W + '.pos_to_lineno_colno', setup=setup_p2l,
        requires=WALKER_INV + [('pos-nonnegative', 'pos is None or pos >= 0')],
        result_make=make_p2l_result,
        ensures=[('calculator-exists', 'self._line_no_calc is not None'),
                 ('calculator-kept-once-created',
                  'implies(old(self._line_no_calc) is not None, self._line_no_calc is old(self._line_no_calc))'),
                 ('none-maps-to-none', 'implies(pos is None, %s is None and %s is None)' % (LN, CN))]
                + WALKER_INV + p2l_post('self', LN, CN, 'pos', 'pos is not None'),
        modifies=[('self._line_no_calc', make_calc_field)]))
    c_p2l.arg_dependent_shapes = ('value',)      # the dictionary form (as_dict=True), which no call site inside the package asks for
    units['LatexWalker.pos_to_lineno_colno'] = FunctionUnit(c_p2l)

    # ---------------- LatexWalker.__init__ : offset defaults -----------------------------------------------
    def setup_init(it):
        self = new_obj(it, W, {}, tag='self')
        kw = {}
        for k in ('line_number_offset', 'first_line_column_offset', 'column_offset'):
            c = it.ctx.choose(3, k + ' given')
            if c == 1:
                kw[k] = None
            elif c == 2:
                kw[k] = sym_int(it, k)
        ps = Opaque('default_parsing_state')
        kw['default_parsing_state'] = new_obj(it, 'pylatexenc.latexnodes._parsingstate.ParsingState', {}, tag='ps')
        kw['tolerant_parsing'] = sym_bool(it, 'tolerant_parsing')
        return {'self': self, 's': sym_str(it, 's'), 'latex_context': None, 'kwargs': PyDict(kw)}

    c_winit = reg.add(Contract(
        W + '.__init__', setup=setup_init,
        ensures=[('string-stored', 'self.s == s'),
                 ('line-number-offset-default-1',
                  "self.line_number_offset == (old(kwargs.get('line_number_offset')) "
                  "if old(kwargs.get('line_number_offset')) is not None else 1)"),
                 ('first-line-column-offset-default-0',
                  "self.first_line_column_offset == (old(kwargs.get('first_line_column_offset')) "
                  "if old(kwargs.get('first_line_column_offset')) is not None else 0)"),
                 ('column-offset-default-0',
                  "self.column_offset == (old(kwargs.get('column_offset')) "
                  "if old(kwargs.get('column_offset')) is not None else 0)"),
                 ('no-stale-calculator', 'self._line_no_calc is None'),
                 ('tolerant-flag-stored', "self.tolerant_parsing == old(kwargs.get('tolerant_parsing'))")],
        modifies=['self.s', 'self.line_number_offset', 'self.first_line_column_offset', 'self.column_offset',
                  'self._line_no_calc', 'self.debug_nodes', 'self.default_parsing_state', 'self.tolerant_parsing',
                  'self.strict_braces']))
    units['LatexWalker.__init__'] = FunctionUnit(c_winit)

    # ---------------- check_tolerant_parsing_ignore_error ---------------------------------------------------
    def mk_parse_error(it, walker, kind=None):
        ctx = it.ctx
        names = ['LatexWalkerParseError', 'LatexWalkerNodesParseError', 'LatexWalkerTokenParseError']
        k = ctx.choose(len(names), 'error class') if kind is None else kind
        cls = resolve_class(it, EXC + names[k])
        pos = None if ctx.choose(2, 'error pos is None') == 1 else sym_int(it, 'exc.pos', lo=0)
        if ctx.choose(2, 'error already has line/col') == 1:
            ln, cn = sym_int(it, 'exc.lineno'), sym_int(it, 'exc.colno')
        else:
            ln, cn = None, None
        o = Obj(cls, {'pos': pos, 'lineno': ln, 'colno': cn, 'open_contexts': PyList([]), 'msg': 'm',
                      's': walker.fields['s'], 'error_type_info': None, 'input_source': None, 'args': ()},
                tag='exc_value', is_input=True)
        o.open = True
        return o

    def setup_check(it):
        w = mk_walker(it, calc=False, name='self')
        c = it.ctx.choose(3, 'kind of exc')
        if c == 0:
            exc = mk_parse_error(it, w)
        elif c == 1:
            exc = Obj(resolve_class(it, EXC + 'LatexWalkerEndOfStream'), {'final_space': '', 'args': ()}, tag='exc')
        else:
            exc = Obj(it.program.builtin_classes['ValueError'], {'args': ()}, tag='exc')
        return {'self': w, 'exc': exc}

    c_chk = reg.add(Contract(
        W + '.check_tolerant_parsing_ignore_error', setup=setup_check,
        result_make=lambda it, env: (None if it.ctx.choose(2, 'ignored') else env.vars['exc']),
        ensures=[('strict-returns-the-error', 'implies(not self.tolerant_parsing, result is exc)'),
                 ('tolerant-ignores-walker-errors',
                  'implies(self.tolerant_parsing and isinstance(exc, LatexWalkerError), result is None)'),
                 ('other-exceptions-returned', 'implies(not isinstance(exc, LatexWalkerError), result is exc)')],
        modifies=[]))
    units['check_tolerant_parsing_ignore_error'] = FunctionUnit(c_chk)

    # ---------------- _ParsingContext.__exit__ -------------------------------------------------------------------
    def setup_exit(it):
        ctx = it.ctx
        w = mk_walker(it)
        oc = ctx.choose(3, 'open context')
        if oc == 0:
            open_context = (None, None)
        elif oc == 1:
            open_context = ('ctx', None)
        else:
            tp = sym_int(it, 'open_tok.pos', lo=0)
            tok = new_obj(it, TOK, {'tok': 'macro', 'arg': 'x', 'pos': tp, 'pos_end': tp + 2, 'pre_space': '',
                                    'post_space': ''}, tag='open_tok')
            open_context = ('ctx', tok)
        self = new_obj(it, PC, {'latex_walker': w, 'open_context': open_context, 'recovery_from_exception': None},
                       tag='self')
        c = ctx.choose(3, 'kind of exit')
        if c == 0:
            return {'self': self, 'exc_type': None, 'exc_value': None, 'exc_traceback': None}
        if c == 1:
            e = mk_parse_error(it, w)
        else:
            e = Obj(it.program.builtin_classes['ValueError'], {'args': ()}, tag='exc_value', is_input=True)
        return {'self': self, 'exc_type': e.cls, 'exc_value': e, 'exc_traceback': Opaque('tb')}

    ISPE = 'isinstance(exc_value, LatexWalkerParseError)'
    FILL = ISPE + ' and old(exc_value.lineno) is None and old(exc_value.colno) is None'
    WW = 'self.latex_walker'
    c_exit = reg.add(Contract(
        PC + '.__exit__', setup=setup_exit,
        requires=[(n, c.replace('self.', WW + '.')) for n, c in WALKER_INV],
        ensures=[
            ('position-not-touched', 'implies(%s, exc_value.pos is old(exc_value.pos) or exc_value.pos == old(exc_value.pos))' % ISPE),
            ('unlocated-error-stays-unlocated',
             'implies(%s and exc_value.pos is None, exc_value.lineno is None and exc_value.colno is None)' % FILL),
            ('existing-line-col-kept',
             'implies(%s and old(exc_value.lineno) is not None, exc_value.lineno == old(exc_value.lineno) and '
             'exc_value.colno == old(exc_value.colno))' % ISPE),
            ('located-error-gets-line-and-column',
             'implies(%s and exc_value.pos is not None, exc_value.lineno is not None and exc_value.colno is not None)' % FILL),
        ] + [('error-' + n, c) for n, c in p2l_post(WW, 'exc_value.lineno', 'exc_value.colno', 'exc_value.pos',
                                                    FILL + ' and exc_value.pos is not None and exc_value.lineno is not None '
                                                    'and exc_value.colno is not None')] + [
            ('strict-mode-propagates', 'implies(not %s.tolerant_parsing, not result)' % WW),
            ('other-exceptions-propagate', 'implies(not (%s), not result)' % ISPE),
            ('tolerant-mode-swallows-parse-errors',
             'implies(%s.tolerant_parsing and %s, result is True)' % (WW, ISPE)),
            ('tolerant-mode-remembers-the-error',
             'implies(%s.tolerant_parsing and %s, self.recovery_from_exception is exc_value)' % (WW, ISPE)),
        ] + [(n + '-afterwards', c.replace('self.', WW + '.')) for n, c in WALKER_INV],
        modifies=[('exc_value.lineno', ('opt', 'int')), ('exc_value.colno', ('opt', 'int')),
                  ('self.recovery_from_exception', lambda it, hint, cur=None: cur),
                  (WW + '._line_no_calc', make_calc_field)]))
    units['_ParsingContext.__exit__'] = FunctionUnit(c_exit)


    # ---- make_token_reader -----------------------------------------------------------------------------------------
    def setup_mtr(it):
        w = mk_walker(it, calc=False, name='self')
        pos = None if it.ctx.choose(2, 'pos given') == 0 else sym_int(it, 'pos')
        return {'self': w, 'pos': pos}

    def make_reader_result(it, env):
        w = env.vars['self']
        pos = env.vars['pos']
        return new_obj(it, 'pylatexenc.latexnodes._tokenreader.LatexTokenReader',
                       {'s': w.fields['s'], '_pos': 0 if pos is None else pos,
                        'tolerant_parsing': w.fields['tolerant_parsing']}, tag='token_reader', is_input=False)
    c_mtr = reg.add(Contract(
        W + '.make_token_reader', setup=setup_mtr, result_make=make_reader_result,
        ensures=[('reads-the-walkers-string', 'result.s == self.s'),
                 ('starts-at-the-requested-position', 'result._pos == (0 if pos is None else pos)'),
                 ('inherits-the-tolerant-flag', 'result.tolerant_parsing == self.tolerant_parsing')],
        modifies=[]))
    units['make_token_reader'] = FunctionUnit(c_mtr)


    # ---- parse_content: discharged against the parser interface contract (PIC) ---------------------------------------
    def mk_pic_parser(it, tr, s):
        """an arbitrary parser that honours PIC (see contracts/parsers.py)"""
        ctx = it.ctx
        kind = ['group_parser', 'math_parser', 'call_parser', 'other_parser'][ctx.choose(4, 'parser kind')]
        p0 = tr.fields['_pos']
        if kind == 'call_parser':
            start = sym_int(it, 'call_token.pos', lo=0)
            ctx.assume(start <= p0)
        else:
            start = None
        may_eos = (kind == 'other_parser')
        START = p0 if start is None else start

        def mknode(lo, hi=None):
            a = ctx.fresh_int('node.pos')
            e = ctx.fresh_int('node.pos_end') if hi is None else hi
            o = Obj(resolve_class(it, 'pylatexenc.latexnodes.nodes.LatexNode'), {'pos': a, 'pos_end': e}, tag='node')
            o.open = True
            return o, a, e

        def parse(it2, self, args, kwargs):
            g = it2.ctx.ghost
            g.setdefault('parse_calls', []).append(dict(kwargs))
            rd = kwargs['token_reader']
            n = zint(V.slen(s))
            new = it2.ctx.fresh_int('reader_after')
            it2.ctx.assume(z3.And(zint(p0) <= new, new <= n))
            rd.fields['_pos'] = new
            out = it2.ctx.choose(3 if may_eos else 2, 'parser outcome')
            if out == 0:
                node, a, e = mknode(START, new)
                it2.ctx.assume(z3.And(a == zint(START), a <= e))
                if kind in ('group_parser', 'math_parser', 'call_parser'):
                    it2.ctx.assume(zint(START) < new)
                delta = None if it2.ctx.choose(2, 'delta') == 0 else AbsVal(it2.ctx.fresh_int('delta'), 'delta')
                g['pic_result'] = (node, delta)
                return (node, delta)
            if out == 2:
                g['pic_eos'] = True
                raise PyExc(Obj(resolve_class(it2, EXC + 'LatexWalkerEndOfStream'), {'final_space': '', 'args': ()}), 'PIC')
            cls = ['LatexWalkerNodesParseError', 'LatexWalkerParseError'][it2.ctx.choose(2, 'error class')]
            epos = it2.ctx.fresh_int('err.pos')
            it2.ctx.assume(z3.And(epos >= 0, epos <= n))
            f = {'pos': epos, 'lineno': None, 'colno': None, 'open_contexts': PyList([]), 'msg': 'm', 's': None,
                 'error_type_info': None, 'input_source': None, 'args': ()}
            if cls == 'LatexWalkerNodesParseError':
                rn = None
                if it2.ctx.choose(2, 'recovery nodes') == 1:
                    rn, a, e = mknode(START)
                    it2.ctx.assume(z3.And(zint(START) <= a, a <= e, e <= n))
                f.update(recovery_nodes=rn, recovery_parsing_state_delta=None, recovery_at_token=None, recovery_past_token=None)
                which = it2.ctx.choose(3, 'recovery token')
                if which:
                    ta, te, tp = it2.ctx.fresh_int('rtok.pos'), it2.ctx.fresh_int('rtok.pos_end'), it2.ctx.fresh_int('rtok.pre')
                    it2.ctx.assume(z3.And(zint(p0) <= tp, tp <= ta, ta <= te, te <= n))
                    tok = new_obj(it2, TOK, {'tok': 'char', 'arg': 'x', 'pos': ta, 'pos_end': te,
                                             'pre_space': V.sslice(it2.ctx, s, tp, ta), 'post_space': ''}, tag='rtok', is_input=False)
                    f['recovery_at_token' if which == 1 else 'recovery_past_token'] = tok
            exc = Obj(resolve_class(it2, EXC + cls), f, tag='exc')
            g['pic_exc'] = exc
            raise PyExc(exc, 'PIC')
        return AbsVal(ctx.fresh_int('parser'), 'parser', methods={'parse': parse},
                      attrs={'span_start': start, 'kind': kind, 'may_eos': may_eos,
                             '__class__': Builtin('cls', lambda it2, a, k: None)})

    def setup_pc(it):
        w = mk_walker(it, calc=False, name='self')
        s = w.fields['s']
        pos = sym_int(it, 'token_reader._pos', lo=0)
        it.ctx.assume(pos <= zint(V.slen(s)))
        tr = new_obj(it, 'pylatexenc.latexnodes._tokenreader.LatexTokenReader',
                     {'s': s, '_pos': pos, 'tolerant_parsing': w.fields['tolerant_parsing']}, tag='token_reader')
        from contracts.tokenizer import mk_parsing_state
        oc = None if it.ctx.choose(2, 'open context') == 0 else ('ctx', None)
        return {'self': w, 'parser': mk_pic_parser(it, tr, s), 'token_reader': tr,
                'parsing_state': mk_parsing_state(it, 'parsing_state', with_context=False), 'open_context': oc}

    PCONTENT = W + '.parse_content'
    c_assumed = reg.contracts.get(PCONTENT)
    if c_assumed is None:
        raise RuntimeError('contracts.collector must be registered before contracts.walker (parse_content contract)')
    c_assumed.setup = setup_pc
    c_assumed.requires = c_assumed.requires + [(n, c) for n, c in WALKER_INV]
    c_assumed.modifies = c_assumed.modifies + [('self._line_no_calc', make_calc_field)]
    # the calculator, once created, stays consistent with the walker (so that a second parse_content call meets its precondition)
    c_assumed.ensures = c_assumed.ensures + [(n + '-afterwards', c) for n, c in WALKER_INV]
    for _k, _v in c_assumed.raises.items():
        _v['ensures'] = list(_v['ensures']) + [(n + '-afterwards', c) for n, c in WALKER_INV]
    reg.spec('parser_met_end_of_stream')(lambda it: bool(it.ctx.ghost.get('pic_eos')))
    reg.spec('parser_returned')(lambda it: it.ctx.ghost.get('pic_result'))
    c_verify = Contract(
        PCONTENT, setup=setup_pc, requires=c_assumed.requires,
        ensures=c_assumed.ensures + [
            ('end-of-stream-gives-no-node-in-both-modes',
             'implies(parser_met_end_of_stream(), result[0] is None and result[1] is None)'),
            ('a-successful-parser-result-is-returned-unchanged-in-both-modes',
             'implies(parser_returned() is not None, result[0] is parser_returned()[0] and '
             '(result[1] is None) == (parser_returned()[1] is None))')],
        raises={k: dict(v, ensures=[c for c in v['ensures']]) for k, v in c_assumed.raises.items()},
        modifies=c_assumed.modifies)
    c_verify.raises = c_assumed.raises
    units['parse_content'] = FunctionUnit(c_verify, inline={PCQ + '.__enter__', PCQ + '.__init__', W + '.new_parsing_open_context',
                                                             PCQ + '.perform_recovery_nodes_and_parsing_state_delta'})


    # ---- C06 "equals strict on valid input": where the tolerant flag is read ------------------------------------------
    def lemma_flag_reads(it):
        """With the flag read only at error-handling sites, a run on which no parse error object is created
        executes the same statements in both modes; in strict mode every created error is raised (C05), so
        'no error object is created' is exactly 'strict mode returns'."""
        import ast, os
        allowed = {'LatexWalker.parse_flags', 'LatexWalker.check_tolerant_parsing_ignore_error',
                   'LatexWalker.make_token_reader', '_pyltxenc2_LatexWalker_get_latex_expression',
                   'LatexTokenReader.peek_token'}
        root = it.program.root
        reads, bad_calls = [], []
        for dp, dn, fns in os.walk(os.path.join(root, 'pylatexenc')):
            if any(x in dp for x in ('latex2text', 'latexencode')):
                continue
            for f in fns:
                if not f.endswith('.py') or f == '__main__.py':
                    continue
                path = os.path.join(dp, f)
                tree = ast.parse(open(path, encoding='utf-8').read())

                def visit(node, stack):
                    for c in ast.iter_child_nodes(node):
                        st = stack + [c.name] if isinstance(c, (ast.FunctionDef, ast.ClassDef)) else stack
                        if isinstance(c, ast.Attribute) and c.attr == 'tolerant_parsing' and isinstance(c.ctx, ast.Load):
                            reads.append(('.'.join(st), '%s:%d' % (os.path.relpath(path, root), c.lineno)))
                        if isinstance(c, ast.Call) and isinstance(c.func, ast.Attribute) \
                                and c.func.attr == 'check_tolerant_parsing_ignore_error':
                            ok = len(c.args) == 1 and isinstance(c.args[0], (ast.Call, ast.Name))
                            if not ok:
                                bad_calls.append('%s:%d' % (os.path.relpath(path, root), c.lineno))
                        visit(c, st)
                visit(tree, [])
        outside = sorted(set((q, w) for q, w in reads if q not in allowed))
        it.ctx.prove('flag-reads:tolerant_parsing is read only by the error-handling entry points', not outside, 'frame',
                     src='reads elsewhere: %r' % (outside,))
        it.ctx.prove('flag-reads:check_tolerant_parsing_ignore_error is only handed an error object', not bad_calls, 'frame',
                     src='other call shapes at %r' % (bad_calls,))
    from pyvc.contracts import LemmaUnit
    units['tolerant-flag-reads'] = LemmaUnit('tolerant-flag-reads', lemma_flag_reads)

    # ---------------- format_pos: the report text carries the line and the column whenever the error has them ------------------
    def setup_fmt(it):
        def some(name):
            k = it.ctx.choose(3, name)
            return None if k == 0 else (sym_int(it, name) if k == 1 else sym_str(it, name + '_text'))
        return {'pos': some('pos'), 'lineno': some('lineno'), 'colno': (None if it.ctx.choose(2, 'colno') == 0 else sym_int(it, 'colno'))}
    c_fmt = reg.add(Contract(
        'pylatexenc.latexnodes._exctypes.format_pos', setup=setup_fmt, result_type='str',
        ensures=[('line-and-column-are-both-reported-when-known-whatever-their-value',      # line 0 / column 0 included
                  "implies(lineno is not None and colno is not None and not isinstance(lineno, str), "
                  "result == '@ (line ' + str(lineno) + ', col ' + str(colno) + ')')"),
                 ('a-line-alone-is-reported-as-such',
                  "implies(lineno is not None and colno is None, result == ('@ ' + lineno if isinstance(lineno, str) else "
                  "'@ line ' + str(lineno)))"),
                 ('otherwise-the-position',
                  "implies(lineno is None, result == ('@ <unknown>' if pos is None else ('@ ' + pos if isinstance(pos, str) else "
                  "'@ char pos ' + str(pos))))")],
        modifies=[]))
    units['format_pos'] = FunctionUnit(c_fmt)

    for k in units:
        contracts.REPLAYERS[k] = replay_walker
    shared = ('check_tolerant_parsing_ignore_error', '_ParsingContext.__exit__', 'parse_content', 'tolerant-flag-reads')
    return {'C20': {k: v for k, v in units.items() if k not in ('check_tolerant_parsing_ignore_error', 'make_token_reader',
                                                                  'parse_content', 'tolerant-flag-reads')},
            'C01': {'parse_content': units['parse_content']},
            'C05': {k: units[k] for k in shared},
            'C06': {k: units[k] for k in shared}}


NATIVE = PRELUDE + r'''
from pylatexenc.latexwalker import LatexWalker, LatexWalkerParseError
from pylatexenc.latexnodes.parsers import LatexGeneralNodesParser
from pylatexenc.latexnodes import LatexWalkerNodesParseError

def true_starts(s):
    return [0] + [i + 1 for i, c in enumerate(s) if c == "\n"]

def check_linecol(s, pos, ln, col, lo, fo, co, what):
    st = true_starts(s)
    i = ln - lo
    if not (0 <= i < len(st)):
        return "%s: line %r outside the %d lines of %r" % (what, ln, len(st), s)
    c0 = col - (fo if i == 0 else co)
    if st[i] + c0 != pos or c0 < 0 or (i + 1 < len(st) and pos >= st[i + 1]):
        return "%s: pos %d of %r reported as line %d col %d (offsets %r)" % (what, pos, s, ln, col, (lo, fo, co))

def check_walker(s, offs):
    kw = {}
    if offs is not None:
        kw = dict(line_number_offset=offs[0], first_line_column_offset=offs[1], column_offset=offs[2])
    lo, fo, co = offs if offs is not None else (1, 0, 0)
    w = LatexWalker(s, tolerant_parsing=False, **kw)
    for pos in list(range(len(s) + 1)) * 2:          # twice: lazy creation, then cached
        ln, col = w.pos_to_lineno_colno(pos)
        m = check_linecol(s, pos, ln, col, lo, fo, co, "LatexWalker.pos_to_lineno_colno")
        if m: return m
        d = w.pos_to_lineno_colno(pos, as_dict=True)
        if d != {"lineno": ln, "colno": col}: return "as_dict differs: %r vs %r" % (d, (ln, col))
    if w.pos_to_lineno_colno(None) != (None, None):
        return "pos_to_lineno_colno(None) != (None, None)"
    # parse errors report the line/column of their own position
    w = LatexWalker(s, tolerant_parsing=False, **kw)
    try:
        w.parse_content(LatexGeneralNodesParser())
    except LatexWalkerParseError as e:
        if e.pos is not None:
            if e.lineno is None or e.colno is None:
                return "parse error at pos %r of %r carries no line/column" % (e.pos, s)
            m = check_linecol(s, e.pos, e.lineno, e.colno, lo, fo, co, "parse error %r" % (e.msg,))
            if m: return m
            if "@ (line %d, col %d)" % (e.lineno, e.colno) not in str(e):
                return "the report of the parse error at pos %d of %r (offsets %r) does not show its line %d and column %d: %r" % (
                    e.pos, s, (lo, fo, co), e.lineno, e.colno, str(e).splitlines()[0])
    except Exception:
        pass

def search():
    for t in strings("a\n}{$\\", 5):
        for offs in (None, (1, 0, 0), (5, 3, 2), (0, 0, 7)):
            m = check_walker(t, offs)
            if m: return m
'''


def replay_walker(o, model):
    s = model_str(model, 's')
    offs = (model_int(model, 'line_number_offset', 1), model_int(model, 'first_line_column_offset'),
            model_int(model, 'column_offset'))
    return NATIVE + '''
s = %r
m = check_walker(s, %r) or check_walker(s, None)
if m: reproduced(m)
m = search()
if m: reproduced(m + "  [found by the replay's bounded search around the verifier's counterexample]")
not_reproduced()
''' % (s, offs)
