"""Probe of a stated assumption (A-SEM: unbounded call stack), for C05 / C06 / C07.

The contracts of the parser are proved under Python semantics with an unbounded call stack; the real interpreter has a
recursion limit, and the recursive-descent parser uses about seven frames per nesting level.  The three properties
quantify over every string, so a deeply nested input is in their domain.  Nothing deductive can be said about it (stack
depth is not part of the modelled semantics); instead the assumption is probed on the real code with one concrete family
of inputs, and what the probe shows is reported like any other refuted obligation (backend 'cpython'; a bounded probe,
never counted as proved when it passes)."""
import json
import os
import subprocess
import sys

from pyvc.contracts import LemmaUnit
from pyvc.smt import EngineError
from pyvc.replay import PRELUDE

DEPTHS = (50, 400)

SCRIPT = r'''
import json, sys
from pylatexenc.latexwalker import LatexWalker, LatexWalkerParseError
from pylatexenc.latexnodes.parsers import LatexGeneralNodesParser
from pylatexenc.latex2text import LatexNodes2Text

def run(what, n):
    s = "{" * n + "x" + "}" * n
    try:
        if what == "strict":
            LatexWalker(s, tolerant_parsing=False).parse_content(LatexGeneralNodesParser())
        elif what == "tolerant":
            LatexWalker(s, tolerant_parsing=True).parse_content(LatexGeneralNodesParser())
        else:
            LatexNodes2Text().latex_to_text(s)
        return None
    except LatexWalkerParseError as e:
        return None if what == "strict" else "%s: %s" % (type(e).__name__, str(e)[:80])
    except BaseException as e:
        return "%s: %s" % (type(e).__name__, str(e)[:80])
'''

WHAT = {'C05': 'strict', 'C06': 'tolerant', 'C07': 'text'}
TEXT = {'C05': 'strict parsing of %d nested groups ("{"*n + "x" + "}"*n) returns a tree or raises LatexWalkerParseError',
        'C06': 'tolerant parsing of %d nested groups ("{"*n + "x" + "}"*n) raises no exception',
        'C07': 'latex_to_text of %d nested groups ("{"*n + "x" + "}"*n) raises no exception'}


def register(reg):
    import contracts
    out = {}
    for pid in ('C05', 'C06', 'C07'):
        def lemma(it, pid=pid):
            env = dict(os.environ)
            env['PYTHONPATH'] = it.program.root + os.pathsep + env.get('PYTHONPATH', '')
            code = SCRIPT + 'print(json.dumps({str(n): run(%r, n) for n in %r}))\n' % (WHAT[pid], DEPTHS)
            try:
                p = subprocess.run([sys.executable, '-c', code], capture_output=True, text=True, timeout=300, env=env)
                res = json.loads(p.stdout)
            except Exception as e:
                raise EngineError('the deep-nesting probe could not be run: %r' % (e,))
            for n in DEPTHS:
                it.ctx.prove('assumption-probe[unbounded call stack]:' + TEXT[pid] % n, res[str(n)] is None, 'probe',
                             src='real code, recursion limit %d: %s' % (sys.getrecursionlimit(), res[str(n)]))
        name = 'assumption-probe:deep-nesting'
        out[pid] = {name: LemmaUnit(name, lemma, functions=['pylatexenc.latexwalker._walker.LatexWalker.parse_content'])}
    contracts.REPLAYERS['assumption-probe:deep-nesting'] = None
    return out


def replay_for(pid):
    def replay(o, model):
        import re
        m = re.search(r'of (\d+) nested groups', o['name'])
        n = int(m.group(1)) if m else DEPTHS[-1]
        return PRELUDE + SCRIPT + '''
r = run(%r, %d)
if r: reproduced(%r + ": " + r, witness_class="call-stack-exhausted-by-deep-nesting")
not_reproduced()
''' % (WHAT[pid], n, 'input "{"*%d + "x" + "}"*%d' % (n, n))
    return replay
