"""Sidecar contracts for pylatexenc (nothing under /repo is edited).

Each module defines  register(reg) -> {property_id: {unit_name: unit}}.
"""
import importlib

MODULES = ['util', 'inputfile', 'contextdb', 'tokenizer', 'collector', 'walker', 'visitor', 'parsingstate', 'encoder', 'enctables', 'parsers', 'latex2text', 'mathmode', 'delimited', 'structure', 'legacy', 'purity', 'nodesplit', 'resources']
REPLAYERS = {}
EXTRA_ASSUMPTIONS = {}
# properties stated for strict parsing only: decided on the strict paths of the (shared) units
STRICT_ONLY = ('C05',)
# evidence level per property when it is not 'proof' (bounded stand-ins are never counted as proved)
LEVELS = {'C18': 'exploration'}


def make_replay(pid, o, model):
    from contracts import native_parse, native_l2t
    if o.get('unit') == 'assumption-probe:deep-nesting' and o.get('kind') == 'probe':
        from contracts import resources
        return resources.replay_for(pid)(o, model)
    fn = {'C05': native_parse.replay_c05, 'C06': native_parse.replay_c06}.get(pid)
    if fn is None and pid in ('C03', 'C07', 'C12'):
        fn = native_l2t.replay_for(pid)
    if fn is None and pid == 'C02':
        from contracts import native_structure
        fn = native_structure.replay
    if fn is None and pid == 'C16':
        from contracts import legacy
        fn = legacy.replay
    if fn is None and pid == 'C09':
        from contracts import purity
        fn = purity.replay
    if fn is None and pid == 'C18':
        from contracts import nodesplit
        fn = nodesplit.replay
    if fn is None and pid == 'C10':
        from contracts import mathmode
        fn = mathmode.replay
    fn = fn or REPLAYERS.get(o.get('unit'))
    if fn is None:
        return None
    return fn(o, model)



def build(reg, only=None):
    units = {}
    for m in MODULES:
        if only and m not in only:
            continue
        mod = importlib.import_module('contracts.' + m)
        for pid, us in mod.register(reg).items():
            units.setdefault(pid, {}).update(us)
    # the tokenizer (C11) relies on LatexContextDb.test_for_specials / get_specials_spec: their units also
    # belong to C11, so that a change breaking them is reported there as well
    if 'C11' in units and 'C14' in units:
        for k in ('test_for_specials', 'get_specials_spec'):
            if k in units['C14']:
                units['C11'][k] = units['C14'][k]
    # C01: the call parsers and the optional one-character marker are verified against the parser interface contract in C02
    if 'C01' in units and 'C02' in units:
        for k in ('_LatexCallableParserBase.parse', 'LatexOptionalCharsMarkerParser._parse_single[one-character marker]',
                  'LatexOptionalCharsMarkerParser.parse[one-character marker]'):
            if k in units['C02']:
                units['C01'].setdefault(k, units['C02'][k])
    # the node tree's tiling (C01) rests on the tokenizer contracts of C11
    if 'C01' in units and 'C11' in units:
        for k, u in units['C11'].items():
            units['C01'].setdefault(k, u)
    # C05 / C06 rest on the same collector / parser / tokenizer contracts as C01 and C11
    for pid in ('C05', 'C06'):
        if pid in units:
            for src in ('C01',):
                for k, u in units.get(src, {}).items():
                    units[pid].setdefault(k, u)
    if 'C06' in units and 'C11' in units:
        for k in ('impl_read_macro', 'impl_read_environment', 'impl_char_token', 'peek_token', 'next_token'):
            units['C06'].setdefault(k, units['C11'][k])
    # C10: the mode hand-over also rests on the tokenizer's delimiter choice (C11), on sub_context and the derived
    # expected-closing-delimiter table (C17) and on the collector creating nodes / parsing children in its state (C01)
    if 'C10' in units:
        for src, names in (('C11', ['impl_maybe_read_math_mode_delimiter']), ('C17', None), ('C01', ['process_one_token'])):
            for k, u in units.get(src, {}).items():
                if names is None or k in names:
                    units['C10'].setdefault(k, u)
    # C02: one parser per argument slot (unit of C10), token dispatch and construct spans (units of C01)
    if 'C02' in units:
        for src, names in (('C10', ['LatexArgumentsParser.parse']), ('C01', ['process_one_token', 'parse_content'])):
            for k, u in units.get(src, {}).items():
                if k in names:
                    units['C02'].setdefault(k, u)
    # C09: the lookups of the context database have modifies = [] (C14 units) and the parser cache behaves as a function of its key (C02)
    if 'C09' in units:
        for src, names in (('C14', ['get_macro_spec', 'get_environment_spec', 'get_specials_spec', 'test_for_specials', 'freeze', 'extended_with']),
                           ('C02', ['get_standard_argument_parser', 'get_arg_parser_instance'])):
            for k, u in units.get(src, {}).items():
                if k in names:
                    units['C09'].setdefault(k, u)
    # C05: "an added unmatched delimiter is rejected" rests on every construct accepting only its own closing token
    # (stop-token conditions: units of C02 and C10)
    if 'C05' in units:
        for src, names in (('C02', ['LatexDelimitedGroupParserInfo.stop_token_condition',
                                    'LatexEnvironmentBodyContentsParserInfo.stop_token_condition']),
                           ('C10', ['LatexMathParserInfo.stop_token_condition'])):
            for k, u in units.get(src, {}).items():
                if k in names:
                    units['C05'].setdefault(k, u)
    # C02 names the tokenizer's environment-name tokens and the $ / $$ choice among its mechanisms (units of C11)
    if 'C02' in units and 'C11' in units:
        for k in ('impl_read_environment', 'environment-name-pattern', 'impl_maybe_read_math_mode_delimiter'):
            if k in units['C11']:
                units['C02'].setdefault(k, units['C11'][k])
    # C17: a state may also be derived through a chain of deltas (unit of C10)
    if 'C17' in units and 'C10' in units:
        k = 'ParsingStateDeltaChained.get_updated_parsing_state'
        if k in units['C10']:
            units['C17'].setdefault(k, units['C10'][k])
    # C05 / C06 / C07: \verb and the verbatim environment are read by the legacy verbatim arguments parser (unit of C16): it stays
    # inside the string and raises located parse errors only
    for pid in ('C05', 'C06', 'C07'):
        if pid in units and 'C16' in units and 'VerbatimArgsParser.parse_args' in units['C16']:
            units[pid].setdefault('VerbatimArgsParser.parse_args', units['C16']['VerbatimArgsParser.parse_args'])
    # C13's ASCII / 'fail' statements are lemmas over C04's step contract and policy/protection contracts
    if 'C13' in units and 'C04' in units:
        for k, u in units['C04'].items():
            if k == 'unicode_to_latex' or k.startswith('_do_unknown_char_') or k.startswith('_apply_protection_') \
                    or k in ('_apply_replacement', '_apply_rule_dict', '_check_do_skip_ascii'):
                units['C13'][k] = u
    return units
