"""Sidecar contracts for pylatexenc (nothing under /repo is edited).

Each module defines  register(reg) -> {property_id: {unit_name: unit}}.
"""
import importlib

MODULES = ['util', 'inputfile', 'tokenizer', 'walker', 'visitor', 'contextdb', 'parsingstate', 'encoder']
REPLAYERS = {}
EXTRA_ASSUMPTIONS = {}


def make_replay(pid, o, model):
    fn = REPLAYERS.get(o.get('unit'))
    if fn is None:
        return None
    return fn(o, model)



def build(reg, only=None):
    units = {}
    for m in MODULES:
        if only and m not in only:
            continue
        mod = importlib.import_module('contracts.' + m)
        for pid, us in mod.register(reg).items():
            units.setdefault(pid, {}).update(us)
    # the tokenizer (C11) relies on LatexContextDb.test_for_specials / get_specials_spec: their units also
    # belong to C11, so that a change breaking them is reported there as well
    if 'C11' in units and 'C14' in units:
        for k in ('test_for_specials', 'get_specials_spec'):
            if k in units['C14']:
                units['C11'][k] = units['C14'][k]
    return units
