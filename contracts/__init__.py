"""Sidecar contracts for pylatexenc (nothing under /repo is edited).

Each module defines  register(reg) -> {property_id: {unit_name: unit}}.
"""
import importlib

MODULES = ['util', 'inputfile', 'tokenizer', 'walker', 'visitor']
REPLAYERS = {}
EXTRA_ASSUMPTIONS = {}


def make_replay(pid, o, model):
    fn = REPLAYERS.get(o.get('unit'))
    if fn is None:
        return None
    return fn(o, model)



def build(reg, only=None):
    units = {}
    for m in MODULES:
        if only and m not in only:
            continue
        mod = importlib.import_module('contracts.' + m)
        for pid, us in mod.register(reg).items():
            units.setdefault(pid, {}).update(us)
    return units
