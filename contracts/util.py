"""C20 -- pylatexenc/_util.py: LineNumbersCalculator (line-start table + bisect lookup)."""
import z3

from pyvc.contracts import (Contract, LoopContract, FunctionUnit, sym_int, sym_str, sym_intlist,
                            new_obj, make_value)
from pyvc.values import PyList
from pyvc.replay import PRELUDE, model_str, model_int

M = 'pylatexenc._util'
LNC = M + '.LineNumbersCalculator'
GEN = LNC + '.__init__.find_all_new_lines'

# The line-start table L of a string x (spec; from the property text: "start offset of
# that line"):  L[0] == 0, L strictly increasing, every later entry is one past a newline,
# and there is no other newline: none strictly between consecutive starts (except the one
# ending the line) and none after the last start.
LINES = [
    ('starts-with-0', 'len({L}) >= 1 and {L}[0] == 0'),
    ('strictly-increasing', 'forall(0, len({L}) - 1, lambda i: {L}[i] < {L}[i+1])'),
    ('entries-follow-newline',
     "forall(1, len({L}), lambda i: 1 <= {L}[i] and {L}[i] <= len({x}) and {x}[{L}[i]-1] == '\\n')"),
    ('no-newline-inside-a-line',
     "forall(0, len({L}) - 1, lambda i: forall({L}[i], {L}[i+1] - 1, lambda p: {x}[p] != '\\n'))"),
]
LAST = ('no-newline-after-last-start',
        "forall({L}[len({L})-1], len({x}), lambda p: {x}[p] != '\\n')")


def lines(L, x, last=True):
    cl = [(n, c.format(L=L, x=x)) for n, c in LINES]
    if last:
        cl.append((LAST[0], LAST[1].format(L=L, x=x)))
    return cl


def register(reg):
    units = {}

    # -- the nested generator find_all_new_lines(x) ------------------------------------
    def setup_gen(it):
        return {'x': sym_str(it, 'x')}

    c_gen = reg.add(Contract(
        GEN, setup=setup_gen,
        requires=[],
        result_type='intlist',
        ensures=lines('result', 'x'),
        replay='util_lines',
    ))
    reg.add_loop(LoopContract(
        GEN, 0,
        invariant=[('k-in-range', '0 <= k and k <= len(x)'),
                   ('last-yield-is-k', '__yield__[len(__yield__)-1] == k')] + lines('__yield__', 'x', last=False),
        variant='len(x) - k',
        havoc_fields=['__yield__'],
    ))
    units['find_all_new_lines'] = FunctionUnit(c_gen)

    # -- LineNumbersCalculator.__init__ ---------------------------------------------------
    def setup_init(it):
        self = new_obj(it, LNC, {}, tag='self')
        return {'self': self, 's': sym_str(it, 's'),
                'line_number_offset': sym_int(it, 'line_number_offset'),
                'first_line_column_offset': sym_int(it, 'first_line_column_offset'),
                'column_offset': sym_int(it, 'column_offset')}

    c_init = reg.add(Contract(
        LNC + '.__init__', setup=setup_init,
        ensures=[('offsets-stored',
                  'self.line_number_offset == line_number_offset and '
                  'self.first_line_column_offset == first_line_column_offset and '
                  'self.column_offset == column_offset')] + lines('self._pos_new_lines', 's'),
        modifies=[('self.line_number_offset', 'int'), ('self.first_line_column_offset', 'int'),
                  ('self.column_offset', 'int'), ('self._pos_new_lines', 'intlist')],
        replay='util_lines',
    ))
    units['LineNumbersCalculator.__init__'] = FunctionUnit(c_init)

    # -- pos_to_lineno_colno ------------------------------------------------------------------
    def setup_p2l(it):
        L = sym_intlist(it, 'starts')
        it.ctx.register_input('starts.n', 'int', L.length)
        for j in range(6):
            it.ctx.register_input('starts[%d]' % j, 'int', L.arr[j])
        self = new_obj(it, LNC, {
            'line_number_offset': sym_int(it, 'line_number_offset'),
            'first_line_column_offset': sym_int(it, 'first_line_column_offset'),
            'column_offset': sym_int(it, 'column_offset'),
            '_pos_new_lines': L}, tag='self')
        as_dict = bool(it.ctx.choose(2, 'as_dict'))
        if it.ctx.choose(2, 'pos is None') == 1:
            pos = None
        else:
            pos = sym_int(it, 'pos')
        return {'self': self, 'pos': pos, 'as_dict': as_dict}

    LN = "(result['lineno'] if as_dict else result[0])"
    CN = "(result['colno'] if as_dict else result[1])"
    I = '(%s - self.line_number_offset)' % LN
    COL = '(%s - (self.first_line_column_offset if %s == 0 else self.column_offset))' % (CN, I)
    def make_p2l_result(it, env):
        v = env.vars
        if v['pos'] is None:
            ln, cn = None, None
        else:
            ln, cn = it.ctx.fresh_int('lineno'), it.ctx.fresh_int('colno')
        if it.ctx.branch(it.truth_term(v['as_dict'])):
            from pyvc.values import PyDict
            return PyDict({'lineno': ln, 'colno': cn})
        return (ln, cn)

    c_p2l = reg.add(Contract(
        LNC + '.pos_to_lineno_colno', setup=setup_p2l, result_make=make_p2l_result,
        requires=[('table-invariant', 'len(self._pos_new_lines) >= 1 and self._pos_new_lines[0] == 0'),
                  ('table-increasing',
                   'forall(0, len(self._pos_new_lines) - 1, lambda i: self._pos_new_lines[i] < self._pos_new_lines[i+1])'),
                  ('pos-nonnegative', 'pos is None or pos >= 0')],
        ensures=[
            ('none-maps-to-none', 'implies(pos is None, %s is None and %s is None)' % (LN, CN)),
            ('line-index-in-table', 'implies(pos is not None, 0 <= %s and %s < len(self._pos_new_lines))' % (I, I)),
            ('pos-is-line-start-plus-column',
             'implies(pos is not None, self._pos_new_lines[%s] + %s == pos and %s >= 0)' % (I, COL, COL)),
            ('pos-before-next-line-start',
             'implies(pos is not None, %s == len(self._pos_new_lines) - 1 or pos < self._pos_new_lines[%s + 1])' % (I, I)),
        ],
        modifies=[],
        replay='util_p2l',
    ))
    units['LineNumbersCalculator.pos_to_lineno_colno'] = FunctionUnit(c_p2l)

    import contracts
    contracts.REPLAYERS['find_all_new_lines'] = replay_lines
    contracts.REPLAYERS['LineNumbersCalculator.__init__'] = replay_lines
    contracts.REPLAYERS['LineNumbersCalculator.pos_to_lineno_colno'] = replay_p2l
    return {'C20': units}


NATIVE = PRELUDE + '''
from pylatexenc._util import LineNumbersCalculator
def true_starts(s):
    return [0] + [i + 1 for i, c in enumerate(s) if c == "\\n"]
def check_table(s):
    got = LineNumbersCalculator(s)._pos_new_lines
    if list(got) != true_starts(s):
        return "line-start table of %r is %r, expected %r" % (s, list(got), true_starts(s))
def check_pos(s, pos, lo=1, fo=0, co=0, starts=None):
    c = LineNumbersCalculator(s, line_number_offset=lo, first_line_column_offset=fo, column_offset=co)
    if starts is not None:
        c._pos_new_lines = list(starts)
    st = list(c._pos_new_lines)
    try:
        ln, col = c.pos_to_lineno_colno(pos)
        d = c.pos_to_lineno_colno(pos, as_dict=True)
    except Exception as e:
        return "pos_to_lineno_colno(%r) on %r raised %r" % (pos, s, e)
    if d != {"lineno": ln, "colno": col}:
        return "as_dict result %r differs from tuple %r" % (d, (ln, col))
    i = ln - lo
    if not (0 <= i < len(st)):
        return "line index %d out of table for pos %d in %r" % (i, pos, s)
    c0 = col - (fo if i == 0 else co)
    if st[i] + c0 != pos or c0 < 0:
        return "pos %d in %r reported as line %d col %d but line start %d + col %d != pos" % (pos, s, ln, col, st[i], c0)
    if i + 1 < len(st) and not pos < st[i + 1]:
        return "pos %d in %r reported on line index %d but next line starts at %d" % (pos, s, i, st[i + 1])
'''


def replay_lines(o, model):
    s = model_str(model, 'x') or model_str(model, 's')
    return NATIVE + '''
s = %r
m = check_table(s)
if m: reproduced(m)
for t in strings("a\\n\\r ", 6):      # small search around the verifier's input
    m = check_table(t)
    if m: reproduced(m + "  [found by the replay's bounded search, not the verifier's input]")
not_reproduced()
''' % (s,)


def replay_p2l(o, model):
    n = model_int(model, 'starts.n', 1)
    starts = [model_int(model, 'starts[%d]' % j) for j in range(max(0, min(n, 6)))]
    return NATIVE + '''
starts = %r; pos = %r; lo, fo, co = %r, %r, %r
if pos is not None:
    m = check_pos("", pos, lo, fo, co, starts=starts)
    if m: reproduced(m + "  [table %%r injected as in the verifier's counterexample]" %% (starts,))
for t in strings("a\\n\\r ", 5):
    for p in range(len(t) + 1):
        for offs in ((1, 0, 0), (5, 3, 2)):
            m = check_pos(t, p, *offs)
            if m: reproduced(m + "  [found by the replay's bounded search]")
not_reproduced()
''' % (starts, model.get('pos'), model_int(model, 'line_number_offset', 1),
       model_int(model, 'first_line_column_offset'), model_int(model, 'column_offset'))
