"""Native replay oracle for the latex2text properties (C03, C07, C12).

The replay script runs on the real code (PYTHONPATH = the tree under check).  It first rebuilds the verifier's
counterexample where the failed obligation belongs to a renderer (strings and option values of the model are fed
into the unit-level search), then runs a bounded search: the rule tables on natively constructed nodes, every
macro / environment name of the default databases in every argument position, marker documents for the content
filters, and the documented whitespace rules on the core sublanguage.  The search is a bounded stand-in used to
exhibit a failing input; it never counts as proof."""
import json

from pyvc.replay import PRELUDE

NATIVE = PRELUDE + r'''
import signal, logging, re, traceback
logging.disable(logging.CRITICAL)
import warnings; warnings.simplefilter("ignore")
from pylatexenc.latex2text import (LatexNodes2Text, MacroTextSpec, EnvironmentTextSpec, SpecialsTextSpec,
                                   get_default_latex_context_db)
from pylatexenc import latexwalker
from pylatexenc.latexnodes import nodes as N
from pylatexenc.latexnodes import ParsedArguments
def _alarm(*a): raise TimeoutError("latex_to_text did not return within 20s")
signal.signal(signal.SIGALRM, _alarm)

MODES = ("text", "with-delimiters", "verbatim", "remove")
POLICIES = ("macros", "based-on-source", "except-in-equations", True)
OPTS = [dict(math_mode=mm, keep_comments=kc, strict_latex_spaces=sls, keep_braced_groups=kb)
        for mm in MODES for kc in (False, True) for sls in POLICIES for kb in (False, True)]
OPTS += [dict(fill_text=True), dict(fill_text=30, math_mode="with-delimiters"), dict(strict_latex_spaces="default"),
         dict(strict_latex_spaces="on"), dict(strict_latex_spaces="off"), dict(strict_latex_spaces=None),
         dict(strict_latex_spaces={"after-comment": True, "in-equations": False})]

def run(s, **o):
    signal.alarm(20)
    try:
        return LatexNodes2Text(**o).latex_to_text(s)
    finally:
        signal.alarm(0)

def where(e):
    tb = traceback.extract_tb(e.__traceback__)
    return "%s:%d in %s" % (tb[-1].filename.split("pylatexenc/")[-1], tb[-1].lineno, tb[-1].name)

# ---------------------------------------------------------------- C07: totality
def total(doc, o):
    try:
        out = run(doc, **o)
    except Exception as e:
        return "latex_to_text(%r, **%r) raised %s: %s  [%s]" % (doc, o, type(e).__name__, e, where(e))
    if not isinstance(out, str):
        return "latex_to_text(%r, **%r) returned %r, not a string" % (doc, o, out)
    return None

def all_names():
    t, w = get_default_latex_context_db(), latexwalker.get_default_latex_context_db()
    macros, envs = set(), set()
    for db in (t, w):
        for cat in db.categories():
            macros.update(m.macroname for m in db.iter_macro_specs([cat]))
            envs.update(e.environmentname for e in db.iter_environment_specs([cat]))
    return sorted(macros), sorted(envs)

MACRO_TEMPLATES = [r"\textbf\%s", r"\%s", r"\%s{a}{b}{c}{d}{e}{f}", r"\%s[x]{a}", r"\%s*{}{}", r"x^\%s",
                   r"\%s{}{}{}{}{}{}", r"\%s[]{}{}{}{}", r"\%s{", r"\%s[", "\\%s % c\n{a}", r"$\%s$", r"\%s\%s"]
ENV_TEMPLATES = [r"\begin{%s}\end{%s}", r"\begin{%s}a&b\\c\end{%s}", r"\begin{%s}{c}{d}x\end{%s}", r"\begin{%s}[o]\end{%s}",
                 r"\begin{%s}", r"\begin{%s}&\end{%s}", r"\begin{%s}\\\end{%s}", "\\begin{%s}\n\n\\end{%s}"]

def scan_totality(quick=False):
    macros, envs = all_names()
    for name in macros:
        for t in (MACRO_TEMPLATES[:4] if quick else MACRO_TEMPLATES):
            m = total(t.replace("%s", name), {})
            if m: return m
    for name in envs:
        for t in ENV_TEMPLATES:
            m = total(t.replace("%s", name), {})
            if m: return m
            if not quick:
                for mm in MODES[1:]:
                    m = total(t.replace("%s", name), dict(math_mode=mm))
                    if m: return m
    for doc in DOCS + [r"\verb", r"a\verb  ", r"\verb{", r"\verb|x", r"\item[", "\\", "$", "$$", "{", "}", r"\begin{x}", r"\end{x}",
                       r"\(", r"\[", "%", "~", "``", "&", "#", "^", "_", r"\textbf{\textit{", r"\href{a}{b}", r"\input{f}",
                       r"\begin{verbatim}x", r"\[ \begin{array}{c}\end{array}"]:
        for o in OPTS:
            m = total(doc, o)
            if m: return m
    # a SpecialsTextSpec as its documented constructor leaves it
    db = get_default_latex_context_db()
    db.add_context_category("replay", prepend=True, specials=[SpecialsTextSpec("~"), SpecialsTextSpec("&", "")],
                            macros=[MacroTextSpec("emph"), MacroTextSpec("textbf", "%(9)s"), MacroTextSpec("textit", "%d")],
                            environments=[EnvironmentTextSpec("center"), EnvironmentTextSpec("quote", "%s %s")])
    for doc in ("a~b & c", r"\emph{x}\textbf{y}\textit{z}", r"\begin{center}x\end{center}\begin{quote}q\end{quote}"):
        try:
            out = LatexNodes2Text(latex_context=db).latex_to_text(doc)
            if not isinstance(out, str): return "custom context: %r returned %r" % (doc, out)
        except Exception as e:
            return "latex_to_text(%r) with text specs built by their documented constructors raised %s: %s [%s]" % (
                doc, type(e).__name__, e, where(e))
    return None

# ---------------------------------------------------------------- unit level: rule tables on constructed nodes
class Ctx(object):
    def __init__(self, m=None, e=None, s=None): self.m, self.e, self.s = m, e, s
    def get_macro_spec(self, name): return self.m
    def get_environment_spec(self, name): return self.e
    def get_specials_spec(self, name): return self.s

def chars(t): return N.LatexCharsNode(chars=t, pos=None, pos_end=None, parsing_state=None, latex_walker=None)
def group(t): return N.LatexGroupNode(nodelist=N.LatexNodeList([chars(t)]), delimiters=("{", "}"), pos=None, pos_end=None,
                                      parsing_state=None, latex_walker=None)
def pargs(lst): return ParsedArguments(argnlist=lst, arguments_spec_list=["{"] * len(lst))

def unit_rules(strings):
    """the renderer rule tables, natively, on small constructed nodes"""
    S = ["", " ", "x", "a b", "\n", " \n "] + [s for s in strings if isinstance(s, str)][:6]
    for kc in (False, True):
        for ac in (False, True):
            l = LatexNodes2Text(keep_comments=kc, strict_latex_spaces={"after-comment": ac})
            for c in S:
                for ps in ("", "\n", "\n  ", " "):
                    n = N.LatexCommentNode(comment=c, comment_post_space=ps, pos=None, pos_end=None, parsing_state=None, latex_walker=None)
                    want = (("%" + c + (("\n" if ps != "" else "") if ac else ps)) if kc else ("" if ac else ps))
                    got = l.comment_node_to_text(n)
                    if got != want:
                        return "comment_node_to_text(comment=%r, post_space=%r) with keep_comments=%r, after-comment=%r gives %r, the rule gives %r" % (c, ps, kc, ac, got, want)
    for blc in (False, True):
        l = LatexNodes2Text(strict_latex_spaces={"between-latex-constructs": blc})
        for c in S:
            want = c if (blc or c.strip() != "") else ""
            got = l.chars_node_to_text(chars(c))
            if got != want:
                return "chars_node_to_text(%r) with between-latex-constructs=%r gives %r, the rule gives %r" % (c, blc, got, want)
    for kb in (False, True):
        for ml in (0, 2, 5):
            l = LatexNodes2Text(keep_braced_groups=kb, keep_braced_groups_minlen=ml)
            for c in S:
                inner = l.nodelist_to_text([chars(c)])
                want = ("{" + inner + "}") if (kb and len(inner) >= ml) else inner
                got = l.group_node_to_text(group(c))
                if got != want:
                    return "group_node_to_text({%s}) with keep_braced_groups=%r minlen=%d gives %r, the rule gives %r" % (c, kb, ml, got, want)
    # macro / environment / specials: unknown, discard, replacement string, callable, arguments
    l = LatexNodes2Text()
    for nd in (None, pargs([]), pargs([group("A")]), pargs([None, group("B")]), pargs([group("A"), group("B")])):
        args_text = "" if nd is None else "".join("" if a is None else a.nodelist[0].chars for a in nd.argnlist)
        mk = lambda: N.LatexMacroNode(macroname="m", nodeargd=nd, macro_post_space="", spec=None, pos=None, pos_end=None, parsing_state=None, latex_walker=None)
        cases = [(None, ""), (MacroTextSpec("m"), ""), (MacroTextSpec("m", discard=False), args_text), (MacroTextSpec("m", "R"), "R"),
                 (MacroTextSpec("m", "%"), "%"), (MacroTextSpec("m", lambda n: None), ""), (MacroTextSpec("m", lambda n, l2tobj: "C"), "C"),
                 (MacroTextSpec("m", lambda n, macroname: macroname), "m"), (MacroTextSpec("m", "", discard=False), args_text)]
        for sp, want in cases:
            l.latex_context = Ctx(m=sp)
            try:
                got = l.macro_node_to_text(mk())
            except Exception as e:
                return "macro_node_to_text raised %s: %s for spec %r, arguments %r [%s]" % (type(e).__name__, e, sp and sp.simplify_repl, nd, where(e))
            if got != want:
                return "macro_node_to_text gives %r, the rule gives %r (spec replacement %r, discard %r, arguments %r)" % (
                    got, want, sp and sp.simplify_repl, sp and sp.discard, nd)
        mks = lambda: N.LatexSpecialsNode(specials_chars="~", nodeargd=nd, spec=None, pos=None, pos_end=None, parsing_state=None, latex_walker=None)
        for sp, want in [(None, "~"), (SpecialsTextSpec("~"), args_text), (SpecialsTextSpec("~", " "), " "), (SpecialsTextSpec("~", ""), args_text),
                         (SpecialsTextSpec("~", lambda n, specials_chars: specials_chars * 2), "~~")]:
            l.latex_context = Ctx(s=sp)
            try:
                got = l.specials_node_to_text(mks())
            except Exception as e:
                return "specials_node_to_text raised %s: %s for a SpecialsTextSpec with replacement %r, arguments %r [%s]" % (
                    type(e).__name__, e, sp and sp.simplify_repl, nd, where(e))
            if got != want:
                return "specials_node_to_text gives %r, the rule gives %r (replacement %r)" % (got, want, sp and sp.simplify_repl)
        for body in (None, N.LatexNodeList([chars("BODY")])):
            mke = lambda: N.LatexEnvironmentNode(environmentname="e", nodeargd=nd, nodelist=body, spec=None, pos=None, pos_end=None, parsing_state=None, latex_walker=None)
            bt = "" if body is None else "BODY"
            for sp, want in [(None, bt), (EnvironmentTextSpec("e"), bt), (EnvironmentTextSpec("e", discard=True), ""), (EnvironmentTextSpec("e", "R"), "R"),
                             (EnvironmentTextSpec("e", "<%s>"), "<" + bt + ">"), (EnvironmentTextSpec("e", lambda n, environmentname: environmentname), "e")]:
                l.latex_context = Ctx(e=sp)
                try:
                    got = l.environment_node_to_text(mke())
                except Exception as e:
                    return "environment_node_to_text raised %s: %s for replacement %r [%s]" % (type(e).__name__, e, sp and sp.simplify_repl, where(e))
                if got != want:
                    return "environment_node_to_text gives %r, the rule gives %r (replacement %r, discard %r)" % (got, want, sp and sp.simplify_repl, sp and sp.discard)
        try:
            b = LatexNodes2Text()._is_bare_macro_node(mk())
        except Exception as e:
            return "_is_bare_macro_node raised %s: %s for a macro node with arguments object %r [%s]" % (type(e).__name__, e, nd, where(e))
        if b != (nd is None or len(nd.argnlist) == 0):
            return "_is_bare_macro_node gives %r for a macro node with arguments %r" % (b, nd)
    l = LatexNodes2Text()
    for argspec, lst, want in (("[", [None], True), ("[", [group("o")], False), ("{", [group("a")], False), ("", [], True),
                               ("*[{", [None, None, group("a")], False), ("[{", [None, group("a")], False)):
        n = N.LatexMacroNode(macroname="m", nodeargd=ParsedArguments(argnlist=lst, argspec=argspec), macro_post_space=" ",
                             spec=None, pos=None, pos_end=None, parsing_state=None, latex_walker=None)
        if l._is_bare_macro_node(n) != want:
            return "_is_bare_macro_node gives %r for a macro with argument signature %r and arguments %r" % (not want, argspec, lst)
    for c in ("a", "a\nb", "a\n\nb\n"):
        for ind in ("", "    "):
            want = "\n" + ind + c.replace("\n", "\n" + ind) + "\n"
            if l._fmt_indented_block(c, indent=ind) != want:
                return "_fmt_indented_block(%r, indent=%r) gives %r, every line should be indented: %r" % (c, ind, l._fmt_indented_block(c, indent=ind), want)
    for v in (None, False, True, "on", "off", "default", "based-on-source", "macros", "except-in-equations", {"after-comment": True}):
        try:
            d = LatexNodes2Text(strict_latex_spaces=v).strict_latex_spaces
        except Exception as e:
            return "LatexNodes2Text(strict_latex_spaces=%r) raised %s: %s" % (v, type(e).__name__, e)
        want = {None: (False, False, False, None), True: (True, True, True, True), "on": (True, True, True, True),
                "based-on-source": (False, False, False, None), "default": (False, False, False, None),
                "except-in-equations": (True, True, True, "based-on-source")}.get(v if not isinstance(v, dict) else "d",
                                                                                   (True, True, False, "based-on-source"))
        if isinstance(v, dict): want = (False, False, True, None)
        got = tuple(d.get(k) for k in ("between-macro-and-chars", "between-latex-constructs", "after-comment", "in-equations"))
        if got != want or len(d) != 4:
            return "strict_latex_spaces=%r is parsed to %r, the documented preset is %r" % (v, d, want)
    return None

# ---------------------------------------------------------------- C12: content filters
DOCS = [r"a % CMT1" "\n" r" b", "x % CMTEOF", "p % CMTPAR\n\n q", r"\textbf{a} $F1 + x$ \[ F2 \] \begin{equation} F3 \end{equation}",
        "\\begin{align*}\n F4 &= 1\\\\\n F5 &= 2\n\\end{align*}", r"\hspace{3cm}x \label{LBL} \emph{y} \textfrac{1}{2} \textbf\'e \hat\vec x",
        r"\begin{gather*} G1 \end{gather*} \( G2 \)", r"\begin{flalign} H1 \end{flalign} \begin{alignat}{2} H2 \end{alignat} $\begin{split} H3 \end{split}$",
        "\\emph{u % CMTARG\n v} \\begin{itemize}\\item % CMTITEM\n w\\end{itemize} $x % CMTMATH\n y$",
        "z \\begin{pmatrix} a & b % CMTMX\n \\\\ c & d \\end{pmatrix} \\begin{array}{c} % CMTARR\n e \\end{array}"]
FORMULAS = [(r"$F1 + x$", "F1"), (r"\[ F2 \]", "F2"), (r"\begin{equation} F3 \end{equation}", "F3"),
            ("\\begin{align*}\n F4 &= 1\\\\\n F5 &= 2\n\\end{align*}", "F4"), (r"\begin{gather*} G1 \end{gather*}", "G1"), (r"\( G2 \)", "G2"),
            (r"\begin{flalign} H1 \end{flalign}", "H1"), (r"\begin{alignat}{2} H2 \end{alignat}", "H2")]

def filters():
    for d in DOCS:
        for o in OPTS:
            m = total(d, o)
            if m: return m
            out = run(d, **o)
            kc, mm = o.get("keep_comments", False), o.get("math_mode", "text")
            for c in re.findall(r"CMT[A-Z0-9]+", d):
                if c == "CMTMATH" and mm in ("remove", "verbatim"):
                    continue
                if (c in out) != kc:
                    return "comment %s %s in the output of %r with %r: %r" % (c, "missing" if kc else "present", d, o, out)
            for src, f in FORMULAS:
                if src not in d: continue
                if mm == "remove" and f in out:
                    return "formula content %s appears with math_mode='remove' for %r (%r): %r" % (f, d, o, out)
                if mm == "verbatim" and "fill_text" not in o and src not in out:
                    return "formula source %r does not appear unchanged with math_mode='verbatim' (%r): %r" % (src, o, out)
                if mm == "with-delimiters":
                    a, b = (src[:2], src[-2:]) if src[0] == "\\" and src[1] in "([" else (("$", "$") if src[0] == "$" else
                                                                                          (src[:src.index("}") + 1], src[src.rindex("\\end"):]))
                    if not (a in out and b in out and out.index(a) < out.index(f) < out.rindex(b)):
                        return "formula %s lost its delimiters %r...%r with math_mode='with-delimiters' (%r): %r" % (f, a, b, o, out)
            for w in ("3cm", "LBL"):
                if w in d and w in out and mm != "verbatim":
                    return "discarded construct content %r appears in the output of %r (%r): %r" % (w, d, o, out)
    return None

# ---------------------------------------------------------------- C03: documented rules on the core sublanguage
RULES = [
    (r"Sk\l odowska", dict(), "Skłodowska"), (r"Sk\l odowska", dict(strict_latex_spaces="based-on-source"), "Skł odowska"),
    (r"Sk\l odowska", dict(strict_latex_spaces=True), "Skłodowska"), (r"Sk\l{} odowska", dict(strict_latex_spaces=True), "Skł odowska"),
    (r"\textbf{a} \emph{b}", dict(), "a b"), (r"{a}{b} c", dict(), "ab c"), (r"{a}{b} c", dict(keep_braced_groups=True, keep_braced_groups_minlen=0), "{a}{b} c"),
    (r"\'e\`a\^o\"u\c{c}", dict(), "éàôüç"), (r"a~b --- c -- d ``q''", dict(), "a\u00a0b — c – d “q”"),
    ("a % c\n b", dict(), "a \n b"), ("a % c\n b", dict(strict_latex_spaces=True), "a b"), ("a % c\n b", dict(keep_comments=True), "a % c\n b"),
    ("a\n\nb", dict(), "a\n\nb"), (r"$a+b$", dict(), "a+b"), (r"x \[ a \] y", dict(), "x \n    a\n y"), (r"$ a $", dict(math_mode="with-delimiters"), "$a$"),
    (r"\frac{1}{2} \sqrt{x}", dict(), "1/2 √(x)"), (r"\begin{unknownenv}a\end{unknownenv}", dict(), "a"), (r"\unknownmacro{a}b", dict(), "ab"),
    (r"\begin{itemize}\item a \item b\end{itemize}", dict(strict_latex_spaces="based-on-source"), "\n  *  a \n  *  b"),
    ("\\[\n  a + b\n  = c\n\\]", dict(), "\n    a + b\n      = c\n"), ("$$x\ny\nz$$", dict(), "\n    x\n    y\n    z\n"),
    (r"\frac{ab}{cd}", dict(keep_braced_groups=True), "ab/cd"), (r"\overline{ab} c", dict(keep_braced_groups=True), "ab c"),
    (r"\alpha\beta x", dict(), "αβx"), (r"\alpha \beta x", dict(), "αβx"), (r"\alpha \beta x", dict(strict_latex_spaces="based-on-source"), "αβ x"),
]

def rules():
    for doc, o, want in RULES:
        m = total(doc, o)
        if m: return m
        got = run(doc, tolerant_parsing=False, **o) if False else LatexNodes2Text(**o).latex_to_text(doc, tolerant_parsing=False)
        if got != want:
            return "latex_to_text(%r, **%r) gives %r, the documented rules give %r" % (doc, o, got, want)
    # compositionality: two self-contained blocks joined by a paragraph break or a space
    # (blocks that begin and end with plain text: a separator next to a construct is a whitespace-only chars node,
    # which the documented rule drops unless 'between-latex-constructs' is strict)
    blocks = [r"a \textbf{b} c", r"d", r"e $x$ f", r"g {h} i", r"j \emph{k}.", r"l ``m'' n", r"o~p", "q % c\n r"]
    for o in (dict(), dict(strict_latex_spaces=True), dict(strict_latex_spaces="based-on-source"), dict(math_mode="verbatim")):
        l = LatexNodes2Text(**o)
        for a in blocks:
            for b in blocks:
                for sep in ("\n\n", " "):
                    whole, parts = l.latex_to_text(a + sep + b), l.latex_to_text(a) + sep + l.latex_to_text(b)
                    if whole != parts:
                        return "latex_to_text(%r) = %r differs from the joined conversions %r (%r)" % (a + sep + b, whole, parts, o)
    return None
'''


COMMENT_BEFORE_ARG = r"""
def comment_before_argument():
    # a comment between a macro and its argument is read by the expression parser on the way to the argument;
    # the argument slot keeps only the argument node
    for doc in ("\\textbf % CMTX\n{a} b", "\\frac{1}% CMTX\n{2}", "\\section% CMTX\n{T}"):
        out = LatexNodes2Text(keep_comments=True).latex_to_text(doc)
        if "CMTX" not in out:
            return "keep_comments=True: the comment of %r is missing from the output %r" % (doc, out)
    return None
"""


COMMENT_IN_UNRENDERED_ARG = r"""
def comment_in_unrendered_argument():
    # a comment inside an argument that the macro's replacement text does not use (the short title of \\section, the index of \\sqrt)
    for doc in ("\\section[o % CMTX\n]{t}", "\\sqrt[3 % CMTX\n]{2}"):
        out = LatexNodes2Text(keep_comments=True).latex_to_text(doc)
        if "CMTX" not in out:
            return "keep_comments=True: the comment of %r is missing from the output %r" % (doc, out)
    return None
"""


def _strings(model):
    out = []
    for k, v in sorted(model.items()):
        if isinstance(v, dict) and 'text' in v:
            out.append(v['text'])
    return out


def replay_for(pid):
    order = {'C07': ['unit_rules(STR)', 'scan_totality()', 'filters()', 'rules()'],
             'C12': ['filters()', 'unit_rules(STR)', 'rules()', 'scan_totality(quick=True)'],
             'C03': ['rules()', 'unit_rules(STR)', 'filters()', 'scan_totality(quick=True)']}[pid]

    def replay(o, model):
        body = 'STR = %s\n' % json.dumps(_strings(model))
        if o.get('unit') == 'LatexExpressionParser.parse' or 'LatexExpressionParser.parse:' in o.get('name', ''):
            return (NATIVE + COMMENT_BEFORE_ARG + 'm = comment_before_argument()\n'
                    'if m: reproduced(m, "comment-between-a-macro-and-its-argument")\nnot_reproduced()\n')
        if 'a-replacement-string-renders-every-argument' in o.get('name', ''):
            return (NATIVE + COMMENT_IN_UNRENDERED_ARG + 'm = comment_in_unrendered_argument()\n'
                    'if m: reproduced(m, "comment-inside-an-argument-the-replacement-does-not-render")\nnot_reproduced()\n')
        for call in order:
            body += 'm = %s\nif m: reproduced(m)\n' % call
        return NATIVE + body + 'not_reproduced()\n'
    return replay
