"""C18 -- node-list splitting and key-value parsing are order-preserving partitions.

The real functions of latexnodes/nodes.py are executed by the verifier on node lists with a concrete spine of at most
three entries; every entry is None, an abstract child node (a group, macro, math ... : only its identity, span and source
text exist, so the code under contract cannot look inside it) or a chars node whose text is an arbitrary string of at most
three characters; positions are symbolic and consecutive (entry i starts where entry i-1 ends), the separator is an
arbitrary non-empty string, every option is symbolic or enumerated.  The loops are unrolled, which terminates because each
separator found advances the scan: **bounded** by (entries <= 3, characters per chars node <= 3), unbounded in the
characters themselves, the positions and the options.  These units are labelled bounded and not counted as proved for
longer lists (DESIGN C18).

  split_at_chars   every chars node it creates is a slice of one input chars node with the matching source span; other nodes
                   are passed on by identity, in order, and never inspected (a separator inside a child cannot split); with
                   keep_empty and no max_split the parts joined by the separator reproduce the list's text; each part ends
                   where its separator begins; at most max_split splits; the result without keep_empty is the result with
                   keep_empty minus the empty parts (relational lemma: the function is run twice)
  split_at_node    the parts concatenated (separators re-inserted / kept) are the input list minus skipped None entries;
                   at most max_split splits
  filter           a subsequence, in order, of exactly the nodes the predicates accept
  parse_keyval_content  keys and values agree with splitting at commas and then at the first equals sign; the four
                   repeated-key policies; get_content_as_chars by structural recursion
  get_split_match_start_end  (regular expression / callable separators) decision table on the match object
"""
import z3

from pyvc import values as V
from pyvc.values import Obj, PyList, PyDict, AbsVal, Builtin, zint, simp, z_and, z_or, z_not
from pyvc.contracts import (Contract, FunctionUnit, LemmaUnit, sym_int, sym_str, sym_bool, new_obj, resolve_class, resolve_function)
from pyvc.smt import EngineError, PathAbort
from pyvc.interp import PyExc
from pyvc.replay import PRELUDE

NODES = 'pylatexenc.latexnodes.nodes.'
NL = NODES + 'LatexNodeList'
W = 'pylatexenc.latexwalker._walker.LatexWalker'
MAXCH = 3


def register(reg):
    import contracts
    units = {}

    def mk_list(it, nmax=None, kinds=('none', 'child', 'chars'), name='self'):
        """a node list with consecutive positions; returns (list object, entries, source text pieces)"""
        ctx = it.ctx
        thorough = getattr(ctx.cfg, 'tier', 'quick') == 'thorough'
        if nmax is None:
            nmax = 3 if thorough else 2
        maxch = MAXCH if thorough else 2
        w = new_obj(it, W, {'s': '', 'tolerant_parsing': True, 'debug_nodes': False}, tag='latex_walker')
        w.open = True
        ps = AbsVal(z3.Int('parsing_state'), 'parsing_state')
        n = ctx.choose(nmax + 1, 'number of entries')
        pos0 = sym_int(it, 'list.pos', lo=0)
        cur = pos0
        items, texts = [], []
        for j in range(n):
            k = kinds[ctx.choose(len(kinds), 'entry %d' % j)]
            if k == 'none':
                items.append(None)
                texts.append('')
                continue
            if k == 'chars':
                t = sym_str(it, 'chars%d' % j)
                ctx.assume(z3.And(V.slen(t) >= 1, V.slen(t) <= maxch))
                e = simp(cur + zint(V.slen(t)))
                node = new_obj(it, NODES + 'LatexCharsNode', {'chars': t, 'pos': cur, 'pos_end': e, 'parsing_state': ps, 'latex_walker': w},
                               tag='chars%d' % j)
            else:
                t = sym_str(it, 'child%d.source' % j, register=False)
                ctx.assume(V.slen(t) >= 1)
                e = simp(cur + zint(V.slen(t)))
                flags = {}

                def is_type(it2, sf, a, kw, flags=flags, j=j, k=k):
                    cn = a[0].name
                    if cn == 'LatexCharsNode':
                        return False
                    if cn == 'LatexCommentNode':
                        return k == 'comment'
                    if cn not in flags:
                        flags[cn] = it2.ctx.fresh_bool('child%d.is%s' % (j, cn))
                    return flags[cn]
                node = AbsVal(z3.Int('child%d' % j), 'node', methods={'isNodeType': is_type},
                              attrs={'pos': cur, 'pos_end': e, 'truth': lambda i2, sf: True})
            if k == 'comment':
                ctx.ghost.setdefault('comment_ids', {})[id(node)] = True
            items.append(node)
            texts.append(t)
            cur = e
        lst = new_obj(it, NL, {'nodelist': PyList(items), 'pos': pos0, 'pos_end': cur, 'parsing_state': ps, 'latex_walker': w}, tag=name)
        ctx.ghost['entries'] = list(zip(items, texts))
        ctx.ghost.setdefault('comment_ids', {})
        return lst

    def text_of_node(it, n):
        if n is None:
            return ''
        for m, t in it.ctx.ghost['entries']:
            if m is n:
                return t
        if isinstance(n, Obj) and n.cls.name == 'LatexCharsNode':
            return n.fields['chars']
        raise EngineError('text of %r' % (n,))

    def part_items(part):
        if isinstance(part, Obj):
            return part.fields['nodelist'].items
        if isinstance(part, PyList):
            return part.items
        raise EngineError('part %r' % (part,))

    def concat(xs):
        out = ''
        for x in xs:
            out = V.sconcat(out, x)
        return out

    INL = {W + '.make_node', W + '.make_nodelist', NL + '.__init__', NODES + '_update_posposend_from_nodelist', NL + '.__len__',
           NL + '.__getitem__', NL + '.__iter__', NODES + 'LatexNode.isNodeType', NODES + 'LatexCharsNode.__init__', NODES + 'LatexNode.__init__'}

    # ---- split_at_chars ---------------------------------------------------------------------------------------------------------------------
    def setup_sac(it):
        ctx = it.ctx
        lst = mk_list(it)
        sep = sym_str(it, 'sep_chars')
        ctx.assume(z3.And(V.slen(sep) >= 1, V.slen(sep) <= 2))
        ms = [None, 0, 1, 2][ctx.choose(4, 'max_split')]
        ke = (ctx.choose(2, 'keep_empty') == 1)
        ctx.ghost['sac'] = (sep, ms, ke)
        return {'self': lst, 'sep_chars': sep, 'max_split': ms, 'keep_empty': ke, 'skip_none': (ctx.choose(2, 'skip_none') == 1)}

    @reg.spec('created_nodes_are_slices')
    def created_nodes_are_slices(it, res):
        """every chars node in the result is an input chars node, or a slice of one with the matching source span"""
        ctx = it.ctx
        conds = []
        inputs = [m for m, _t in ctx.ghost['entries'] if isinstance(m, Obj)]
        for part in res.items:
            for n in part_items(part):
                if n is None or isinstance(n, AbsVal) or any(n is m for m in inputs):
                    continue
                if not (isinstance(n, Obj) and n.cls.name == 'LatexCharsNode'):
                    return False
                alts = []
                for m in inputs:
                    a = simp(zint(n.fields['pos']) - zint(m.fields['pos']))
                    b = simp(zint(n.fields['pos_end']) - zint(m.fields['pos']))
                    alts.append(z_and(0 <= a, a <= b, b <= zint(V.slen(m.fields['chars'])),
                                      V.seq_eq(ctx, n.fields['chars'], V.sslice(ctx, m.fields['chars'], a, b)), V.slen(n.fields['chars']) >= 1))
                conds.append(z_or(*alts) if alts else False)
        return z_and(*conds) if conds else True

    @reg.spec('children_passed_by_identity_in_order')
    def children_passed_by_identity_in_order(it, me, res, skip_none):
        want = [m for m, _t in it.ctx.ghost['entries'] if isinstance(m, AbsVal) or (m is None and not skip_none)]
        got = [n for part in res.items for n in part_items(part) if isinstance(n, AbsVal) or n is None]
        return len(want) == len(got) and all(a is b for a, b in zip(want, got))

    @reg.spec('parts_reproduce_the_text')
    def parts_reproduce_the_text(it, res, sep):
        whole = concat([t for _m, t in it.ctx.ghost['entries']])
        pieces = []
        for j, part in enumerate(res.items):
            if j:
                pieces.append(sep)
            pieces += [text_of_node(it, n) for n in part_items(part)]
        return V.seq_eq(it.ctx, concat(pieces), whole)

    @reg.spec('each_part_ends_where_its_separator_begins')
    def each_part_ends_where_its_separator_begins(it, res, sep, me):
        conds = []
        items = res.items
        for j, part in enumerate(items):
            pe = part.fields['pos_end']
            p = part.fields['pos']
            conds.append(z_and(zint(p) <= zint(pe)))
            if j + 1 < len(items):
                nxt = items[j + 1].fields['pos']
                conds.append(V.z_eq(simp(zint(pe) + zint(V.slen(sep))), nxt))
            else:
                conds.append(V.z_eq(pe, me.fields['pos_end']))
        if items:
            conds.append(V.z_eq(items[0].fields['pos'], me.fields['pos']))
        return z_and(*conds) if conds else True
    FULL = 'keep_empty and max_split is None'
    c = Contract(NL + '.split_at_chars', setup=setup_sac,
                 ensures=[('internal:created-chars-nodes-are-slices-of-input-chars-nodes-with-the-matching-source-span', 'created_nodes_are_slices(result)'),
                          ('internal:other-nodes-are-passed-on-by-identity-in-order', 'children_passed_by_identity_in_order(self, result, skip_none)'),
                          ('internal:the-parts-joined-by-the-separator-reproduce-the-text',
                           'implies(%s, parts_reproduce_the_text(result, sep_chars))' % FULL),
                          ('internal:each-part-ends-where-its-separator-begins-and-the-parts-tile-the-list',
                           'implies(%s and skip_none, each_part_ends_where_its_separator_begins(result, sep_chars, self))' % FULL),
                          ('at-most-max-split-splits', 'implies(max_split is not None, len(result) <= max_split + 1)'),
                          ('without-keep-empty-no-part-is-empty', 'implies(not keep_empty, all_parts_nonempty(result))')],
                 modifies=[])
    reg.spec('all_parts_nonempty')(lambda it, res: all(len(part_items(p)) > 0 for p in res.items))
    units['split_at_chars[bounded]'] = FunctionUnit(c, name='split_at_chars[bounded]', inline=INL, split_depth=6, max_paths=200000)

    def lemma_keep_empty(it):
        """keep_empty only decides whether empty parts are kept: the function is run twice on the same list"""
        ctx = it.ctx
        lst = mk_list(it, nmax=2)
        sep = sym_str(it, 'sep_chars')
        ctx.assume(V.slen(sep) == 1)
        ms = [None, 0, 1, 2][ctx.choose(4, 'max_split')]
        f = resolve_function(it, NL + '.split_at_chars')
        it.unit_inline = set(INL) | {NL + '.split_at_chars'}
        r_keep = it.call_function(f, [lst, sep], {'max_split': ms, 'keep_empty': True})
        r_drop = it.call_function(f, [lst, sep], {'max_split': ms, 'keep_empty': False})
        kept = [p for p in r_keep.items if len(part_items(p)) > 0]
        ok = len(kept) == len(r_drop.items)
        conds = []
        if ok:
            for a, b in zip(kept, r_drop.items):
                ia, ib = part_items(a), part_items(b)
                if len(ia) != len(ib):
                    ok = False
                    break
                for x, y in zip(ia, ib):
                    if x is y:
                        continue
                    if isinstance(x, Obj) and isinstance(y, Obj) and x.cls.name == y.cls.name == 'LatexCharsNode':
                        conds.append(z_and(V.seq_eq(ctx, x.fields['chars'], y.fields['chars']), V.z_eq(x.fields['pos'], y.fields['pos']),
                                           V.z_eq(x.fields['pos_end'], y.fields['pos_end'])))
                    else:
                        ok = False
        ctx.prove('split_at_chars: the result without keep_empty is the result with keep_empty minus the empty parts',
                  z_and(ok, *conds) if ok else False, 'post')
    units['split_at_chars:keep_empty[bounded]'] = LemmaUnit('split_at_chars:keep_empty[bounded]', lemma_keep_empty,
                                                            functions=[NL + '.split_at_chars'])

    # ---- the match object decision table (regex / callable separators) --------------------------------------------------------------------
    def lemma_match_table(it):
        ctx = it.ctx
        lst = mk_list(it, nmax=1, kinds=('chars',))
        if len(lst.fields['nodelist'].items) == 0:
            raise PathAbort()
        node = lst.fields['nodelist'].items[0]
        n = V.slen(node.fields['chars'])
        a, b = ctx.fresh_int('match.start'), ctx.fresh_int('match.end')
        kind = ctx.choose(8, 'what the separator callable returns')
        ctx.assume(z3.And(0 <= a, a < b, b <= zint(n)))

        class M(object):
            def pyvc_getattr(self, it2, name):
                if name == 'start':
                    return Builtin('start', lambda i3, aa, kk: a)
                if name == 'end':
                    return Builtin('end', lambda i3, aa, kk: b)
                raise PyExc(Obj(it2.program.builtin_classes['AttributeError'], {'args': ()}), 'wd:attr[match.%s]' % name)
        calls = []

        def sepfn(it2, aa, kk):
            calls.append(list(aa))
            if len(calls) > 1:
                return None
            return [None, M(), (a, b), PyList([]), (-1, 0), (-1, None), (None, None), (-2, 0)][kind]
        f = resolve_function(it, NL + '.split_at_chars')
        it.unit_inline = set(INL) | {NL + '.split_at_chars'}
        class Sep(object):
            """a callable that is not a regular expression (no .search)"""
            def pyvc_call(self, it2, aa, kk):
                return sepfn(it2, aa, kk)

            def pyvc_getattr(self, it2, name):
                it2.raise_builtin('AttributeError', 'wd:attr[separator.%s]' % name)
        res = it.call_function(f, [lst, Sep()], {'keep_empty': True})
        found = kind in (1, 2)
        ok = len(res.items) == (2 if found else 1)
        ctx.prove('split_at_chars: a callable separator splits exactly where it reports a match (match object or (start, end) pair) '
                  'and nowhere for None / an empty result / a None or negative start', ok, 'post')
        if found and ok:
            p0, p1 = res.items
            t0 = concat([text_of_node(it, x) for x in part_items(p0)])
            t1 = concat([text_of_node(it, x) for x in part_items(p1)])
            ch = node.fields['chars']
            ctx.prove('split_at_chars: the parts around a reported match are the text before its start and after its end',
                      z_and(V.seq_eq(ctx, t0, V.sslice(ctx, ch, 0, a)), V.seq_eq(ctx, t1, V.sslice(ctx, ch, b, n))), 'post')
    units['split_at_chars:callable-separator[bounded]'] = LemmaUnit('split_at_chars:callable-separator[bounded]', lemma_match_table,
                                                                    functions=[NL + '.split_at_chars'])

    # ---- split_at_node ------------------------------------------------------------------------------------------------------------------------------
    def setup_san(it):
        ctx = it.ctx
        lst = mk_list(it, nmax=4, kinds=('none', 'child'))
        answers = {}

        def pred(it2, aa, kk):
            n = aa[0]
            k = id(n)
            if k not in answers:
                answers[k] = (n, it2.ctx.choose(2, 'predicate holds') == 1)
            return answers[k][1]
        ctx.ghost['pred_answers'] = answers
        ms = [None, 0, 1, 2][ctx.choose(4, 'max_split')]
        return {'self': lst, 'node_predicate_fn': Builtin('node_predicate_fn', pred), 'skip_none': (ctx.choose(2, 'skip_none') == 1),
                'keep_separators': (ctx.choose(2, 'keep_separators') == 1), 'max_split': ms, 'call_make_nodelist': True}

    @reg.spec('split_at_node_partition')
    def split_at_node_partition(it, me, res, skip_none, keep_separators, max_split):
        """the reference: scan the list; a node the predicate accepts closes the current part (the node is dropped, or opens the
        next part when separators are kept) -- as long as splits are allowed"""
        answers = it.ctx.ghost['pred_answers']
        parts = [[]]
        for n in me.fields['nodelist'].items:
            if skip_none and n is None:
                continue
            may_split = max_split is None or (len(parts) - 1 < max_split)       # at most max_split splits
            if may_split and id(n) in answers and answers[id(n)][1]:
                parts.append([n] if keep_separators else [])
            elif may_split and id(n) not in answers:
                return False                      # the predicate must have been asked about this node
            else:
                parts[-1].append(n)
        got = [part_items(p) for p in res.items]
        return len(got) == len(parts) and all(len(a) == len(b) and all(x is y for x, y in zip(a, b)) for a, b in zip(got, parts))
    c = Contract(NL + '.split_at_node', setup=setup_san,
                 ensures=[('internal:the-parts-are-the-list-cut-at-the-accepted-nodes-in-order',
                           'split_at_node_partition(self, result, skip_none, keep_separators, max_split)'),
                          ('at-most-max-split-splits', 'implies(max_split is not None, len(result) <= max_split + 1)')],
                 modifies=[])
    units['split_at_node[bounded]'] = FunctionUnit(c, name='split_at_node[bounded]', inline=INL, split_depth=6)


    # ---- filter: a subsequence, in order, of exactly the accepted nodes -------------------------------------------------------------------------
    def setup_filter(it):
        ctx = it.ctx
        lst = mk_list(it, nmax=3, kinds=('none', 'child', 'comment', 'chars'))
        answers = {}

        def pred(it2, aa, kk):
            n = aa[0]
            if id(n) not in answers:
                answers[id(n)] = (n, it2.ctx.choose(2, 'predicate holds') == 1)
            return answers[id(n)][1]
        ctx.ghost['pred_answers'] = answers
        fn = None if ctx.choose(2, 'node_predicate_fn given') == 0 else Builtin('node_predicate_fn', pred)
        return {'self': lst, 'node_predicate_fn': fn, 'skip_none': (ctx.choose(2, 'skip_none') == 1),
                'skip_comments': (ctx.choose(2, 'skip_comments') == 1), 'skip_whitespace_char_nodes': False}

    @reg.spec('filtered_as_documented')
    def filtered_as_documented(it, me, res, fn, skip_none, skip_comments):
        answers = it.ctx.ghost['pred_answers']
        got = part_items(res)
        want = []
        conds = []
        j = 0
        for n in me.fields['nodelist'].items:
            if n is None:
                if skip_none:
                    continue
                # None reaches the later tests (isNodeType on None would fail): the code under contract returns False first only with skip_none
            keep = True
            if skip_comments and isinstance(n, AbsVal) and it.ctx.ghost['comment_ids'].get(id(n)):
                keep = False
            if keep and fn is not None:
                if id(n) not in answers:
                    return False
                keep = answers[id(n)][1]
            if keep:
                want.append(n)
        return len(got) == len(want) and all(a is b for a, b in zip(got, want))
    c = Contract(NL + '.filter', setup=setup_filter,
                 requires=[('None-entries-are-skipped-or-there-are-none',
                            'skip_none or no_none_entries(self) or (not skip_comments and node_predicate_fn is not None)')],
                 ensures=[('internal:exactly-the-accepted-nodes-in-their-order', 'filtered_as_documented(self, result, node_predicate_fn, skip_none, skip_comments)')],
                 modifies=[])
    reg.spec('no_none_entries')(lambda it, me: all(n is not None for n in me.fields['nodelist'].items))
    units['filter[bounded]'] = FunctionUnit(c, name='filter[bounded]', inline=INL | {NL + '.filter.filter_full_predicate_fn'}, split_depth=6)

    # ---- get_content_as_chars: structural recursion ----------------------------------------------------------------------------------------------
    def lemma_content_chars(it):
        ctx = it.ctx
        f = it.module_get(it.program.module('pylatexenc.latexnodes.nodes'), '_get_content_as_chars')
        it.unit_inline = {NODES + '_get_content_as_chars', NODES + 'LatexNode.isNodeType', NL + '.__iter__'}
        a, b, c_ = sym_str(it, 'a'), sym_str(it, 'b'), sym_str(it, 'comment')
        ps = AbsVal(z3.Int('ps'), 'ps')

        def chars(t):
            return new_obj(it, NODES + 'LatexCharsNode', {'chars': t, 'pos': 0, 'pos_end': 0, 'parsing_state': ps, 'latex_walker': None}, is_input=False)

        def comment(t):
            return new_obj(it, NODES + 'LatexCommentNode', {'comment': t, 'comment_post_space': '', 'pos': 0, 'pos_end': 0, 'parsing_state': ps,
                                                            'latex_walker': None}, is_input=False)

        def group(items):
            return new_obj(it, NODES + 'LatexGroupNode', {'nodelist': PyList(items), 'delimiters': ('{', '}'), 'pos': 0, 'pos_end': 0,
                                                          'parsing_state': ps, 'latex_walker': None}, is_input=False)
        cases = [([], ''), ([chars(a)], a), ([chars(a), None, comment(c_), chars(b)], V.sconcat(a, b)),
                 ([group([chars(a), group([chars(b)])])], V.sconcat(a, b)), ([group([]), chars(a)], a)]
        ok = []
        for items, want in cases:
            got = it.call_function(f, [PyList(items)], {})
            ok.append(V.seq_eq(ctx, got, want))
        ctx.prove('get_content_as_chars: the characters of chars nodes in order, through nested groups, ignoring None and comments',
                  z_and(*ok), 'post')
        ctx.prove('get_content_as_chars: no list is the empty string', it.call_function(f, [None], {}) == '', 'post')
        m = new_obj(it, NODES + 'LatexMacroNode', {'macroname': 'x', 'nodeargd': None, 'macro_post_space': '', 'spec': None, 'pos': 5, 'pos_end': 7,
                                                   'parsing_state': ps, 'latex_walker': None}, is_input=False)
        try:
            it.call_function(f, [PyList([chars(a), m])], {})
            raised = None
        except PyExc as e:
            raised = e.value
        ctx.prove('get_content_as_chars: any other node is rejected with a parse error located at that node',
                  raised is not None and raised.cls.name == 'LatexWalkerParseError' and raised.fields.get('pos') == 5, 'post')
    units['get_content_as_chars'] = LemmaUnit('get_content_as_chars', lemma_content_chars, functions=[NODES + '_get_content_as_chars'])

    # ---- the argument views of _parsedargsinfo.py ----------------------------------------------------------------------------------------------
    PAI = 'pylatexenc.latexnodes._parsedargsinfo.'

    def lemma_views(it):
        ctx = it.ctx
        PAInfo = resolve_class(it, PAI + 'ParsedArgumentsInfo')
        SInfo = resolve_class(it, PAI + 'SingleParsedArgumentInfo')
        ps = AbsVal(z3.Int('ps'), 'ps')
        given = new_obj(it, 'pylatexenc.latexnodes._parsedargs.ParsedArguments', {'argnlist': PyList([]), 'arguments_spec_list': PyList([])}, is_input=False)
        own = new_obj(it, 'pylatexenc.latexnodes._parsedargs.ParsedArguments', {'argnlist': PyList([]), 'arguments_spec_list': PyList([])}, is_input=False)
        node = new_obj(it, NODES + 'LatexMacroNode', {'macroname': 'x', 'nodeargd': own, 'macro_post_space': '', 'spec': None, 'pos': 3, 'pos_end': 7,
                                                      'parsing_state': ps, 'latex_walker': None}, is_input=False)
        a = it.call(PAInfo, [], {'parsed_arguments': given, 'node': node})
        b = it.call(PAInfo, [], {'node': node})
        c_ = it.call(PAInfo, [], {'parsed_arguments': given})
        ctx.prove('ParsedArgumentsInfo: given parsed arguments are kept; the node arguments are the fall-back only when none were given',
                  a.fields['parsed_arguments'] is given and b.fields['parsed_arguments'] is own and c_.fields['parsed_arguments'] is given
                  and a.fields['node_pos'] == 3 and c_.fields['node_pos'] is None, 'post')

        def chars(t):
            return new_obj(it, NODES + 'LatexCharsNode', {'chars': t, 'pos': 0, 'pos_end': 0, 'parsing_state': ps, 'latex_walker': None}, is_input=False)

        def group(items, delims=('{', '}')):
            nl = new_obj(it, NL, {'nodelist': PyList(items), 'pos': 0, 'pos_end': 0, 'parsing_state': ps, 'latex_walker': None}, is_input=False)
            return new_obj(it, NODES + 'LatexGroupNode', {'nodelist': nl, 'delimiters': delims, 'pos': 0, 'pos_end': 0, 'parsing_state': ps,
                                                          'latex_walker': None}, is_input=False), nl
        it.unit_inline = {PAI + 'SingleParsedArgumentInfo.get_content_nodelist', PAI + 'SingleParsedArgumentInfo.__init__', NL + '.__len__',
                          NL + '.__getitem__', NL + '.__init__', NODES + '_update_posposend_from_nodelist', NODES + 'LatexNode.isNodeType'}

        def content(x, **kw):
            return it.call_method(it.call(SInfo, [x], {}), 'get_content_nodelist', [], kw)
        x = chars(sym_str(it, 'x'))
        g, gl = group([x])
        inner, il = group([x], ('{', '}'))
        outer_b, obl = group([inner], ('[', ']'))
        outer_s, osl = group([inner], ('{', '}'))
        r_none = content(None)
        thelist = new_obj(it, NL, {'nodelist': PyList([x]), 'pos': 0, 'pos_end': 0, 'parsing_state': ps, 'latex_walker': None}, is_input=False)
        ok = [isinstance(r_none, Obj) and r_none.cls.name == 'LatexNodeList' and r_none.fields['nodelist'].items == [None],
              content(thelist) is thelist,                       # a node list is returned as it is
              content(g) is gl,                                  # a group: its contents
              content(outer_b) is il,                            # [{...}]: the contents of the inner group
              content(outer_b, unwrap_double_group=False) is obl,
              content(outer_s) is osl]                           # {{...}} with the same delimiters is not unwrapped
        r_single = content(x)
        ok.append(isinstance(r_single, Obj) and r_single.cls.name == 'LatexNodeList' and len(r_single.fields['nodelist'].items) == 1 and
                  r_single.fields['nodelist'].items[0] is x)
        ctx.prove('SingleParsedArgumentInfo.get_content_nodelist: the decision table absent / node list / group / double group / single node',
                  all(ok), 'post', src='row results: %r' % ok)
        wp = [it.call_method(it.call(SInfo, [v], {}), 'was_provided', [], {}) for v in (None, x)]
        ctx.prove('SingleParsedArgumentInfo.was_provided: exactly for a node that is not None', wp == [False, True], 'post')
    units['argument-views'] = LemmaUnit('argument-views', lemma_views, functions=[PAI + 'ParsedArgumentsInfo.__init__',
                                                                                  PAI + 'SingleParsedArgumentInfo.get_content_nodelist'])

    # ---- parse_keyval_content agrees with the two splits; repeated-key policies (concrete texts, run by the verifier on the real code) -------
    def lemma_keyval(it):
        ctx = it.ctx
        ps = AbsVal(z3.Int('ps'), 'ps')
        w = new_obj(it, W, {'s': '', 'tolerant_parsing': True, 'debug_nodes': False}, tag='latex_walker')
        w.open = True
        it.unit_inline = set(INL) | {NL + '.split_at_chars', NL + '.parse_keyval_content', NL + '.get_content_as_chars', NODES + '_get_content_as_chars'}

        def build(pieces):
            items, cur = [], 0
            for pc in pieces:
                if isinstance(pc, str):
                    items.append(new_obj(it, NODES + 'LatexCharsNode', {'chars': pc, 'pos': cur, 'pos_end': cur + len(pc), 'parsing_state': ps,
                                                                         'latex_walker': w}, is_input=False))
                    cur += len(pc)
                else:           # a braced group holding one chars node
                    inner = new_obj(it, NODES + 'LatexCharsNode', {'chars': pc[0], 'pos': cur + 1, 'pos_end': cur + 1 + len(pc[0]), 'parsing_state': ps,
                                                                   'latex_walker': w}, is_input=False)
                    il = new_obj(it, NL, {'nodelist': PyList([inner]), 'pos': cur + 1, 'pos_end': cur + 1 + len(pc[0]), 'parsing_state': ps,
                                          'latex_walker': w}, is_input=False)
                    items.append(new_obj(it, NODES + 'LatexGroupNode', {'nodelist': il, 'delimiters': ('{', '}'), 'pos': cur, 'pos_end': cur + 2 + len(pc[0]),
                                                                        'parsing_state': ps, 'latex_walker': w}, is_input=False))
                    cur += 2 + len(pc[0])
            return new_obj(it, NL, {'nodelist': PyList(items), 'pos': 0, 'pos_end': cur, 'parsing_state': ps, 'latex_walker': w}, is_input=False)

        def text(nl):
            out = ''
            for n in part_items(nl):
                if n is None:
                    continue
                if n.cls.name == 'LatexCharsNode':
                    out += n.fields['chars']
                else:
                    out += '{' + text(n.fields['nodelist']) + '}'
            return out
        DOCS = [['a=1,b=2'], ['a=1,a=2,a=3'], ['x=', ('p,q',), ',y'], ['=v'], ['k='], ['a==b'], ['a = 1 , b'], [''], [',,a'], ['a=', ('1',), 'z'],
                ['a=,a=1'], ['a=', ('',), ',a=1,a=2'], ['a,a=1,a='], ['k=,k=,k=v'],     # a repeated key whose earlier value is empty
                ['k=', ('a',), ',j=x,k=b,k=', ('c',)], ['k=', ('a',), ',k=', ('b',)]]    # a repeated key whose earlier value is a braced group
        bad = []
        changed = []

        def shape(nl):
            # everything reachable from the input list: identities, order and lengths of every child list, the characters
            return tuple((id(n), n.cls.name, n.fields['chars'] if n.cls.name == 'LatexCharsNode' else shape(n.fields['nodelist']))
                         for n in part_items(nl) if n is not None)
        for pieces in DOCS:
            for pol in ('first', 'last', 'concatenate', 'error'):
                lst = build(pieces)
                pairs = []
                for part in it.call_method(lst, 'split_at_chars', [','], {}).items:
                    kv = it.call_method(part, 'split_at_chars', ['='], {'max_split': 1, 'keep_empty': True}).items
                    pairs.append((text(kv[0]) if False else it.call_method(kv[0], 'get_content_as_chars', [], {}), kv[1] if len(kv) > 1 else None))
                keys = [k for k, _v in pairs]
                inp = build(pieces)
                before = (shape(inp), text(inp))
                try:
                    r = it.call_method(inp, 'parse_keyval_content', [], {'repeated_key_aggregate_action': pol})
                    if (shape(inp), text(inp)) != before:
                        changed.append((pieces, pol, 'the list reads %r after the call' % text(inp)))
                    else:
                        # ... and a second call on the same list gives the same keys and texts
                        r2 = it.call_method(inp, 'parse_keyval_content', [], {'repeated_key_aggregate_action': pol})
                        if [(k, text(v)) for k, v in r.items.items()] != [(k, text(v)) for k, v in r2.items.items()]:
                            changed.append((pieces, pol, 'a second call answers differently'))
                except PyExc as e:
                    if e.value.cls.name == 'ValueError' and pol == 'error' and len(set(keys)) < len(keys):
                        continue
                    bad.append((pieces, pol, 'raised %s' % e.value.cls.name))
                    continue
                if pol == 'error' and len(set(keys)) < len(keys):
                    bad.append((pieces, pol, 'no error for the repeated key'))
                    continue
                got_keys = list(r.items.keys())
                if got_keys != list(dict.fromkeys(keys)):
                    bad.append((pieces, pol, 'keys %r, the splits give %r' % (got_keys, keys)))
                    continue
                for k in got_keys:
                    v = r.items[k]
                    if not (isinstance(v, Obj) and v.cls.name == 'LatexNodeList'):
                        bad.append((pieces, pol, 'value of %r is not a node list' % k))
                        continue
                    vals = [vv for kk, vv in pairs if kk == k]

                    def vt(vv):
                        if vv is None:
                            return ''
                        t = text(vv)
                        its = part_items(vv)
                        return t[1:-1] if len(its) == 1 and its[0].cls.name == 'LatexGroupNode' else t
                    want = {'first': vt(vals[0]), 'last': vt(vals[-1]), 'concatenate': ''.join(vt(x) for x in vals), 'error': vt(vals[0])}[pol]
                    if text(v) != want:
                        bad.append((pieces, pol, 'value of %r reads %r, the policy gives %r' % (k, text(v), want)))
        ctx.prove('parse_keyval_content: keys and values agree with splitting at the commas and then at the first equals sign, for the four '
                  'repeated-key policies (16 texts, run on the real code)', not bad, 'post', src='offending: %r' % bad[:4])
        ctx.prove('parse_keyval_content: the list it is called on, and every node and child list reachable from it, is left as it was '
                  '(16 texts, run on the real code)', not changed, 'frame', src='offending: %r' % changed[:4])
    units['parse_keyval_content[concrete texts]'] = LemmaUnit('parse_keyval_content[concrete texts]', lemma_keyval,
                                                              functions=[NL + '.parse_keyval_content'])
    # ---- syntactic frames (all inputs, no bound): the five list operations write no attribute of the list they are called on and
    # mutate nothing through a local that aliases the list, a node reachable from it or another argument (same analysis as the
    # C09 frames; aliases handed on through containers are not tracked -- the executed clause above covers the value lists) ------
    FRAME_FNS = ('filter', 'split_at_node', 'split_at_chars', 'parse_keyval_content', 'get_content_as_chars')

    def lemma_frames18(it):
        import ast as _ast, os as _os
        from contracts import purity as _pur
        ctx = it.ctx
        rel = 'pylatexenc/latexnodes/nodes.py'
        tree = _ast.parse(open(_os.path.join(it.program.root, rel), encoding='utf-8').read())
        cls = [c_ for c_ in _ast.walk(tree) if isinstance(c_, _ast.ClassDef) and c_.name == 'LatexNodeList']
        found = {f.name: f for c_ in cls for f in c_.body if isinstance(f, _ast.FunctionDef)}
        for name in FRAME_FNS:
            ctx.prove('frame:LatexNodeList.%s is present' % name, name in found, 'frame', src=rel)
            if name not in found:
                continue
            fn = found[name]
            roots = {a.arg for a in fn.args.args + fn.args.kwonlyargs}
            bad = _pur._self_writes(fn) + _pur._alias_writes(fn, roots) + _pur._mutable_defaults(fn)
            ctx.prove('frame:LatexNodeList.%s: the list, its nodes and the other arguments are not written to' % name, not bad, 'frame',
                      src='%s: %s' % (rel, '; '.join('line %d: %s (%s)' % b for b in bad[:6])))
    units['inputs-are-not-modified[syntactic]'] = LemmaUnit('inputs-are-not-modified[syntactic]', lemma_frames18,
                                                            functions=[NL + '.' + n for n in FRAME_FNS])
    for k in units:
        contracts.REPLAYERS[k] = replay
    contracts.EXTRA_ASSUMPTIONS['C18'] = [
        "bounded: node lists of at most 3 entries (4 for split_at_node), chars nodes of 1..3 arbitrary characters, separators of 1..2 "
        "arbitrary characters, max_split in {None, 0, 1, 2}; loops unrolled; nothing is claimed for longer lists",
        "child nodes are abstract (identity, span, source text): the code under contract cannot inspect them, which is the 'separators "
        "inside child nodes never split' statement",
        "regular-expression separators enter through the same match-object table as callables (A-LIB: re.search semantics assumed)"]
    return {'C18': units}


NATIVE = PRELUDE + r'''
import logging, warnings, itertools, re
logging.disable(logging.CRITICAL); warnings.simplefilter("ignore")
from pylatexenc.latexwalker import LatexWalker
from pylatexenc.latexnodes.parsers import LatexGeneralNodesParser
from pylatexenc.latexnodes import nodes as N

def nl(s):
    return LatexWalker(s, tolerant_parsing=False).parse_content(LatexGeneralNodesParser())[0]

def src(w, lst):
    return "".join(n.latex_verbatim() for n in lst if n is not None)

def ref_split(s, sep, max_split):
    """reference on the flat text: separators inside {...}, $...$ and macro arguments do not count"""
    depth, i, cuts, math = 0, 0, [], False
    while i < len(s):
        c = s[i]
        if c == "\\": i += 2; continue
        if c == "{": depth += 1
        elif c == "}": depth -= 1
        elif c == "$": math = not math
        elif depth == 0 and not math and s.startswith(sep, i) and (max_split is None or len(cuts) < max_split):
            cuts.append(i); i += len(sep); continue
        i += 1
    parts, prev = [], 0
    for c in cuts:
        parts.append((prev, c)); prev = c + len(sep)
    parts.append((prev, len(s)))
    return parts

DOCS = ["a,b,c", ",a,,b,", "a{b,c}d,e", "x=1,y={2,3},z", "a, b ,c", "$a,b$,c", "a,\\textbf{b,c},d", ",", "", "ab", "a,b%c,d\n,e", "a=b=c", "=v", "k=", "a,,", "{a},{b}"]

def search():
    for d in DOCS:
        lst = nl(d)
        for sep in (",", "=", ", "):
            for ms in (None, 0, 1, 2, 5):
                want = ref_split(d, sep, ms) if "%" not in d else None
                full = lst.split_at_chars(sep, max_split=ms, keep_empty=True)
                drop = lst.split_at_chars(sep, max_split=ms, keep_empty=False)
                if want is not None:
                    got = [(p.pos, p.pos_end) for p in full]
                    texts = [src(None, p) for p in full]
                    if [d[a:b] for a, b in want] != texts:
                        return "split_at_chars(%r, max_split=%r, keep_empty=True) of %r gives parts %r; cutting the source at the top-level separators gives %r" % (sep, ms, d, texts, [d[a:b] for a, b in want])
                    if got != want:
                        return "split_at_chars(%r, max_split=%r, keep_empty=True) of %r: part spans %r, expected %r" % (sep, ms, d, got, want)
                for p in full:
                    for n in p:
                        if n is not None and n.latex_verbatim() != d[n.pos:n.pos_end]:
                            return "split_at_chars(%r) of %r returned node %r whose span [%d,%d) reads %r" % (sep, d, n, n.pos, n.pos_end, d[n.pos:n.pos_end])
                        if isinstance(n, N.LatexCharsNode) and n.chars != d[n.pos:n.pos_end]:
                            return "split_at_chars(%r) of %r returned chars node %r at [%d,%d) where the source reads %r" % (sep, d, n.chars, n.pos, n.pos_end, d[n.pos:n.pos_end])
                kept = [[(type(n).__name__, n.pos, n.pos_end) for n in p] for p in full if len(p)]
                got2 = [[(type(n).__name__, n.pos, n.pos_end) for n in p] for p in drop]
                if kept != got2:
                    return "split_at_chars(%r, max_split=%r) of %r: without keep_empty %r, with keep_empty minus the empty parts %r" % (sep, ms, d, got2, kept)
                if ms is not None and len(full) > ms + 1:
                    return "split_at_chars(%r, max_split=%r, keep_empty=True) of %r made %d splits" % (sep, ms, d, len(full) - 1)
        # regular expression and callable separators agree with the string separator
        a = [[(n.pos, n.pos_end) for n in p] for p in lst.split_at_chars(",", keep_empty=True)]
        b = [[(n.pos, n.pos_end) for n in p] for p in lst.split_at_chars(re.compile(","), keep_empty=True)]
        c = [[(n.pos, n.pos_end) for n in p] for p in lst.split_at_chars(lambda ch, pos: (ch.find(",", pos), ch.find(",", pos) + 1) if "," in ch[pos:] else None, keep_empty=True)]
        if a != b or a != c:
            return "split_at_chars of %r: string separator %r, regular expression %r, callable %r" % (d, a, b, c)
        # split_at_node
        for keep in (False, True):
            for ms in (None, 0, 1, 2):
                parts = lst.split_at_node(lambda n: n.isNodeType(N.LatexGroupNode), keep_separators=keep, max_split=ms)
                flat = [n for p in parts for n in p]
                want = [n for n in lst if n is not None and (keep or not n.isNodeType(N.LatexGroupNode))]
                if ms is None and [id(x) for x in flat] != [id(x) for x in want]:
                    return "split_at_node(keep_separators=%r) of %r does not return the nodes in order" % (keep, d)
                if ms is not None and len(parts) > ms + 1:
                    return "split_at_node(max_split=%r) of %r made %d splits" % (ms, d, len(parts) - 1)
    # key-value parsing agrees with the two splits; repeated-key policies
    def tree(x):
        return [(id(n), type(n).__name__, getattr(n, "chars", None),
                 tree(n.nodelist) if getattr(n, "nodelist", None) is not None else None) for n in x if n is not None]
    for d in ("a=1,b=2", "a=1,a=2,a=3", "x={p,q},y", "=v", "k=", "a==b", "a = 1 , b", "a={1}2,b=3", "k={1}x,k={2}", "k={a},j=x,k=b,k={c}", "k={a},k={b}"):
        for pol in ("first", "last", "concatenate", "error"):
            lst = nl(d)
            before = tree(lst)
            try:
                r1 = lst.parse_keyval_content(repeated_key_aggregate_action=pol)
                if tree(lst) != before:
                    return "parse_keyval_content(%r) of %r changed the node list it was called on (children now read %r)" % (
                        pol, d, ["".join(c.latex_verbatim() for c in n.nodelist) for n in lst if getattr(n, "nodelist", None) is not None])
                r2 = lst.parse_keyval_content(repeated_key_aggregate_action=pol)
                t1 = [(k, "".join(n.latex_verbatim() for n in v if n is not None)) for k, v in r1.items()]
                t2 = [(k, "".join(n.latex_verbatim() for n in v if n is not None)) for k, v in r2.items()]
                if t1 != t2:
                    return "parse_keyval_content(%r) of %r called twice on the same list: first %r, then %r" % (pol, d, t1, t2)
            except Exception:
                pass        # exceptions are judged below
            lst = nl(d)
            pairs = []
            for part in lst.split_at_chars(","):
                kv = part.split_at_chars("=", max_split=1, keep_empty=True)
                pairs.append((kv[0].get_content_as_chars(), kv[1] if len(kv) > 1 else None))
            keys = [k for k, _ in pairs]
            try:
                r = lst.parse_keyval_content(repeated_key_aggregate_action=pol)
            except ValueError:
                if pol == "error" and len(set(keys)) < len(keys): continue
                return "parse_keyval_content(%r) of %r raised ValueError" % (pol, d)
            except Exception as e:
                return "parse_keyval_content(%r) of %r raised %s: %s" % (pol, d, type(e).__name__, e)
            if pol == "error" and len(set(keys)) < len(keys):
                return "parse_keyval_content('error') of %r did not raise for the repeated key" % (d,)
            if list(r.keys()) != list(dict.fromkeys(keys)):
                return "parse_keyval_content(%r) of %r has keys %r; splitting gives %r" % (pol, d, list(r.keys()), keys)
            for k in r:
                vals = [v for kk, v in pairs if kk == k]
                if not isinstance(r[k], N.LatexNodeList):
                    return "parse_keyval_content(%r) of %r: the value of %r is a %s, not a node list" % (pol, d, k, type(r[k]).__name__)
                given = [v for v in vals if v is not None]
                def txt(v):
                    t = "".join(n.latex_verbatim() for n in v if n is not None)
                    return t[1:-1] if len(v) == 1 and isinstance(v[0], N.LatexGroupNode) else t
                got = "".join(n.latex_verbatim() for n in r[k] if n is not None)
                want = {"first": txt(vals[0]) if vals[0] is not None else "", "last": txt(vals[-1]) if vals[-1] is not None else "",
                        "concatenate": "".join(txt(v) for v in given), "error": txt(vals[0]) if vals[0] is not None else ""}[pol]
                if got != want:
                    return "parse_keyval_content(%r) of %r: value of %r reads %r, the policy gives %r" % (pol, d, k, got, want)
    return None
'''


def replay(o, model):
    return NATIVE + '''
m = search()
if m: reproduced(m)
not_reproduced()
'''
