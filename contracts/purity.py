"""C09 -- parsing is a pure function of input, context and flags: frame conditions on everything that outlives a parse.

Objects that outlive one parse: the process-wide cache of standard argument parsers and the parser instances in it, every
parser object held by a specification (arguments parsers, the parsers they cache), the specification objects of a context
database (the default databases share module-level spec objects between all walkers), the context database, parsing
states and parsing-state deltas, module-level globals and default-argument objects.  Objects created during a parse
(walker, token reader, nodes collector, *ParserInfo helpers, call parsers built per token, VerbatimInfo, nodes, parsed
arguments) are not shared and are excluded.

`frame` obligation, one per method of a shared class (recomputed from the real AST on every run): outside __init__ (and
helpers called only from __init__) the method contains no store to an attribute of `self`, no subscript store / mutating
method call on such an attribute, no `global` statement, no store into a module-level container, and no mutable default
argument.  Two declared exceptions carry their own obligations:
  (i)  get_standard_argument_parser inserts into the process-wide cache a parser built from exactly the key's contents;
  (ii) LatexStandardArgumentParser.parse memoises self._arg_parser = get_arg_parser_instance(self.arg_spec), a function of
       fields that are written only by __init__ (so the memo is the same whenever it is computed).
Determinism lemma (stated): a function that reads only its arguments and immutable shared state and writes only objects it
allocated returns equal results for equal arguments, whatever was parsed before.
LatexContextDb: the lookup methods have modifies = [] (C14 units, shared); parsing never calls a mutator (scan).
"""
import ast
import os

from pyvc.contracts import LemmaUnit
from pyvc.smt import EngineError
from pyvc.replay import PRELUDE

SHARED = {
    'pylatexenc/latexnodes/parsers/_base.py': ['LatexParserBase'],
    'pylatexenc/latexnodes/parsers/_generalnodes.py': ['LatexGeneralNodesParser', 'LatexSingleNodeParser'],
    'pylatexenc/latexnodes/parsers/_delimited.py': ['LatexDelimitedExpressionParser', 'LatexDelimitedGroupParser',
                                                    'LatexDelimitedMultiDelimGroupParser'],
    'pylatexenc/latexnodes/parsers/_expression.py': ['LatexExpressionParser'],
    'pylatexenc/latexnodes/parsers/_math.py': ['LatexMathParser'],
    'pylatexenc/latexnodes/parsers/_optionals.py': ['LatexOptionalSquareBracketsParser', 'LatexOptionalCharsMarkerParser',
                                                    'LatexOptionalEmbellishmentArgsParser'],
    'pylatexenc/latexnodes/parsers/_stdarg.py': ['LatexStandardArgumentParser'],
    'pylatexenc/latexnodes/parsers/_verbatim.py': ['LatexVerbatimBaseParser', 'LatexDelimitedVerbatimParser',
                                                   'LatexVerbatimEnvironmentContentsParser'],
    'pylatexenc/macrospec/_argumentsparser.py': ['LatexNoArgumentsParser', 'LatexArgumentsParser',
                                                 '_LegacyPyltxenc2MacroArgsParserWrapper'],
    'pylatexenc/macrospec/_specclasses.py': ['CallableSpec', 'MacroSpec', 'EnvironmentSpec', 'SpecialsSpec'],
    'pylatexenc/macrospec/_environmentbodyparser.py': ['LatexEnvironmentBodyContentsParser'],
    'pylatexenc/macrospec/_latexcontextdb.py': ['LatexContextDb'],
    'pylatexenc/macrospec/_pyltxenc2_argparsers/_base.py': ['MacroStandardArgsParser'],
    'pylatexenc/macrospec/_pyltxenc2_argparsers/_verbatimargsparser.py': ['VerbatimArgsParser'],
    'pylatexenc/latexnodes/_parsedargs.py': ['LatexArgumentSpec'],
    'pylatexenc/latexnodes/_parsingstate.py': ['ParsingState'],
    'pylatexenc/latexnodes/_parsingstatedelta.py': ['ParsingStateDelta', 'ParsingStateDeltaReplaceParsingState', 'ParsingStateDeltaChained',
                                                    'ParsingStateDeltaWalkerEvent', 'ParsingStateDeltaEnterMathMode',
                                                    'ParsingStateDeltaLeaveMathMode'],
    'pylatexenc/latexnodes/_walkerbase.py': ['LatexWalkerParsingStateEventHandler'],
}
# construction-time methods: they build the object; after construction they are only called on fresh objects
# (checked: every call site inside the package is in __init__ / a listed builder of the same class)
BUILDERS = {
    'ParsingState': ['__init__', 'set_fields', 'finalize_state', '_finalize_state_latex_group_delimiters_info',
                     '_finalize_state_latex_math_delim_info', '_finalize_state_inmathmode_info'],
    # building / deriving a database (not called by any parser: scanned below)
    'LatexContextDb': ['__init__', 'add_context_category', '_add_context_category', 'set_unknown_macro_spec', 'set_unknown_environment_spec',
                       'set_unknown_specials_spec', 'freeze', 'filtered_context'],
}
MUTATORS = {'append', 'extend', 'insert', 'update', 'pop', 'popitem', 'remove', 'clear', 'add', 'discard', 'setdefault', 'sort', 'reverse',
            '__setitem__', '__delitem__'}
# declared exceptions, each with its own obligation below
MEMO = ('pylatexenc/latexnodes/parsers/_stdarg.py', 'LatexStandardArgumentParser', 'parse', '_arg_parser')


def _self_writes(fn):
    """stores into attributes of the first parameter (self) and mutations of containers held in them"""
    if not fn.args.args:
        return []
    me = fn.args.args[0].arg
    out = []

    def is_self_attr(e):
        return isinstance(e, ast.Attribute) and isinstance(e.value, ast.Name) and e.value.id == me

    def root_self_attr(e):
        while isinstance(e, (ast.Subscript, ast.Attribute)):
            if is_self_attr(e):
                return e
            e = e.value
        return None
    for n in ast.walk(fn):
        targets = []
        if isinstance(n, ast.Assign):
            targets = n.targets
        elif isinstance(n, (ast.AugAssign, ast.AnnAssign)):
            targets = [n.target]
        elif isinstance(n, ast.Delete):
            targets = n.targets
        elif isinstance(n, (ast.For, ast.comprehension)):
            targets = [n.target]
        elif isinstance(n, ast.With):
            targets = [i.optional_vars for i in n.items if i.optional_vars is not None]
        for t in targets:
            for e in (t.elts if isinstance(t, (ast.Tuple, ast.List)) else [t]):
                a = root_self_attr(e)
                if a is not None:
                    out.append((n.lineno, '%s.%s' % (me, a.attr), 'store'))
        if isinstance(n, ast.Call) and isinstance(n.func, ast.Attribute) and n.func.attr in MUTATORS:
            a = root_self_attr(n.func.value)
            if a is not None:
                out.append((n.lineno, '%s.%s' % (me, a.attr), 'call .%s()' % n.func.attr))
        if isinstance(n, ast.Call) and isinstance(n.func, ast.Name) and n.func.id == 'setattr' and n.args and \
                isinstance(n.args[0], ast.Name) and n.args[0].id == me:
            out.append((n.lineno, me, 'setattr'))
    return out


def _global_writes(fn, module_names):
    out = []
    local = {a.arg for a in fn.args.args + fn.args.kwonlyargs}
    if fn.args.vararg:
        local.add(fn.args.vararg.arg)
    if fn.args.kwarg:
        local.add(fn.args.kwarg.arg)
    for n in ast.walk(fn):
        if isinstance(n, ast.Assign):
            for t in n.targets:
                for e in (t.elts if isinstance(t, (ast.Tuple, ast.List)) else [t]):
                    if isinstance(e, ast.Name):
                        local.add(e.id)
        elif isinstance(n, (ast.For, ast.comprehension)) and isinstance(n.target, ast.Name):
            local.add(n.target.id)
    for n in ast.walk(fn):
        if isinstance(n, ast.Global):
            out.append((n.lineno, ','.join(n.names), 'global statement'))
        targets = []
        if isinstance(n, ast.Assign):
            targets = n.targets
        elif isinstance(n, ast.AugAssign):
            targets = [n.target]
        elif isinstance(n, ast.Delete):
            targets = n.targets
        for t in targets:
            e = t
            while isinstance(e, (ast.Subscript, ast.Attribute)):
                e = e.value
            if isinstance(e, ast.Name) and e.id in module_names and e.id not in local and e is not t:
                out.append((n.lineno, e.id, 'store into module-level object'))
        if isinstance(n, ast.Call) and isinstance(n.func, ast.Attribute) and n.func.attr in MUTATORS:
            e = n.func.value
            while isinstance(e, (ast.Subscript, ast.Attribute)):
                e = e.value
            if isinstance(e, ast.Name) and e.id in module_names and e.id not in local:
                out.append((n.lineno, e.id, 'mutating call on module-level object'))
    return out


def _alias_writes(fn, roots=None):
    """in-place mutation through a LOCAL NAME that aliases state reachable from `roots` (default: the first parameter, self):
    `x = self.a` / `x = self.a.b[k]` / `x = y` (y an alias) / `for x in <alias or self.a>` followed by a mutating call on x,
    a subscript / attribute store into x, `del x[..]`, or `x += <list, comprehension, or anything that is not a number or string>`.
    A local bound ONLY to fresh objects (displays, comprehensions, constructor calls, operators, constants) is not an alias.
    Flow-insensitive on purpose (an alias anywhere in the function counts): that can only over-approximate aliasing."""
    if roots is None:
        if not fn.args.args:
            return []
        roots = {fn.args.args[0].arg}
    roots = set(roots)

    def rooted(e, aliases):
        # the value is (part of) an object reachable from a root or an alias: attribute / subscript chains and bare names
        while isinstance(e, (ast.Attribute, ast.Subscript)):
            e = e.value
        return isinstance(e, ast.Name) and (e.id in roots or e.id in aliases)
    binds = []          # (name, value expression) for every simple local binding
    for n in ast.walk(fn):
        if isinstance(n, ast.Assign):
            for t in n.targets:
                if isinstance(t, ast.Name):
                    binds.append((t.id, n.value))
                elif isinstance(t, (ast.Tuple, ast.List)) and isinstance(n.value, (ast.Tuple, ast.List)) and len(t.elts) == len(n.value.elts):
                    for a, b in zip(t.elts, n.value.elts):
                        if isinstance(a, ast.Name):
                            binds.append((a.id, b))
        elif isinstance(n, (ast.For, ast.comprehension)) and isinstance(n.target, ast.Name):
            binds.append((n.target.id, n.iter))       # an element of a rooted container is rooted
        elif isinstance(n, ast.NamedExpr) and isinstance(n.target, ast.Name):
            binds.append((n.target.id, n.value))
    aliases, changed = {}, True
    while changed:
        changed = False
        for name, v in binds:
            if name in aliases or name in roots:
                continue
            vs = [v]
            if isinstance(v, ast.IfExp):
                vs = [v.body, v.orelse]
            elif isinstance(v, ast.BoolOp):
                vs = list(v.values)
            for x in vs:
                if isinstance(x, (ast.Attribute, ast.Subscript, ast.Name)) and rooted(x, aliases) and not (
                        isinstance(x, ast.Name) and x.id in roots):
                    aliases[name] = ast.unparse(x)
                    changed = True
                    break
    out = []
    for n in ast.walk(fn):
        if isinstance(n, ast.Call) and isinstance(n.func, ast.Attribute) and n.func.attr in MUTATORS:
            e = n.func.value
            while isinstance(e, (ast.Attribute, ast.Subscript)):
                e = e.value
            if isinstance(e, ast.Name) and e.id in aliases:
                out.append((n.lineno, '%s (alias of %s)' % (e.id, aliases[e.id]), 'call .%s()' % n.func.attr))
        ts = []
        if isinstance(n, (ast.Assign, ast.Delete)):
            ts = n.targets
        elif isinstance(n, ast.AugAssign):
            ts = [n.target]
        for t in ts:
            for e0 in (t.elts if isinstance(t, (ast.Tuple, ast.List)) else [t]):
                e = e0
                while isinstance(e, (ast.Attribute, ast.Subscript)):
                    e = e.value
                if isinstance(e, ast.Name) and e.id in aliases and e is not e0:
                    out.append((n.lineno, '%s (alias of %s)' % (e.id, aliases[e.id]), 'store'))
        if isinstance(n, ast.AugAssign) and isinstance(n.target, ast.Name) and n.target.id in aliases:
            v = n.value
            numeric = isinstance(v, ast.Constant) or (isinstance(v, ast.Call) and isinstance(v.func, ast.Name) and v.func.id in ('len', 'int', 'str', 'ord')) \
                or isinstance(v, (ast.JoinedStr, ast.BinOp)) and not any(isinstance(x, (ast.List, ast.ListComp)) for x in ast.walk(v))
            if not numeric:
                out.append((n.lineno, '%s (alias of %s)' % (n.target.id, aliases[n.target.id]), 'augmented assignment (in place for lists)'))
    return out


def _mutable_defaults(fn):
    """a mutable default-argument object that the function itself mutates (or hands to a mutating call / stores away):
    the one object is then shared by all calls"""
    out = []
    pos = fn.args.args[len(fn.args.args) - len(fn.args.defaults):]
    pairs = list(zip(pos, fn.args.defaults)) + [(a, d) for a, d in zip(fn.args.kwonlyargs, fn.args.kw_defaults) if d is not None]
    for a, d in pairs:
        if not (isinstance(d, (ast.List, ast.Dict, ast.Set, ast.ListComp, ast.DictComp, ast.SetComp)) or
                (isinstance(d, ast.Call) and isinstance(d.func, ast.Name) and d.func.id in ('list', 'dict', 'set'))):
            continue
        name = a.arg
        for n in ast.walk(fn):
            hit = None
            if isinstance(n, ast.Call) and isinstance(n.func, ast.Attribute) and n.func.attr in MUTATORS and \
                    isinstance(n.func.value, ast.Name) and n.func.value.id == name:
                hit = 'mutated by .%s()' % n.func.attr
            elif isinstance(n, (ast.Assign, ast.AugAssign, ast.Delete)):
                ts = n.targets if isinstance(n, (ast.Assign, ast.Delete)) else [n.target]
                for t in ts:
                    if isinstance(t, ast.Subscript) and isinstance(t.value, ast.Name) and t.value.id == name:
                        hit = 'subscript store'
                    if isinstance(n, ast.AugAssign) and isinstance(t, ast.Name) and t.id == name:
                        hit = 'augmented assignment'
                if isinstance(n, ast.Assign) and isinstance(n.value, ast.Name) and n.value.id == name and any(
                        isinstance(t, ast.Attribute) for t in n.targets):
                    hit = 'stored into an attribute'
            if hit:
                out.append((n.lineno, '%s=%s' % (name, ast.unparse(d)), 'mutable default argument ' + hit))
    return out


def register(reg):
    units = {}

    def load(root, rel):
        path = os.path.join(root, rel)
        if not os.path.isfile(path):
            raise EngineError('shared-state module %s is missing from the tree' % rel)
        return ast.parse(open(path, encoding='utf-8').read())

    def lemma_frames(it):
        ctx = it.ctx
        root = it.program.root
        n_methods = 0
        for rel, classes in sorted(SHARED.items()):
            tree = load(root, rel)
            module_names = set()
            for st in tree.body:
                if isinstance(st, ast.Assign):
                    for t in st.targets:
                        if isinstance(t, ast.Name):
                            module_names.add(t.id)
            found = {c.name: c for c in ast.walk(tree) if isinstance(c, ast.ClassDef)}
            for cn in classes:
                ctx.prove('frame:%s: the class is present' % cn, cn in found, 'frame', src=rel)
                if cn not in found:
                    continue
                builders = set(BUILDERS.get(cn, ['__init__']))
                for fn in found[cn].body:
                    if not isinstance(fn, ast.FunctionDef):
                        continue
                    n_methods += 1
                    bad = _mutable_defaults(fn)
                    if fn.name not in builders:
                        w = _self_writes(fn)
                        if (rel, cn, fn.name) == MEMO[:3]:
                            w = [x for x in w if x[1].split('.', 1)[1] != MEMO[3]]
                        bad += w
                        bad += _alias_writes(fn)
                    bad += _global_writes(fn, module_names)
                    ctx.prove('frame:%s.%s: writes nothing that outlives the call' % (cn, fn.name), not bad, 'frame',
                              src='%s: %s' % (rel, '; '.join('line %d: %s (%s)' % b for b in bad[:6])))
            # module-level functions of the same file
            for fn in tree.body:
                if isinstance(fn, ast.FunctionDef):
                    n_methods += 1
                    bad = _mutable_defaults(fn) + _global_writes(fn, module_names)
                    if rel.endswith('_stdarg.py') and fn.name == 'get_standard_argument_parser':
                        bad = [b for b in bad if b[1] != '_std_arg_parser_instances']
                    ctx.prove('frame:%s:%s: writes no module-level state' % (os.path.basename(rel), fn.name), not bad, 'frame',
                              src='%s: %s' % (rel, '; '.join('line %d: %s (%s)' % b for b in bad[:6])))
        ctx.prove('frame: methods of shared classes analysed', n_methods >= 120, 'frame', src='%d methods' % n_methods)

        # builders are called only while the object is under construction
        pkg = os.path.join(root, 'pylatexenc')
        bad = []
        for cn, blds in BUILDERS.items():
            if cn != 'ParsingState':
                continue
            names = set(blds) - {'__init__'}
            for dp, _dn, fns in os.walk(pkg):
                for f in fns:
                    if not f.endswith('.py'):
                        continue
                    rel = os.path.relpath(os.path.join(dp, f), root)
                    tree = ast.parse(open(os.path.join(dp, f), encoding='utf-8').read())
                    for cls in [c for c in ast.walk(tree) if isinstance(c, ast.ClassDef)] + [tree]:
                        for fn in getattr(cls, 'body', []):
                            if not isinstance(fn, ast.FunctionDef):
                                continue
                            for n in ast.walk(fn):
                                if isinstance(n, ast.Call) and isinstance(n.func, ast.Attribute) and n.func.attr in names:
                                    inside = isinstance(cls, ast.ClassDef) and cls.name == cn and fn.name in blds
                                    if not inside:
                                        bad.append('%s:%d %s()' % (rel, n.lineno, n.func.attr))
        ctx.prove('frame: the state-building methods of ParsingState are called only from its constructor', not bad, 'frame',
                  src='other call sites: %r' % bad[:8])

        # exception (i): the process-wide cache
        tree = load(root, 'pylatexenc/latexnodes/parsers/_stdarg.py')
        fn = [f for f in tree.body if isinstance(f, ast.FunctionDef) and f.name == 'get_standard_argument_parser'][0]
        stores = [n for n in ast.walk(fn) if isinstance(n, ast.Assign) and any(
            isinstance(t, ast.Subscript) and isinstance(t.value, ast.Name) and t.value.id == '_std_arg_parser_instances' for t in n.targets)]
        ok = len(stores) == 1
        if ok:
            val = stores[0].value
            made = [n for n in ast.walk(fn) if isinstance(n, ast.Assign) and isinstance(val, ast.Name) and
                    any(isinstance(t, ast.Name) and t.id == val.id for t in n.targets)]
            def _is_fresh_parser(v):
                # LatexStandardArgumentParser(...) built from arg_spec and kwargs only, however the call is spelled
                if not (isinstance(v, ast.Call) and isinstance(v.func, ast.Name) and v.func.id == 'LatexStandardArgumentParser'):
                    return False
                names = {x.id for a in list(v.args) + [k.value for k in v.keywords] for x in ast.walk(a) if isinstance(x, ast.Name)}
                return names == {'arg_spec', 'kwargs'} and any(k.arg is None for k in v.keywords)
            ok = (len(made) == 1 and _is_fresh_parser(made[0].value)) or _is_fresh_parser(val)
            params = [a.arg for a in fn.args.args] + ([fn.args.kwarg.arg] if fn.args.kwarg else [])
            ok = ok and params == ['arg_spec', 'kwargs']
            # the key under which it is stored is computed from arg_spec and kwargs only (data flow through the function's
            # locals; how it is spelled does not matter).  That equal arguments give the same instance and different ones
            # different instances is the cache lemma of C02 (unit get_standard_argument_parser, shared into this check),
            # which runs the real function.
            key = stores[0].targets[0].slice
            assigned = {}
            for n in ast.walk(fn):
                if isinstance(n, ast.Assign):
                    for t in n.targets:
                        if isinstance(t, ast.Name):
                            assigned.setdefault(t.id, []).append(n.value)
            bound_inside = set()
            for n in ast.walk(fn):
                if isinstance(n, ast.Lambda):
                    bound_inside |= {a.arg for a in n.args.args}
                if isinstance(n, ast.comprehension):
                    bound_inside |= {x.id for x in ast.walk(n.target) if isinstance(x, ast.Name)}
            import builtins as _b
            seen, todo, free = set(), [key], set()
            while todo:
                e = todo.pop()
                for x in ast.walk(e):
                    if isinstance(x, ast.Name) and isinstance(x.ctx, ast.Load) and x.id not in seen:
                        seen.add(x.id)
                        if x.id in assigned:
                            todo.extend(assigned[x.id])
                        elif x.id not in bound_inside and not hasattr(_b, x.id):
                            free.add(x.id)
            # a local that is also updated in place (d.update(kwargs)) takes the arguments of that call into account
            for n in ast.walk(fn):
                if isinstance(n, ast.Call) and isinstance(n.func, ast.Attribute) and isinstance(n.func.value, ast.Name) \
                        and n.func.value.id in seen and n.func.attr in ('update', 'append', 'extend', 'add'):
                    for a in n.args:
                        free |= {x.id for x in ast.walk(a) if isinstance(x, ast.Name) and x.id not in assigned and x.id not in bound_inside
                                 and not hasattr(_b, x.id)}
            ok = ok and free <= {'arg_spec', 'kwargs'} and 'arg_spec' in free
        ctx.prove('frame-exception(i): the only write to the parser cache stores LatexStandardArgumentParser(arg_spec, **kwargs) under a key '
                  'built from arg_spec and kwargs', ok, 'frame')

        # exception (ii): the memo of LatexStandardArgumentParser.parse
        cls = [c for c in ast.walk(tree) if isinstance(c, ast.ClassDef) and c.name == 'LatexStandardArgumentParser'][0]
        meths = {f.name: f for f in cls.body if isinstance(f, ast.FunctionDef)}
        memo_stores = [n for n in ast.walk(meths['parse']) if isinstance(n, ast.Assign) and any(
            isinstance(t, ast.Attribute) and t.attr == '_arg_parser' for t in n.targets)]
        def _is_own_instance_call(v):
            # self.get_arg_parser_instance(<only attributes of self>), however the call is spelled
            if not (isinstance(v, ast.Call) and isinstance(v.func, ast.Attribute) and v.func.attr == 'get_arg_parser_instance'
                    and isinstance(v.func.value, ast.Name) and v.func.value.id == 'self'):
                return False
            argnames = {x.id for a in list(v.args) + [k.value for k in v.keywords] for x in ast.walk(a) if isinstance(x, ast.Name)}
            return argnames <= {'self'}
        ok = len(memo_stores) == 1 and _is_own_instance_call(memo_stores[0].value)
        memo_arg_reads = {x.attr for a in (list(memo_stores[0].value.args) + [k.value for k in memo_stores[0].value.keywords] if ok else [])
                          for x in ast.walk(a) if isinstance(x, ast.Attribute) and isinstance(x.value, ast.Name) and x.value.id == 'self'}
        reads = {n.attr for n in ast.walk(meths['get_arg_parser_instance']) if isinstance(n, ast.Attribute) and
                 isinstance(n.value, ast.Name) and n.value.id == 'self' and isinstance(n.ctx, ast.Load)}
        written_elsewhere = set()
        for nm, f in meths.items():
            if nm != '__init__':
                written_elsewhere |= {x[1].split('.', 1)[1] for x in _self_writes(f)}
        ctx.prove('frame-exception(ii): the memoised argument parser is get_arg_parser_instance(self.arg_spec), which reads only fields '
                  'that no method but the constructor writes', ok and not ((reads | memo_arg_reads) & written_elsewhere) and '_arg_parser' not in reads,
                  'frame', src='reads %r; written outside __init__: %r' % (sorted(reads), sorted(written_elsewhere)))

        # parsing never calls a mutator of the context database
        muts = set(BUILDERS['LatexContextDb']) - {'__init__', 'freeze'}
        bad = []
        for sub in ('latexnodes', 'macrospec/_argumentsparser.py', 'macrospec/_macrocallparser.py', 'macrospec/_environmentbodyparser.py',
                    'macrospec/_specclasses.py'):
            p = os.path.join(pkg, sub)
            files = [p] if p.endswith('.py') else [os.path.join(dp, f) for dp, _d, fs in os.walk(p) for f in fs if f.endswith('.py')]
            for f in files:
                tree = ast.parse(open(f, encoding='utf-8').read())
                for n in ast.walk(tree):
                    if isinstance(n, ast.Call) and isinstance(n.func, ast.Attribute) and n.func.attr in muts:
                        bad.append('%s:%d %s()' % (os.path.relpath(f, root), n.lineno, n.func.attr))
        ctx.prove('frame: no parser, collector, token reader or specification calls a mutator of the context database', not bad, 'frame',
                  src='call sites: %r' % bad[:8])
    units['shared-state-frames'] = LemmaUnit('shared-state-frames', lemma_frames, functions=[
        'pylatexenc.' + rel[len('pylatexenc/'):-3].replace('/', '.') for rel in sorted(SHARED)])

    import contracts
    for k in units:
        contracts.REPLAYERS[k] = replay
    contracts.EXTRA_ASSUMPTIONS['C09'] = [
        "the frame analysis is syntactic (stores / mutating calls through attributes of self and module-level names); aliasing of a shared "
        "container through a local variable is not tracked",
        "objects created during a parse (walker, reader, collector, *ParserInfo, call parsers, VerbatimInfo, nodes, parsed arguments) are "
        "not shared between parses and are excluded; user callbacks are assumed not to keep state",
        "determinism lemma: reads only arguments and immutable shared state + writes only to objects allocated in the call => equal "
        "results for equal arguments (stated); hash-order dependence excluded (A-LIB)"]
    return {'C09': units}


NATIVE = PRELUDE + r'''
import logging, warnings, subprocess, json, os
logging.disable(logging.CRITICAL); warnings.simplefilter("ignore")
from pylatexenc.latexwalker import LatexWalker, get_default_latex_context_db, LatexWalkerError
from pylatexenc.macrospec import MacroSpec, EnvironmentSpec, LatexContextDb
from pylatexenc.latexnodes.parsers import LatexGeneralNodesParser
from pylatexenc.latexnodes import nodes as N

def dump(n):
    if n is None: return None
    if isinstance(n, (list, N.LatexNodeList)): return [dump(x) for x in n]
    d = [type(n).__name__, n.pos, n.pos_end]
    for f in ("chars", "comment", "macroname", "environmentname", "specials_chars", "delimiters", "displaytype"):
        if hasattr(n, f): d.append([f, getattr(n, f)])
    ps = n.parsing_state
    d.append(["state", bool(ps.in_math_mode), ps.math_mode_delimiter, [list(x) for x in ps.latex_group_delimiters]])
    if getattr(n, "nodeargd", None) is not None and hasattr(n.nodeargd, "argnlist"): d.append(["args", dump(n.nodeargd.argnlist)])
    if hasattr(n, "nodelist"): d.append(["nodelist", dump(n.nodelist)])
    return d

def _definemacro(parsed_node, latex_walker, **kwargs):
    from pylatexenc.macrospec import ParsingStateDeltaExtendLatexContextDb
    arg = parsed_node.nodeargd.argnlist[0]
    name = "".join(n.chars for n in arg.nodelist if n.isNodeType(N.LatexCharsNode))
    return ParsingStateDeltaExtendLatexContextDb(extend_latex_context=dict(macros=[MacroSpec(name, "{")]))

def custom_db():
    db = get_default_latex_context_db()
    # an auto-named first category, as left by add_context_category(None, ...): extended_with() merges later definitions into it
    db.add_context_category(None, prepend=True, macros=[MacroSpec("definemacro", "{", make_after_parsing_state_delta=_definemacro)])
    db.add_context_category("c09", insert_after=db.category_list[0], macros=[
        MacroSpec("mp", ["t+", "{"]), MacroSpec("mn", ["t-", "{"]), MacroSpec("dpar", ["d()", "{"]), MacroSpec("dang", ["d<>", "{"]),
        MacroSpec("vv", ["v"]), MacroSpec("vb", ["v||"]), MacroSpec("mo", "[{"), MacroSpec("ms", "*{"), MacroSpec("mt", ["t+", "{"]),
        MacroSpec("md", ["m", "d<>"]), MacroSpec("me", ["m", "e{^_}"])], environments=[EnvironmentSpec("ea", "[{")])
    return db

DOCS = [r"\vv{a{b}c} z", r"\vv|x| \vb|y|", r"\mo[a[b]]{c} $x$", r"\ms*{a}\ms{b}", r"\mt+{a} \md{a}<b>", r"\me{x}^a_b",
        r"\begin{ea}[o]{m} body $f$ \end{ea}", r"\textbf{a} \[ x \] % c" "\n", r"\verb|q| \item[x] y", r"\section*[s]{t} \\*[1pt]",
        r"\vv{p{q}r}", r"a \begin{verbatim}v\end{verbatim} b", r"\mp+{a} \mp-{a} \dpar(u){v}", r"\mn-{b} \mn+{b} \dang<u>{v}",
        r"\begin{foo}a \textbf{b}\end{foo} t", r"\begin{bar}c\end{bar} \emph{d}", r"\definemacro{foo} \foo{a} \baz{b}",
        r"\foo{c} \definemacro{baz} \baz{d}"]

def parse(doc, db, tol):
    try:
        nl, _ = LatexWalker(doc, latex_context=db, tolerant_parsing=tol).parse_content(LatexGeneralNodesParser())
        return dump(nl)
    except LatexWalkerError as e:
        return ["error", type(e).__name__, getattr(e, "pos", None)]

def fresh(j, tol):
    """the same parse as the first thing a fresh interpreter does"""
    r = subprocess.run([sys.executable, os.path.abspath(__file__), "--fresh", str(j), "1" if tol else "0"], capture_output=True, text=True,
                       env=dict(os.environ))
    lines = r.stdout.strip().splitlines()
    if not lines:
        raise RuntimeError("fresh interpreter failed: " + r.stderr[-300:])
    return json.loads(lines[-1])

if len(sys.argv) > 3 and sys.argv[1] == "--fresh":
    print(json.dumps(parse(DOCS[int(sys.argv[2])], custom_db(), sys.argv[3] == "1")))
    sys.exit(0)

def search():
    import itertools, copy
    db = custom_db()
    def snap(db):
        return sorted((c, sorted(m.macroname for m in db.iter_macro_specs([c]))) for c in db.categories()), db._autogen_category_counter
    before = snap(db)
    ref = {}
    for tol in (False, True):
        for j in range(len(DOCS)):
            ref[(j, tol)] = fresh(j, tol)
    # histories: every ordered pair of documents, sharing one process, one database and the cached argument parsers
    for tol in (False, True):
        for a, b in itertools.product(range(len(DOCS)), repeat=2):
            parse(DOCS[a], db, tol)
            got = json.loads(json.dumps(parse(DOCS[b], db, tol)))
            if got != ref[(b, tol)]:
                return "after parsing %r, parsing %r (tolerant=%r) gives %r; in a fresh interpreter it gives %r" % (DOCS[a], DOCS[b], tol, got, ref[(b, tol)])
    after = snap(db)
    if before != after:
        return "parsing modified the context database: categories / macro names before %r, after %r" % (before, after)
    return None
'''


def replay(o, model):
    return NATIVE + '''
m = search()
if m: reproduced(m)
not_reproduced()
'''
