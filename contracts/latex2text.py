"""latex2text/__init__.py -- rendering layer contracts for C03 (documented rules), C07 (totality of the
renderers: absence of run-time errors) and C12 (content filters).

Children of the node being rendered are abstract: `self.node_to_text(child)`, `self.nodelist_to_text(list)` and
`self._groupnodecontents_to_text(x)` are used through their contracts "returns some string, raises nothing"
(TEXT(child): an unknown string determined by the child).  Every renderer is then verified to be total and
to equal its rule function (decision tables from the class documentation):
  comment : '%'+comment (+ newline / post-space) iff keep_comments, four-way table with strict 'after-comment'
  chars   : copied; whitespace-only chars dropped unless strict 'between-latex-constructs'
  group   : transparent, or delimiters kept when keep_braced_groups and len >= minlen
  math    : 4 x {inline, display, environment}: remove -> '', verbatim -> source unchanged (display: on its own
            lines), with-delimiters -> delims around text, text -> text (display: indented block)
  macro/environment/specials : unknown -> '' / body / the characters; discard -> ''; replacement string without
            '%' -> that string; callable -> its result ('' for a falsy result); '%'-substitution never raises
The documented text database itself (symbol tables) is data; table obligations check each row's callable /
format string against the argument signature the walker database guarantees (C07), and that every math
environment of the walker database is rendered by the equation formatter (C12).
"""
import ast

import z3

from pyvc import values as V
from pyvc.values import Obj, PyList, PyDict, AbsVal, Builtin, BoundMethod, Func, zint, simp, z_and, z_or, z_not
from pyvc.contracts import (Contract, LoopContract, FunctionUnit, LemmaUnit, sym_int, sym_str, sym_bool, new_obj,
                            resolve_class, resolve_function)
from pyvc.smt import EngineError, forall_range
from pyvc.interp import PyExc
from pyvc.replay import PRELUDE, model_str

L2T = 'pylatexenc.latex2text.LatexNodes2Text'
NODES = 'pylatexenc.latexnodes.nodes.'
MODES = ['text', 'with-delimiters', 'verbatim', 'remove']

A_L2T = [
    "A-CHILD: children of the node being rendered enter through the interface contracts of node_to_text / nodelist_to_text / "
    "_groupnodecontents_to_text ('returns some string determined by the child, raises nothing'), each verified by its own unit",
    "A-ARITY: renderer units use argument lists of at most 3 entries (concrete spines; the list comprehensions are element-wise)",
    "A-TABLE: the rows of the default text / walker databases are obtained by importing the tree under check in CPython",
    "comprehensions over a symbolic string are evaluated for one arbitrary character (element expression assumed free of side effects)",
    "user callables given as simplify_repl return a string or None and raise nothing (documented signature)"]

TXC = z3.Function('text_of_chars', z3.IntSort(), z3.ArraySort(z3.IntSort(), z3.IntSort()))
TXL = z3.Function('text_of_len', z3.IntSort(), z3.IntSort())


def text_of(term):
    """TEXT(x): the (unknown) rendering of the abstract child / list with id `term`"""
    t = zint(term)
    return V.StrBase('TEXT(%s)' % t, arr=TXC(t), length=z3.If(TXL(t) >= 0, TXL(t), 0)).whole()


def mk_child(it, name, kind='node'):
    """an abstract child node: only its identity and its verbatim source are known"""
    t = z3.Int(name)
    verb = sym_str(it, name + '.latex_verbatim', register=False)
    flags = {}

    def is_type(it2, self, a, k):
        cn = a[0].name
        if cn not in flags:
            flags[cn] = it2.ctx.fresh_bool('%s.is%s' % (name, cn))
        return flags[cn]
    return AbsVal(t, kind, methods={'isNodeType': is_type, 'latex_verbatim': lambda it2, sf, a, k: verb},
                  attrs={'truth': lambda it2, sf: True})


def mk_l2t(it, math_mode=None, fill=False):
    ctx = it.ctx
    sls = PyDict({'between-macro-and-chars': sym_bool(it, 'strict.between-macro-and-chars'),
                  'between-latex-constructs': sym_bool(it, 'strict.between-latex-constructs'),
                  'after-comment': sym_bool(it, 'strict.after-comment'),
                  'in-equations': None})
    mm = math_mode if math_mode is not None else MODES[ctx.choose(4, 'math_mode')]
    o = new_obj(it, L2T, {'math_mode': mm, 'keep_comments': sym_bool(it, 'keep_comments'),
                          'keep_braced_groups': sym_bool(it, 'keep_braced_groups'),
                          'keep_braced_groups_minlen': sym_int(it, 'keep_braced_groups_minlen'),
                          'fill_text': (None if not fill else sym_int(it, 'fill_text', lo=1)),
                          'strict_latex_spaces': sls, 'tex_input_directory': None, 'strict_input': True}, tag='self')
    o.open = True
    return o


_DB_ROWS = {}

DUMP_DB = r"""
import json, sys, logging
logging.disable(logging.CRITICAL)
from pylatexenc.latex2text import get_default_latex_context_db as tdb
from pylatexenc.latexwalker import get_default_latex_context_db as wdb
t, w = tdb(), wdb()
def sig(kind, name):
    sp = {'macro': w.get_macro_spec, 'env': w.get_environment_spec, 'specials': w.get_specials_spec}[kind](name)
    if sp is None: return None
    out = []
    for a in (sp.arguments_spec_list or []):
        p = getattr(a, 'parser', a)
        out.append(p if isinstance(p, str) else type(p).__name__)
    return out
rows = []
for cat in t.categories():
    for kind, specs in (('macro', t.iter_macro_specs([cat])), ('env', t.iter_environment_specs([cat])),
                        ('specials', t.iter_specials_specs([cat]))):
        for sp in specs:
            name = getattr(sp, 'macroname', None) or getattr(sp, 'environmentname', None) or getattr(sp, 'specials_chars', None)
            r = sp.simplify_repl
            row = dict(category=cat, kind=kind, name=name, walker=sig(kind, name), discard=bool(getattr(sp, 'discard', False)))
            if callable(r):
                c = r.__code__
                row.update(callable=[c.co_filename.split('pylatexenc/')[-1], c.co_firstlineno, c.co_name])
            else:
                row.update(string=r)
            rows.append(row)
wrows = []
for cat in w.categories():
    for e in w.iter_environment_specs([cat]):
        wrows.append(dict(kind='env', name=e.environmentname, is_math_mode=bool(getattr(e, 'is_math_mode', False))))
json.dump(dict(text=rows, walker=wrows), sys.stdout)
"""


def db_rows(root=None):
    """rows of the default text database and their walker-database signatures, obtained by importing the tree
    under check in CPython (assumption A-TABLE)"""
    import json, os, subprocess, sys
    root = root or os.environ.get('PYVC_REPO', '/repo')
    if root not in _DB_ROWS:
        r = subprocess.run([sys.executable, '-c', DUMP_DB], capture_output=True, text=True,
                           env=dict(os.environ, PYTHONPATH=root), cwd='/')
        if r.returncode != 0:
            raise EngineError('cannot import the default databases of the tree under check: ' + r.stderr[-400:])
        _DB_ROWS[root] = json.loads(r.stdout)
    return _DB_ROWS[root]


def register(reg):
    import contracts
    units = {}

    # ---- the recursive entry points, as seen from a renderer (interface contracts) -----------------------------------
    def rendered(it, x):
        if x is None:
            return ''
        if isinstance(x, AbsVal):
            return text_of(x.term)
        if isinstance(x, PyList):
            ids = it.ctx.ghost.setdefault('list_ids', {})
            if id(x) not in ids:
                ids[id(x)] = (x, it.ctx.fresh_int('listid'))
            return text_of(ids[id(x)][1])
        if isinstance(x, Obj) or hasattr(x, 'pyvc_seq'):
            ids = it.ctx.ghost.setdefault('list_ids', {})
            if id(x) not in ids:
                ids[id(x)] = (x, it.ctx.fresh_int('objid'))
            return text_of(ids[id(x)][1])
        raise EngineError('rendering of %r' % (x,))
    reg.spec('TEXT')(rendered)
    reg.spec('chars_all_space')(lambda it, x: V.z_and(V.str_all(it.ctx, x, lambda c: V.char_pred('isspace', c), memo='isspace')))
    def render_list(it, env):
        it.ctx.ghost['policy_at_render'] = env.vars['self'].fields.get('strict_latex_spaces')
        return rendered(it, env.vars['nodelist'])
    reg.spec('policy_at_render')(lambda it: it.ctx.ghost.get('policy_at_render'))
    reg.add(Contract(L2T + '.nodelist_to_text', result_make=render_list,
                     modifies=[], note='interface: some string determined by the list; verified by its own unit'))
    def logged(name, var):
        def mk(it, env):
            it.ctx.ghost.setdefault('render_calls', []).append((name, env.vars[var]))
            return rendered(it, env.vars[var])
        return mk
    reg.add(Contract(L2T + '.node_to_text', result_make=logged('node_to_text', 'node'),
                     modifies=[], note='interface: some string determined by the node; verified by its own unit'))
    reg.add(Contract(L2T + '._groupnodecontents_to_text', result_make=logged('_groupnodecontents_to_text', 'groupnode'),
                     modifies=[], note='interface: some string determined by the argument node'))

    def mknode(it, cls, **f):
        base = {'pos': None, 'pos_end': None, 'parsing_state': None, 'latex_walker': None}
        base.update(f)
        o = new_obj(it, NODES + cls, base, tag='node')
        return o

    # ---- comment_node_to_text (C03, C12a) ----------------------------------------------------------------------------------
    def setup_comment(it):
        n = mknode(it, 'LatexCommentNode', comment=sym_str(it, 'comment'), comment_post_space=sym_str(it, 'comment_post_space'))
        return {'self': mk_l2t(it, 'text'), 'node': n}
    AC = "self.strict_latex_spaces['after-comment']"
    c_cm = reg.add(Contract(
        L2T + '.comment_node_to_text', setup=setup_comment, result_type='str',
        ensures=[('comment-text-never-appears-without-keep-comments: strict',
                  'implies(not self.keep_comments and %s, result == "")' % AC),
                 ('comment-text-never-appears-without-keep-comments: only its trailing space is kept',
                  'implies(not self.keep_comments and not %s, result == node.comment_post_space)' % AC),
                 ('every-comment-appears-with-keep-comments',
                  "implies(self.keep_comments and not %s, result == '%%' + node.comment + node.comment_post_space)" % AC),
                 ('strict-after-comment-ends-the-kept-comment-with-one-newline',
                  "implies(self.keep_comments and %s and node.comment_post_space != '', result == '%%' + node.comment + '\\n')" % AC),
                 ('strict-after-comment-before-a-paragraph-break-or-end-of-input',
                  "implies(self.keep_comments and %s and node.comment_post_space == '', result == '%%' + node.comment)" % AC)],
        modifies=[]))
    units['comment_node_to_text'] = FunctionUnit(c_cm)


    # ---- chars_node_to_text ---------------------------------------------------------------------------------------------
    def setup_chars(it):
        return {'self': mk_l2t(it, 'text', fill=(it.ctx.choose(2, 'fill_text') == 1)), 'node': mknode(it, 'LatexCharsNode', chars=sym_str(it, 'chars')),
                'textcol': sym_int(it, 'textcol', lo=0)}
    BLC = "self.strict_latex_spaces['between-latex-constructs']"
    c_ch = reg.add(Contract(
        L2T + '.chars_node_to_text', setup=setup_chars, result_type='str',
        ensures=[('text-is-copied', 'implies(not self.fill_text and (%s or not chars_all_space(node.chars)), result == node.chars)' % BLC),
                 ('whitespace-only-chars-dropped-unless-strict',
                  'implies(not self.fill_text and not %s and chars_all_space(node.chars), result == "")' % BLC)],
        modifies=[]))
    units['chars_node_to_text'] = FunctionUnit(c_ch)

    # ---- group_node_to_text ------------------------------------------------------------------------------------------------
    def setup_group(it):
        body = None if it.ctx.choose(2, 'group body') == 0 else mk_child(it, 'group_body', 'nodelist')
        n = mknode(it, 'LatexGroupNode', nodelist=body, delimiters=(sym_str(it, 'open_delim'), sym_str(it, 'close_delim')))
        return {'self': mk_l2t(it, 'text'), 'node': n}
    c_gr = reg.add(Contract(
        L2T + '.group_node_to_text', setup=setup_group, result_type='str',
        ensures=[('transparent-by-default',
                  'implies(not (self.keep_braced_groups and len(TEXT(node)) >= self.keep_braced_groups_minlen), result == TEXT(node))'),
                 ('delimiters-kept-when-asked',
                  'implies(self.keep_braced_groups and len(TEXT(node)) >= self.keep_braced_groups_minlen, '
                  'result == node.delimiters[0] + TEXT(node) + node.delimiters[1])')],
        modifies=[]))
    units['group_node_to_text'] = FunctionUnit(c_gr)

    # ---- math_node_to_text (C03, C12b): 4 modes x {inline, display, environment} ----------------------------------------------
    def setup_math(it):
        ctx = it.ctx
        l2t = mk_l2t(it)
        ie = ctx.choose(3, "strict_latex_spaces['in-equations']")
        l2t.fields['strict_latex_spaces'].items['in-equations'] = [None, 'based-on-source', True][ie]
        kind = ctx.choose(3, 'math construct')
        body = mk_child(it, 'math_body', 'nodelist')
        src = sym_str(it, 'source')
        if kind == 2:
            n = mknode(it, 'LatexEnvironmentNode', environmentname=sym_str(it, 'environmentname'), nodelist=body, nodeargd=None)
        else:
            n = mknode(it, 'LatexMathNode', displaytype=('inline' if kind == 0 else 'display'), nodelist=body,
                       delimiters=(sym_str(it, 'open_delim'), sym_str(it, 'close_delim')))
        w = new_obj(it, 'pylatexenc.latexwalker._walker.LatexWalker', {'s': src}, tag='latex_walker')
        n.fields['latex_walker'] = w
        n.fields['pos'], n.fields['pos_end'] = 0, V.slen(src)
        return {'self': l2t, 'node': n}
    def _is_env(node):
        return isinstance(node, Obj) and node.cls.name == 'LatexEnvironmentNode'
    reg.spec('is_env')(lambda it, node: _is_env(node))
    reg.spec('is_display')(lambda it, node: _is_env(node) or it.truth_term(it.equal_term(node.fields['displaytype'], 'display')))
    reg.spec('SRC')(lambda it, node: it.call_method(node, 'latex_verbatim', [], {}))
    reg.spec('stripped')(lambda it, x: it.B.str_strip(it, x))
    PSD = 'pylatexenc.latex2text._parse_strict_latex_spaces_dict'

    def parsed_policy(it, env):
        v = env.vars['strict_latex_spaces']
        d = PyDict({k: sym_bool(it, 'in-equations.' + k, register=False) for k in
                    ('between-macro-and-chars', 'between-latex-constructs', 'after-comment')})
        d.items['in-equations'] = None
        it.ctx.ghost['parsed_policy'] = (v, d)
        return d
    reg.spec('parsed_policy_of')(lambda it, v: it.ctx.ghost['parsed_policy'][1] if it.ctx.ghost.get('parsed_policy') is not None
                                 and it.ctx.ghost['parsed_policy'][0] == v else None)
    c_psd_iface = reg.add(Contract(PSD, result_make=parsed_policy, modifies=[],
                                   requires=[('a-documented-policy-value', "strict_latex_spaces is None or "
                                              "isinstance(strict_latex_spaces, (bool, dict)) or strict_latex_spaces in "
                                              "('on', 'off', 'default', 'based-on-source', 'macros', 'except-in-equations')")],
                                   note='interface: some policy dictionary; its table is verified by its own unit'))
    c_ma = reg.add(Contract(
        L2T + '.math_node_to_text', setup=setup_math, result_type='str',
        requires=[('verbatim-needs-the-source', "self.math_mode != 'verbatim' or node.latex_walker is not None")],
        ensures=[('remove-leaves-nothing', "implies(self.math_mode == 'remove', result == '')"),
                 ('verbatim-inline-is-the-source-unchanged',
                  "implies(self.math_mode == 'verbatim' and not is_display(node), result == SRC(node))"),
                 ('verbatim-display-is-the-source-unchanged-on-its-own-lines',
                  "implies(self.math_mode == 'verbatim' and is_display(node), result == '\\n' + SRC(node) + '\\n')"),
                 ('with-delimiters-inline-keeps-its-delimiters',
                  "implies(self.math_mode == 'with-delimiters' and not is_display(node), "
                  "result.startswith(node.delimiters[0]) and result.endswith(node.delimiters[1]) and "
                  "len(result) >= len(node.delimiters[0]) + len(node.delimiters[1]))"),
                 ('with-delimiters-display-keeps-its-delimiters',
                  "implies(self.math_mode == 'with-delimiters' and is_display(node) and not is_env(node), "
                  "result.startswith(node.delimiters[0]) and result.endswith(node.delimiters[1]))"),
                 ('with-delimiters-environment-keeps-begin-and-end',
                  "implies(self.math_mode == 'with-delimiters' and is_env(node), result.startswith('\\\\begin{') and "
                  "result.endswith('}'))"),
                 ('text-inline-is-the-stripped-content',
                  "implies(self.math_mode == 'text' and not is_display(node), result == stripped(TEXT(node.nodelist)))"),
                 ('text-display-is-an-indented-block',
                  "implies(self.math_mode == 'text' and is_display(node), "
                  "result == '\\n    ' + stripped(TEXT(node.nodelist)).replace('\\n', '\\n    ') + '\\n')"),
                 ('with-delimiters-display-is-the-content-on-its-own-lines-between-the-delimiters',
                  "implies(self.math_mode == 'with-delimiters' and is_display(node) and not is_env(node), "
                  "result == node.delimiters[0] + '\\n' + stripped(TEXT(node.nodelist)) + '\\n' + node.delimiters[1])"),
                 ('with-delimiters-inline-is-the-content-between-the-delimiters',
                  "implies(self.math_mode == 'with-delimiters' and not is_display(node), "
                  "result == node.delimiters[0] + stripped(TEXT(node.nodelist)) + node.delimiters[1])"),
                 ('internal:equation-contents-are-rendered-under-the-in-equations-policy',
                  "implies(self.math_mode in ('text', 'with-delimiters'), "
                  "policy_at_render() is (self.strict_latex_spaces if self.strict_latex_spaces['in-equations'] is None else "
                  "parsed_policy_of(self.strict_latex_spaces['in-equations'])))"),
                 ],
        modifies=[]))
    units['math_node_to_text'] = FunctionUnit(c_ma, inline={L2T + '._fmt_indented_block', 'pylatexenc.latex2text._PushEquationContext.__init__',
        'pylatexenc._util.PushPropOverride.__init__', 'pylatexenc._util.PushPropOverride.__enter__', 'pylatexenc._util.PushPropOverride.__exit__'})


    # ---- text specs, argument objects, abstract replacement callables -----------------------------------------------------------
    PARGS = 'pylatexenc.latexnodes._parsedargs.ParsedArguments'
    TS = 'pylatexenc.latex2text.'

    if reg.lib_hook('inspect.getfullargspec') is None:
        @reg.lib('inspect.getfullargspec')
        def getfullargspec(it, fn):
            names = getattr(fn, 'argnames', None)
            if names is None and isinstance(fn, BoundMethod):
                names = [a.arg for a in fn.func.node.args.args][1:]
            if names is None and hasattr(fn, 'node'):
                names = [a.arg for a in fn.node.args.args]
            if names is None:
                raise EngineError('getfullargspec of %r' % (fn,))
            return (PyList(list(names)),)

    class ReplFn(Builtin):
        __slots__ = ('argnames',)

    def mk_callable(it, extra_name):
        """a user replacement callable f(node[, l2tobj][, macroname|environmentname|specials_chars]) -> str or None
        (documented signature); which optional parameters it declares is arbitrary"""
        ctx = it.ctx
        names = ['n']
        if ctx.choose(2, 'callable declares l2tobj') == 1:
            names.append('l2tobj')
        k = ctx.choose(3, 'callable declares a name parameter')
        if k == 1:
            names.append(extra_name)
        elif k == 2:
            names.append({'macroname': 'environmentname'}.get(extra_name, 'macroname'))   # one it will not be given

        def f(it2, a, kw):
            it2.ctx.ghost['repl_call'] = (list(a), dict(kw))
            allowed = set(names[1:])
            if len(a) != 1 or not set(kw) <= allowed or not allowed <= set(kw) | {n for n in allowed if n != 'l2tobj' and n != extra_name}:
                it2.raise_builtin('TypeError', 'wd:call[replacement callable called with the wrong arguments]')
            kind = it2.ctx.choose(3, 'callable result')
            if kind == 0:
                r = None
            elif kind == 1:
                r = ''
            else:
                r = sym_str(it2, 'callable_result', register=False)
                it2.ctx.assume(V.slen(r) >= 1)
            it2.ctx.ghost['repl_result'] = r
            return r
        fn = ReplFn('simplify_repl', f)
        fn.argnames = names
        return fn

    def mk_args(it, n, name='arg', absent='choose'):
        items = []
        for i in range(n):
            if absent == 'choose':
                a = it.ctx.choose(2, '%s%d absent' % (name, i)) == 1
            else:
                a = (i == 0 and n >= 2)       # a fixed pattern: the first of several arguments is an absent optional one
            items.append(None if a else mk_child(it, '%s%d' % (name, i)))
        return PyList(items)

    def mk_nodeargd(it, maxn=3, allow_none=True, absent='choose'):
        ctx = it.ctx
        k = ctx.choose(maxn + 1 + (1 if allow_none else 0), 'number of arguments')
        if allow_none and k == maxn + 1:
            return None
        return new_obj(it, PARGS, {'argnlist': mk_args(it, k, absent=absent), 'arguments_spec_list': PyList([None] * k)}, tag='nodeargd')

    def mk_repl(it, extra_name, kinds=('none', 'empty', 'str', 'callable')):
        k = kinds[it.ctx.choose(len(kinds), 'simplify_repl kind')]
        if k == 'none':
            return None
        if k == 'empty':
            return ''
        if k == 'str':
            r = sym_str(it, 'simplify_repl')
            it.ctx.assume(V.slen(r) >= 1)
            return r
        return mk_callable(it, extra_name)

    def mk_context(it, method, spec):
        def get(it2, sf, a, k):
            return spec
        return AbsVal(z3.Int('latex_context'), 'latex_context', methods={method: get})

    reg.spec('REPL')(lambda it: it.ctx.ghost.get('apply_result'))

    def make_applied(it, env):
        r = sym_str(it, 'applied_repl', register=False)
        it.ctx.ghost['apply_result'] = r
        it.ctx.ghost['apply_args'] = (env.vars['node'], env.vars['simplify_repl'])
        return r
    reg.spec('applied_to')(lambda it, node, repl: (it.ctx.ghost.get('apply_args') is not None and
                                                    it.ctx.ghost['apply_args'][0] is node and it.ctx.ghost['apply_args'][1] is repl))
    ASR = L2T + '.apply_simplify_repl'
    c_asr_iface = Contract(
        ASR, result_make=make_applied, modifies=[],
        requires=[('a-replacement-is-given', 'callable(simplify_repl) or len(simplify_repl) >= 1')],
        ensures=[('a-plain-string-is-used-as-it-is',
                  "implies(not callable(simplify_repl) and ('%' not in simplify_repl or len(simplify_repl) == 1), "
                  "result == simplify_repl)")],
        note='interface: some string; verified by its own unit')

    # ---- macro_node_to_text ------------------------------------------------------------------------------------------------------
    def setup_macro(it):
        ctx = it.ctx
        l2t = mk_l2t(it, 'text')
        known = ctx.choose(2, 'macro known to the text database')
        spec = None
        if known:
            spec = new_obj(it, TS + 'MacroTextSpec', {'macroname': sym_str(it, 'spec.macroname'),
                                                      'simplify_repl': mk_repl(it, 'macroname'),
                                                      'discard': sym_bool(it, 'discard')}, tag='spec')
        l2t.fields['latex_context'] = mk_context(it, 'get_macro_spec', spec)
        n = mknode(it, 'LatexMacroNode', macroname=sym_str(it, 'macroname'), nodeargd=mk_nodeargd(it),
                   macro_post_space=sym_str(it, 'macro_post_space'), spec=None)
        ctx.ghost['the_spec'] = spec
        return {'self': l2t, 'node': n}
    reg.spec('the_spec')(lambda it: it.ctx.ghost.get('the_spec'))

    @reg.spec('args_text')
    def args_text(it, node):
        """concatenated rendering of the node's arguments (absent ones contribute nothing)"""
        nd = node.fields.get('nodeargd')
        out = ''
        if nd is not None:
            for a in nd.fields['argnlist'].items:
                out = V.sconcat(out, rendered(it, a))
        return out
    c_mac = reg.add(Contract(
        L2T + '.macro_node_to_text', setup=setup_macro, result_type='str',
        ensures=[('internal:an-unknown-macro-renders-as-nothing', "implies(the_spec() is None, result == '')"),
                 ('internal:a-replacement-is-applied-to-this-node',
                  'implies(the_spec() is not None and the_spec().simplify_repl, '
                  'applied_to(node, the_spec().simplify_repl) and result == REPL())'),
                 ('internal:a-discarded-macro-contributes-nothing',
                  "implies(the_spec() is not None and not the_spec().simplify_repl and the_spec().discard, result == '')"),
                 ('internal:otherwise-the-arguments-are-rendered-in-order',
                  'implies(the_spec() is not None and not the_spec().simplify_repl and not the_spec().discard, '
                  'result == args_text(node))')],
        modifies=[]))
    units['macro_node_to_text'] = FunctionUnit(c_mac, inline={L2T + '.macro_node_to_text.get_macro_str_repl',
                                                              TS + 'MacroTextSpec.__init__'})

    # ---- environment_node_to_text -----------------------------------------------------------------------------------------------
    def setup_env(it):
        ctx = it.ctx
        l2t = mk_l2t(it, 'text')
        known = ctx.choose(2, 'environment known to the text database')
        spec = None
        if known:
            spec = new_obj(it, TS + 'EnvironmentTextSpec', {'environmentname': sym_str(it, 'spec.environmentname'),
                                                            'simplify_repl': mk_repl(it, 'environmentname'),
                                                            'discard': sym_bool(it, 'discard')}, tag='spec')
        l2t.fields['latex_context'] = mk_context(it, 'get_environment_spec', spec)
        body = None if ctx.choose(2, 'environment body') == 0 else mk_child(it, 'env_body', 'nodelist')
        n = mknode(it, 'LatexEnvironmentNode', environmentname=sym_str(it, 'environmentname'), nodeargd=mk_nodeargd(it),
                   nodelist=body, spec=None)
        ctx.ghost['the_spec'] = spec
        return {'self': l2t, 'node': n}
    c_env = reg.add(Contract(
        L2T + '.environment_node_to_text', setup=setup_env, result_type='str',
        ensures=[('internal:an-unknown-environment-renders-as-its-body', 'implies(the_spec() is None, result == TEXT(node.nodelist))'),
                 ('internal:a-replacement-is-applied-to-this-node',
                  'implies(the_spec() is not None and the_spec().simplify_repl, '
                  'applied_to(node, the_spec().simplify_repl) and result == REPL())'),
                 ('internal:a-discarded-environment-contributes-nothing',
                  "implies(the_spec() is not None and not the_spec().simplify_repl and the_spec().discard, result == '')"),
                 ('internal:otherwise-the-body-is-rendered',
                  'implies(the_spec() is not None and not the_spec().simplify_repl and not the_spec().discard, '
                  'result == TEXT(node.nodelist))')],
        modifies=[]))
    units['environment_node_to_text'] = FunctionUnit(c_env, inline={TS + 'EnvironmentTextSpec.__init__'})

    # ---- specials_node_to_text ---------------------------------------------------------------------------------------------------
    def setup_specials(it):
        ctx = it.ctx
        l2t = mk_l2t(it, 'text')
        known = ctx.choose(2, 'specials known to the text database')
        spec = None
        if known:
            # a SpecialsTextSpec as its constructor leaves it
            spec = it.call(resolve_class(it, TS + 'SpecialsTextSpec'),
                           [sym_str(it, 'spec.specials_chars')] + ([] if ctx.choose(2, 'repl given') == 0 else
                                                                    [mk_repl(it, 'specials_chars')]), {})
        l2t.fields['latex_context'] = mk_context(it, 'get_specials_spec', spec)
        n = mknode(it, 'LatexSpecialsNode', specials_chars=sym_str(it, 'specials_chars'), nodeargd=mk_nodeargd(it), spec=None)
        ctx.ghost['the_spec'] = spec
        return {'self': l2t, 'node': n}
    c_sp = reg.add(Contract(
        L2T + '.specials_node_to_text', setup=setup_specials, result_type='str',
        ensures=[('internal:unknown-specials-are-copied', 'implies(the_spec() is None, result == node.specials_chars)'),
                 ('internal:a-replacement-is-applied-to-this-node',
                  'implies(the_spec() is not None and the_spec().simplify_repl, '
                  'applied_to(node, the_spec().simplify_repl) and result == REPL())'),
                 ('internal:without-replacement-the-arguments-are-rendered-in-order',
                  'implies(the_spec() is not None and not the_spec().simplify_repl and not the_spec().discard, '
                  'result == args_text(node))')],
        modifies=[]))
    units['specials_node_to_text'] = FunctionUnit(c_sp, inline={L2T + '.specials_node_to_text.get_specials_str_repl'})

    reg.add(c_asr_iface)

    # ---- apply_simplify_repl: callable / plain string / %-substitution, never raises ---------------------------------------
    prev_hook = reg.regex_hook

    def regex_hook(it, rv, name, args, kwargs):
        if name == 'search' and rv.pattern == '(^|[^%])(%%)*%s':
            # has_percent_s: only its truth value is used
            if it.ctx.choose(2, "replacement string has a '%s' placeholder") == 1:
                return AbsVal(z3.Int('percent_s_match'), 'match', attrs={'truth': lambda it2, sf: True})
            return None
        return prev_hook(it, rv, name, args, kwargs) if prev_hook is not None else NotImplemented
    reg.regex_hook = regex_hook

    def setup_asr(it):
        ctx = it.ctx
        l2t = mk_l2t(it, 'text')
        kind = ctx.choose(3, 'node kind')
        nd = mk_nodeargd(it, maxn=2, absent='fixed')
        sk = ctx.choose(4, 'node.spec')
        spec = None
        if sk:
            asl = None if sk == 1 else PyList([None] * (1 if sk == 2 else 3))
            spec = AbsVal(z3.Int('node_spec'), 'spec', attrs={'arguments_spec_list': asl, 'truth': lambda it2, sf: True})
        if kind == 0:
            n = mknode(it, 'LatexMacroNode', macroname=sym_str(it, 'macroname'), nodeargd=nd, macro_post_space='', spec=spec)
            extra = 'macroname'
        elif kind == 1:
            body = None if ctx.choose(2, 'environment body') == 0 else mk_child(it, 'env_body', 'nodelist')
            n = mknode(it, 'LatexEnvironmentNode', environmentname=sym_str(it, 'environmentname'), nodeargd=nd, nodelist=body,
                       spec=spec)
            extra = 'environmentname'
        else:
            n = mknode(it, 'LatexSpecialsNode', specials_chars=sym_str(it, 'specials_chars'), nodeargd=nd, spec=spec)
            extra = 'specials_chars'
        repl = mk_repl(it, extra, kinds=('str', 'callable'))
        ctx.ghost['extra_name'] = extra
        return {'self': l2t, 'node': n, 'simplify_repl': repl, 'what': sym_str(it, 'what')}

    @reg.spec('callable_got')
    def callable_got(it, fn, node, l2t):
        """the callable was called once with the node, with l2tobj=self iff it declares l2tobj, and with the node's
        name iff it declares the matching name parameter"""
        call = it.ctx.ghost.get('repl_call')
        if call is None:
            return False
        a, kw = call
        extra = it.ctx.ghost['extra_name']
        ok = len(a) == 1 and a[0] is node
        ok = ok and (('l2tobj' in kw) == ('l2tobj' in fn.argnames)) and (kw.get('l2tobj', l2t) is l2t)
        ok = ok and ((extra in kw) == (extra in fn.argnames))
        if extra in kw:
            ok = ok and kw[extra] is node.fields[{'macroname': 'macroname', 'environmentname': 'environmentname',
                                                  'specials_chars': 'specials_chars'}[extra]]
        return ok and set(kw) <= {'l2tobj', extra}
    @reg.spec('arguments_rendered_as_argument_contents')
    def arguments_rendered_as_argument_contents(it, node):
        """a replacement string with placeholders gets each argument through _groupnodecontents_to_text (an argument's
        braces are its delimiters, not a group to keep), in order, padded with absent arguments up to the declared number;
        no argument is rendered any other way"""
        calls = it.ctx.ghost.get('render_calls', [])
        if any(nm == 'node_to_text' for nm, _a in calls):
            return False
        got = [a for nm, a in calls if nm == '_groupnodecontents_to_text']
        nd = node.fields.get('nodeargd')
        have = list(nd.fields['argnlist'].items) if nd is not None else []
        spec = node.fields.get('spec')
        if spec is not None and spec.attrs.get('arguments_spec_list') is not None:
            have += [None] * max(0, len(spec.attrs['arguments_spec_list'].items) - len(have))
        if not got:
            return True       # no placeholder was substituted from the arguments (plain string, or the body of an environment)
        return len(got) == len(have) and all(g is h for g, h in zip(got, have))

    reg.spec('callable_result_or_empty')(lambda it: it.ctx.ghost.get('repl_result') or '')
    c_asr = Contract(
        ASR, setup=setup_asr, result_type='str',
        requires=[('a-replacement-is-given', 'callable(simplify_repl) or len(simplify_repl) >= 1')],
        ensures=[('a-plain-string-is-used-as-it-is',
                  "implies(not callable(simplify_repl) and ('%' not in simplify_repl or len(simplify_repl) == 1), "
                  "result == simplify_repl)"),
                 ('internal:placeholders-are-filled-with-the-contents-of-the-arguments',
                  'implies(not callable(simplify_repl), arguments_rendered_as_argument_contents(node))'),
                 ('internal:a-callable-gets-the-node-and-the-parameters-it-declares',
                  'implies(callable(simplify_repl), callable_got(simplify_repl, node, self))'),
                 ('internal:a-callable-result-is-returned-and-a-falsy-one-becomes-the-empty-string',
                  "implies(callable(simplify_repl), result == callable_result_or_empty())")],
        modifies=[])
    units['apply_simplify_repl'] = FunctionUnit(c_asr, split_depth=4)

    # ---- None-tolerant helpers -----------------------------------------------------------------------------------------------------
    MACRO = NODES + 'LatexMacroNode'
    ARGSPECS = ['', '{', '[', '[{', '{{', '*[{', '*', '[{{', '{[']

    def legacy_split(argspec, items):
        """the pylatexenc-1 view (optional argument, mandatory arguments) of an argument list, as documented for
        nodeoptarg / nodeargs: leading stars are skipped; an argspec '[' followed only by '{' has an optional first argument"""
        nskip = 0
        while argspec.startswith('*'):
            argspec = argspec[1:]
            nskip += 1
        if argspec[0:1] == '[' and all(x == '{' for x in argspec[1:]):
            return items[nskip], items[nskip + 1:]
        return None, items

    def setup_bare(it):
        ctx = it.ctx
        k = ctx.choose(3, 'node')
        if k == 0:
            n = None
        elif k == 1:
            n = mk_child(it, 'other_node')
            n.methods['isNodeType'] = lambda it2, sf, a, kw: False     # not a macro node
        else:
            a = ctx.choose(len(ARGSPECS) + 1, 'argspec')
            if a == len(ARGSPECS):
                nd = None
            else:
                sp = ARGSPECS[a]
                nd = new_obj(it, PARGS, {'argnlist': mk_args(it, len(sp)), 'arguments_spec_list': PyList([None] * len(sp)),
                                         '_argspec': sp}, tag='nodeargd')
            n = mknode(it, 'LatexMacroNode', macroname=sym_str(it, 'macroname'), nodeargd=nd, macro_post_space='', spec=None)
        return {'self': mk_l2t(it, 'text'), 'node': n}

    reg.spec('is_macro')(lambda it, node: isinstance(node, Obj) and node.cls.name == 'LatexMacroNode')

    @reg.spec('has_no_arguments')
    def has_no_arguments(it, node):
        nd = node.fields.get('nodeargd')
        if nd is None:
            return True
        opt, rest = legacy_split(nd.fields['_argspec'], list(nd.fields['argnlist'].items))
        return opt is None and len(rest) == 0
    c_bare = reg.add(Contract(
        L2T + '._is_bare_macro_node', setup=setup_bare, result_type='bool',
        ensures=[('nothing-is-not-a-bare-macro', 'implies(node is None, not result)'),
                 ('internal:a-macro-node-is-bare-iff-it-was-given-no-optional-and-no-mandatory-argument',
                  'implies(node is not None and is_macro(node), result == has_no_arguments(node))'),
                 ('other-nodes-are-not-bare-macros',
                  'implies(node is not None and not is_macro(node), not result)')],
        modifies=[('node._nodeoptarg', lambda it, hint, cur=None: cur), ('node._nodeargs', lambda it, hint, cur=None: cur)]))
    units['_is_bare_macro_node'] = FunctionUnit(c_bare, inline={MACRO + '.nodeoptarg', MACRO + '.nodeargs', PARGS + '.argspec',
                                                               PARGS + '.legacy_nodeoptarg_nodeargs'})

    # ---- _groupnodecontents_to_text / node_arg_to_text ------------------------------------------------------------------------------
    def setup_gnc(it):
        ctx = it.ctx
        k = ctx.choose(4, 'argument')
        if k == 0:
            g = None
        elif k == 1:
            g = new_obj(it, NODES + 'LatexNodeList', {'nodelist': PyList([]), 'pos': None, 'pos_end': None}, tag='groupnode')
        elif k == 2:
            body = None if ctx.choose(2, 'group body') == 0 else mk_child(it, 'group_body', 'nodelist')
            g = mknode(it, 'LatexGroupNode', nodelist=body, delimiters=('{', '}'))
        else:
            g = mk_child(it, 'single_node')
            g.methods['isNodeType'] = lambda it2, sf, a, kw: False     # any node but a group
        ctx.ghost['gnc_kind'] = k
        return {'self': mk_l2t(it, 'text'), 'groupnode': g}
    reg.spec('arg_kind')(lambda it: it.ctx.ghost['gnc_kind'])
    c_gnc = Contract(
        L2T + '._groupnodecontents_to_text', setup=setup_gnc, result_type='str',
        ensures=[('internal:an-absent-argument-renders-as-nothing', "implies(groupnode is None, result == '')"),
                 ('internal:a-node-list-is-rendered-as-a-list', 'implies(arg_kind() == 1, result == TEXT(groupnode))'),
                 ('internal:a-group-argument-is-transparent', 'implies(arg_kind() == 2, result == TEXT(groupnode.nodelist))'),
                 ('internal:a-single-node-argument-is-rendered-as-that-node', 'implies(arg_kind() == 3, result == TEXT(groupnode))')],
        modifies=[])
    units['_groupnodecontents_to_text'] = FunctionUnit(c_gnc)

    def setup_nat(it):
        ctx = it.ctx
        nd = mk_nodeargd(it, maxn=3, absent='fixed')
        n = mknode(it, 'LatexMacroNode', macroname=sym_str(it, 'macroname'), nodeargd=nd, macro_post_space='', spec=None)
        return {'self': mk_l2t(it, 'text'), 'node': n, 'k': ctx.choose(4, 'k')}
    reg.spec('nargs')(lambda it, node: 0 if node.fields['nodeargd'] is None else len(node.fields['nodeargd'].fields['argnlist'].items))

    reg.spec('arg_text')(lambda it, node, k: rendered(it, node.fields['nodeargd'].fields['argnlist'].items[k]))
    c_nat = reg.add(Contract(
        L2T + '.node_arg_to_text', setup=setup_nat, result_type='str',
        requires=[('the-index-names-a-declared-argument-or-there-are-none', 'nargs(node) == 0 or (0 <= k and k < nargs(node))')],
        ensures=[('no-arguments-render-as-nothing', "implies(nargs(node) == 0, result == '')"),
                 ('the-k-th-argument-is-rendered', 'implies(nargs(node) > 0, result == arg_text(node, k))')],
        modifies=[]))
    units['node_arg_to_text'] = FunctionUnit(c_nat)

    # ---- node_to_text: dispatch on the node class ----------------------------------------------------------------------------------------
    KINDS = ['LatexCharsNode', 'LatexCommentNode', 'LatexGroupNode', 'LatexMacroNode', 'LatexEnvironmentNode',
             'LatexSpecialsNode', 'LatexMathNode']
    RENDERERS = ['chars_node_to_text', 'comment_node_to_text', 'group_node_to_text', 'macro_node_to_text',
                 'environment_node_to_text', 'specials_node_to_text', 'math_node_to_text']

    def setup_ntt(it):
        ctx = it.ctx
        k = ctx.choose(len(KINDS) + 2, 'node class')
        ctx.ghost['ntt_kind'] = k
        if k == len(KINDS):
            n = None
        else:
            n = mk_child(it, 'the_node')
            want = KINDS[k] if k < len(KINDS) else None
            n.methods['isNodeType'] = lambda it2, sf, a, kw: a[0].name == want
        l2t = mk_l2t(it, 'text')

        def renderer(i):
            def f(it2, a, kw):
                it2.ctx.ghost.setdefault('renderer_calls', []).append((i, list(a), dict(kw)))
                r = sym_str(it2, 'rendered_by_%s' % RENDERERS[i], register=False)
                it2.ctx.ghost['renderer_result'] = r
                return r
            return Builtin(RENDERERS[i], f)
        for i, nm in enumerate(RENDERERS):
            l2t.fields[nm] = renderer(i)
        return {'self': l2t, 'node': n, 'prev_node_hint': None, 'textcol': sym_int(it, 'textcol', lo=0)}

    @reg.spec('rendered_by_its_renderer')
    def rendered_by_its_renderer(it, node, textcol):
        """exactly one renderer call: the one for the node's class, on this node (chars: with the text column)"""
        k = it.ctx.ghost['ntt_kind']
        calls = it.ctx.ghost.get('renderer_calls', [])
        if k >= len(KINDS):
            return len(calls) == 0
        if len(calls) != 1:
            return False
        i, a, kw = calls[0]
        if i != k or len(a) != 1 or a[0] is not node:
            return False
        if k == 0:
            return set(kw) == {'textcol'} and V.z_eq(kw['textcol'], textcol)
        return not kw
    reg.spec('renderer_result')(lambda it: it.ctx.ghost.get('renderer_result', ''))
    c_ntt = Contract(
        L2T + '.node_to_text', setup=setup_ntt, result_type='str',
        ensures=[('internal:each-node-class-goes-to-its-renderer-and-nothing-else-is-rendered', 'rendered_by_its_renderer(node, textcol)'),
                 ('internal:the-renderer-result-is-returned-unchanged', 'result == renderer_result()')],
        modifies=[])
    units['node_to_text'] = FunctionUnit(c_ntt)

    # ---- nodelist_to_text: the fold, with the bare-macro post-space rule ---------------------------------------------------------------
    ISCHARS = z3.Function('node_is_chars', z3.IntSort(), z3.BoolSort())
    ISBARE = z3.Function('node_is_bare_macro', z3.IntSort(), z3.BoolSort())
    ELEM = z3.Function('list_element', z3.IntSort(), z3.IntSort())
    PSC = z3.Function('post_space_chars', z3.IntSort(), z3.ArraySort(z3.IntSort(), z3.IntSort()))
    PSL = z3.Function('post_space_len', z3.IntSort(), z3.IntSort())
    TCC = z3.Function('text_at_col_chars', z3.IntSort(), z3.IntSort(), z3.ArraySort(z3.IntSort(), z3.IntSort()))
    TCL = z3.Function('text_at_col_len', z3.IntSort(), z3.IntSort(), z3.IntSort())

    def elem_node(term):
        def is_type(it2, sf, a, kw):
            if a[0].name == 'LatexCharsNode':
                return ISCHARS(term)
            raise EngineError('isNodeType(%s) of a list element' % a[0].name)
        ps = V.StrBase('post_space(%s)' % term, arr=PSC(term), length=z3.If(PSL(term) >= 0, PSL(term), 0)).whole()
        return AbsVal(term, 'node', methods={'isNodeType': is_type}, attrs={'macro_post_space': ps, 'truth': lambda it2, sf: True})

    class AbsNodeList(object):
        """a node list of arbitrary length whose elements are abstract nodes"""
        def __init__(self, it):
            self.n = it.ctx.fresh_int('len(nodelist)')
            it.ctx.assume(self.n >= 0)

        def pyvc_seq(self, it):
            return (self.n, lambda i: elem_node(ELEM(zint(i))))

    def text_at(term, col):
        t, c = zint(term), zint(col)
        return V.StrBase('TEXT(%s @col %s)' % (t, c), arr=TCC(t, c), length=z3.If(TCL(t, c) >= 0, TCL(t, c), 0)).whole()
    reg.spec('TEXT_AT')(lambda it, node, col: text_at(node.term, col))
    reg.spec('is_bare')(lambda it, node: False if node is None else ISBARE(node.term))
    reg.spec('is_chars')(lambda it, node: ISCHARS(node.term))
    reg.spec('column_after')(lambda it, x: simp(V.slen(x) - zint(it.B.str_find(it, x, '\n', reverse=True)) - 1))

    def setup_nl(it):
        ctx = it.ctx
        l2t = mk_l2t(it, 'text')
        l2t.fields['_is_bare_macro_node'] = Builtin('_is_bare_macro_node', lambda it2, a, kw: (False if a[0] is None else ISBARE(a[0].term)))
        l2t.fields['node_to_text'] = Builtin('node_to_text', lambda it2, a, kw: text_at(a[0].term, kw['textcol']))
        nl = None if ctx.choose(2, 'nodelist') == 0 else AbsNodeList(it)
        return {'self': l2t, 'nodelist': nl}

    def mk_prev(it, hint):
        if it.ctx.choose(2, 'first iteration') == 1:
            return None
        return elem_node(it.ctx.fresh_int('prev'))

    @reg.spec('prev_is')
    def prev_is(it, prev, i):
        if prev is None:
            return V.z_eq(i, 0)
        return z_and(zint(i) >= 1, prev.term == ELEM(simp(zint(i) - 1)))
    BMC = "self.strict_latex_spaces['between-macro-and-chars']"
    GAP = 'is_bare(prev0) and is_chars(node) and not ' + BMC
    reg.add_loop(LoopContract(
        L2T + '.nodelist_to_text', 0, index='i',
        invariant=[('prev-node-is-the-element-before', 'prev_is(prev_node, i)')],
        havoc={'s': 'str', 'prev_node': mk_prev, 'last_nl_pos': 'int', 'textcol': 'int'},
        snapshot={'s0': 's', 'prev0': 'prev_node'},
        step=[('after-a-bare-macro-its-trailing-space-comes-back-before-text-unless-strict',
               'implies(%s, s == s0 + prev0.macro_post_space + TEXT_AT(node, column_after(s0 + prev0.macro_post_space)))' % GAP),
              ('otherwise-the-node-text-is-appended-and-nothing-else',
               'implies(not (%s), s == s0 + TEXT_AT(node, column_after(s0)))' % GAP)]))
    c_nl = Contract(
        L2T + '.nodelist_to_text', setup=setup_nl, result_type='str',
        ensures=[('no-list-renders-as-nothing', "implies(nodelist is None, result == '')")],
        modifies=[])
    units['nodelist_to_text'] = FunctionUnit(c_nl)

    # ---- _parse_strict_latex_spaces_dict: the documented presets -----------------------------------------------------------------------------
    KEYS4 = ('between-macro-and-chars', 'between-latex-constructs', 'after-comment', 'in-equations')
    PRESETS = {'based-on-source': (False, False, False, None), 'macros': (True, True, False, 'based-on-source'),
               'except-in-equations': (True, True, True, 'based-on-source')}
    POLICY_VALUES = [None, False, True, 'on', 'off', 'default', 'based-on-source', 'macros', 'except-in-equations', 'dict']

    def setup_psd(it):
        k = it.ctx.choose(len(POLICY_VALUES), 'strict_latex_spaces value')
        v = POLICY_VALUES[k]
        if v == 'dict':
            v = PyDict({'after-comment': sym_bool(it, 'given.after-comment'), 'in-equations': 'macros'})
        it.ctx.ghost['policy_value'] = POLICY_VALUES[k]
        return {'strict_latex_spaces': v}

    @reg.spec('documented_policy')
    def documented_policy(it, v, res):
        """the table of the class documentation"""
        pv = it.ctx.ghost['policy_value']
        if pv is None:
            want = (False, False, False, None)
        elif pv is True or pv == 'on':
            want = (True, True, True, True)
        elif pv is False or pv == 'off':
            want = PRESETS['macros']
        elif pv == 'default':
            want = PRESETS['based-on-source']
        elif pv == 'dict':
            want = (False, False, v.items['after-comment'], 'macros')
        else:
            want = PRESETS[pv]
        if not isinstance(res, PyDict) or set(res.items) != set(KEYS4):
            return False
        return z_and(*[it.truth_term(it.equal_term(res.items[k], w)) for k, w in zip(KEYS4, want)])
    c_psd = Contract(PSD, setup=setup_psd, ensures=[('the-documented-preset-table', 'documented_policy(strict_latex_spaces, result)')],
                     modifies=[])
    units['_parse_strict_latex_spaces_dict'] = FunctionUnit(c_psd, inline={PSD})

    # ---- the replacement callables of the default text database (C07: they index arguments directly) ----------------------------------
    # Every distinct callable of the database is located in the real source by (file, line) and verified once for every
    # walker-database signature among the rows that use it, plus the two shapes every macro node can have where another
    # macro expects its argument or after error recovery: an empty argument list, and no arguments object at all.
    from pyvc.interp import Frame
    STYLES = ['bold', 'italic', 'bold-italic', 'script', 'bold-script', 'fraktur', 'doublestruck', 'bold-fraktur', 'sans',
              'sans-bold', 'sans-italic', 'sans-bold-italic', 'monospace', 'no-such-style']

    def locate(it, relfile, lineno, name):
        modname = 'pylatexenc.' + relfile[:-3].replace('/', '.')
        if modname.endswith('.__init__'):
            modname = modname[:-9]
        m = it.program.module(modname)
        if m is None:
            raise EngineError('module %s not found' % modname)
        parents = {}
        for n in ast.walk(m.tree):
            for c in ast.iter_child_nodes(n):
                parents[id(c)] = n
        for n in ast.walk(m.tree):
            if isinstance(n, (ast.Lambda, ast.FunctionDef)) and n.lineno == lineno and \
                    (name == '<lambda>') == isinstance(n, ast.Lambda) and (isinstance(n, ast.Lambda) or n.name == name):
                encl = parents.get(id(n))
                while encl is not None and not isinstance(encl, (ast.FunctionDef, ast.Lambda)):
                    encl = parents.get(id(encl))
                return m, n, encl
        raise EngineError('callable %s at %s:%d not found in the tree' % (name, relfile, lineno))

    def make_callable(it, relfile, lineno, name):
        m, n, encl = locate(it, relfile, lineno, name)
        clo = Frame(m)
        if encl is not None:
            # free variables of the enclosing function: arbitrary values of the documented kinds
            for a in encl.args.args:
                if a.arg == 'style':
                    clo.vars['style'] = STYLES[it.ctx.choose(len(STYLES), 'style')]
                elif a.arg == 'block':
                    clo.vars['block'] = sym_bool(it, 'block')
                elif a.arg == 'placeholdertext':
                    clo.vars['placeholdertext'] = sym_str(it, 'placeholdertext')
                else:
                    raise EngineError('free variable %s of %s' % (a.arg, name))
        else:
            for v in ('mcombining',):
                clo.vars[v] = sym_str(it, v)
                it.ctx.assume(V.slen(clo.vars[v]) == 1)
        return it.make_func(n, m, clo, None, '%s.%s@%d' % (m.name, name, lineno))

    rows = db_rows()
    by_callable = {}
    for r in rows['text']:
        if 'callable' in r:
            by_callable.setdefault(tuple(r['callable']), []).append(r)

    def shapes_for(rws):
        sigs = []
        for r in rws:
            sg = tuple(r['walker']) if r['walker'] is not None else None
            if (r['kind'], sg) not in sigs:
                sigs.append((r['kind'], sg))
        return sigs

    def mk_callable_unit(key, rws):
        relfile, lineno, name = key
        label = name if name != '<lambda>' else 'lambda[%s]' % rws[0]['name']
        uname = 'text-db-callable:%s' % label
        sigs = shapes_for(rws)
        kinds = sorted(set(k for k, _ in sigs))

        def setup(it):
            ctx = it.ctx
            l2t = mk_l2t(it, 'text')
            l2t.open = False
            l2t.fields['latex_walker_init_args'] = PyDict()
            if rws[0]['name'] == 'maketitle':
                for f in ('_doc_title', '_doc_author', '_doc_date'):
                    if ctx.choose(2, f + ' was set') == 1:
                        l2t.fields[f] = sym_str(it, f)
            shape = ctx.choose(len(sigs) + len(kinds), 'argument shape')
            if shape < len(sigs):
                kind, sg = sigs[shape]
                nd = new_obj(it, PARGS, {'argnlist': mk_args(it, len(sg or ())), 'arguments_spec_list': PyList([None] * len(sg or ())),
                                         '_argspec': ''.join(sg or ())}, tag='nodeargd')
            else:
                # the macro stands where another macro expects its argument: it is read as a single token, without arguments
                kind = kinds[shape - len(sigs)]
                nd = new_obj(it, PARGS, {'argnlist': PyList([]), 'arguments_spec_list': PyList([]), '_argspec': ''}, tag='nodeargd')
            src = sym_str(it, 'source')
            w = new_obj(it, 'pylatexenc.latexwalker._walker.LatexWalker', {'s': src}, tag='latex_walker')
            common = dict(nodeargd=nd, spec=None, latex_walker=w, pos=0, pos_end=V.slen(src))
            nm = rws[0]['name'] if len(rws) == 1 else sym_str(it, 'name')
            if kind == 'macro':
                n = mknode(it, 'LatexMacroNode', macroname=nm, macro_post_space=sym_str(it, 'macro_post_space'), **common)
            elif kind == 'env':
                n = mknode(it, 'LatexEnvironmentNode', environmentname=nm, nodelist=mk_body(it), **common)
            else:
                n = mknode(it, 'LatexSpecialsNode', specials_chars=nm, **common)
            fn = it.ctx.ghost['the_callable']
            args = fn.node.args
            names = [a.arg for a in args.args]
            bound = {names[0]: n}
            if 'l2tobj' in names:
                bound['l2tobj'] = l2t
            for a, d in zip(args.args[len(args.args) - len(args.defaults):], args.defaults):
                if a.arg not in bound:
                    bound[a.arg] = it.eval(d, fn.closure)
            return bound

        def resolver(it):
            f = make_callable(it, relfile, lineno, name)
            it.ctx.ghost['the_callable'] = f
            return f
        import os
        tree = ast.parse(open(os.path.join(os.environ.get('PYVC_REPO', '/repo'), 'pylatexenc', relfile), encoding='utf-8').read())
        fnode = [n for n in ast.walk(tree) if isinstance(n, (ast.Lambda, ast.FunctionDef)) and n.lineno == lineno and
                 (name == '<lambda>') == isinstance(n, ast.Lambda)][0]
        pnames = [a.arg for a in fnode.args.args]
        cache = lambda it, hint, cur=None: cur
        mods = [(pnames[0] + '._nodeargs', cache), (pnames[0] + '._nodeoptarg', cache)]
        if 'l2tobj' in pnames:
            mods += [('l2tobj._doc_title', 'str'), ('l2tobj._doc_author', 'str'), ('l2tobj._doc_date', 'str')]
        c = Contract('pylatexenc.%s:%d:%s' % (relfile, lineno, label), setup=setup,
                     ensures=[('returns-a-string-or-nothing', 'result is None or isinstance(result, str)')],
                     modifies=mods)
        c.allow_new_attrs = True
        return uname, FunctionUnit(c, name=uname, resolver=resolver, split_depth=3,
                                   inline={'pylatexenc.latex2text._defaultspecs._format_maketitle',
                                           'pylatexenc.latex2text._defaultspecs.make_accented_char',
                                           'pylatexenc.latex2text._defaultspecs.make_accented_char.getaccented',
                                           'pylatexenc.latex2text.fmt_math_text_style', 'pylatexenc.latex2text._fmt_math_style_char',
                                           'pylatexenc.latex2text._do_fmt_placeholder_node', L2T + '._fmt_indented_block'})

    def mk_body(it):
        """body of an environment: a short list of the three node kinds the matrix formatter distinguishes"""
        n = it.ctx.choose(3, 'body length')
        items = []
        for i in range(n):
            k = it.ctx.choose(3, 'body node %d' % i)
            ch = mk_child(it, 'body%d' % i)
            if k == 0:
                ch.methods['isNodeType'] = lambda it2, sf, a, kw: a[0].name == 'LatexSpecialsNode'
                ch.attrs['specials_chars'] = '&'
            elif k == 1:
                ch.methods['isNodeType'] = lambda it2, sf, a, kw: a[0].name == 'LatexMacroNode'
                ch.attrs['macroname'] = '\\'
            else:
                ch.methods['isNodeType'] = lambda it2, sf, a, kw: False
            items.append(ch)
        return PyList(items)

    reg.add(Contract('pylatexenc.latex2text._defaultspecs._latex_today', result_type='str', modifies=[],
                     note='assumed (A-LIB): datetime formatting returns a string'))
    callable_units = {}
    for key in sorted(by_callable):
        un, u = mk_callable_unit(key, by_callable[key])
        callable_units[un] = u

    # ---- table obligations: the text database against the walker database (kept in sync by hand) ------------------------------------------
    import re as _re

    def lemma_db_tables(it):
        ctx = it.ctx
        d = db_rows(it.program.root)
        text, walker = d['text'], d['walker']
        ctx.prove('table[text-db]:non-empty', len(text) > 100 and len(walker) > 10, 'table')
        # (a) callables only ever see argument lists built by the standard argument parsers
        bad = [(r['kind'], r['name'], r['walker']) for r in text if 'callable' in r and r['walker'] is not None and
               any(a not in ('{', '[', '*') for a in r['walker'])]
        ctx.prove('table[text-db]:macros rendered by a callable have standard argument signatures in the walker database '
                  '(all rows)', not bad, 'table', src='offending rows: %r' % bad[:8])
        # (b) %-placeholders of replacement strings fit the number of arguments the walker database declares
        bad = []
        for r in text:
            st = r.get('string')
            if not st or '%' not in st or len(st) == 1:
                continue
            ar = len(r['walker']) if r['walker'] is not None else 0
            has_s = _re.search('(^|[^%])(%%)*%s', st)
            if r['kind'] == 'env':
                x = ('B',) if has_s else dict({str(1 + j): 'A' for j in range(ar)}, body='B')
            elif has_s:
                x = tuple('A' for _ in range(ar))
            else:
                x = {str(1 + j): 'A' for j in range(ar)}
            try:
                st % x
            except (TypeError, ValueError, KeyError) as e:
                bad.append((r['kind'], r['name'], st, r['walker'], str(e)))
        ctx.prove('table[text-db]:the placeholders of every replacement string can be substituted from the declared arguments',
                  not bad, 'table', src='offending rows: %r' % bad[:8])
        # (c) every math environment of the walker database is rendered by the math_mode switch
        trow = {r['name']: r for r in text if r['kind'] == 'env'}
        bad = [w['name'] for w in walker if w['is_math_mode'] and
               (w['name'] not in trow or trow[w['name']].get('callable', [0, 0, 0])[2] != 'fmt_equation_environment')]
        ctx.prove('table[text-db]:every math environment of the walker database is rendered by fmt_equation_environment',
                  not bad, 'table', src='offending environments: %r' % bad)
        # (d) specials of the text database have a replacement
        bad = [r['name'] for r in text if r['kind'] == 'specials' and not r.get('string') and 'callable' not in r]
        ctx.prove('table[text-db]:every specials row has a replacement', not bad, 'table', src='offending rows: %r' % bad)
    units['text-db-tables'] = LemmaUnit('text-db-tables', lemma_db_tables,
                                        functions=['pylatexenc.latex2text._defaultspecs', 'pylatexenc.latexwalker._defaultspecs'])

    # ---- latex_to_text: parse (tolerant by default: C06) then render -----------------------------------------------------------------------
    WALKER = 'pylatexenc.latexwalker._walker.LatexWalker'
    prev_cc = reg.class_contracts.get(WALKER)

    class TopLevelWalker(object):
        """LatexWalker(latex, **parse_flags).parse_content(LatexGeneralNodesParser()) as latex_to_text sees it:
        the contract of C06 / C05 -- with tolerant parsing (the default) a node list is returned and nothing is raised;
        in strict mode a LatexWalkerParseError may be raised instead"""
        def instantiate(self, it, cls, args, kwargs, node):
            if not it.ctx.ghost.get('l2t_toplevel'):
                return prev_cc.instantiate(it, cls, args, kwargs, node) if prev_cc is not None else NotImplemented
            tol = kwargs.get('tolerant_parsing', True)
            it.ctx.ghost['walker_args'] = (list(args), dict(kwargs))

            def parse_content(it2, sf, a, kw):
                if not it2.truthy(tol) and it2.ctx.choose(2, 'strict parse fails') == 1:
                    exc = Obj(resolve_class(it2, 'pylatexenc.latexnodes._exctypes.LatexWalkerParseError'),
                              {'args': (), 'msg': 'parse error', 'pos': 0})
                    raise PyExc(exc, 'contract:parse_content')
                nl = AbsNodeList(it2)
                it2.ctx.ghost['parsed_list'] = nl
                return (nl, None)
            return AbsVal(z3.Int('latex_walker'), 'walker', methods={'parse_content': parse_content})
    reg.class_contracts[WALKER] = TopLevelWalker()

    def setup_l2t(it):
        ctx = it.ctx
        ctx.ghost['l2t_toplevel'] = True
        l2t = mk_l2t(it, 'text')
        flags = PyDict()
        k = ctx.choose(3, 'tolerant_parsing flag')
        if k:
            flags.items['tolerant_parsing'] = (k == 1)
        ctx.ghost['strict_parse'] = (k == 2)
        return {'self': l2t, 'latex': sym_str(it, 'latex'), 'parse_flags': flags}
    reg.spec('parsed_list')(lambda it: it.ctx.ghost.get('parsed_list'))
    reg.spec('walker_got')(lambda it, latex, flags: it.ctx.ghost.get('walker_args') is not None and
                           len(it.ctx.ghost['walker_args'][0]) == 1 and it.ctx.ghost['walker_args'][0][0] is latex and
                           it.ctx.ghost['walker_args'][1] == flags.items)
    reg.spec('strict_parse')(lambda it: it.ctx.ghost['strict_parse'])
    c_top = Contract(
        L2T + '.latex_to_text', setup=setup_l2t, result_type='str',
        ensures=[('internal:the-whole-input-is-parsed-with-the-given-flags', 'walker_got(latex, parse_flags)'),
                 ('internal:the-result-is-the-rendering-of-the-parsed-list', 'result == TEXT(parsed_list())')],
        raises={'pylatexenc.latexnodes._exctypes.LatexWalkerParseError': {
            'when': 'strict_parse()', 'ensures': []}},
        modifies=[])
    units['latex_to_text'] = FunctionUnit(c_top)

    # ---- _fmt_indented_block ---------------------------------------------------------------------------------------------------------------
    def setup_fib(it):
        l2t = mk_l2t(it, 'text', fill=(it.ctx.choose(2, 'fill_text') == 1))
        return {'self': l2t, 'contents': sym_str(it, 'contents'), 'indent': sym_str(it, 'indent')}
    c_fib = Contract(
        L2T + '._fmt_indented_block', setup=setup_fib, result_type='str',
        ensures=[('every-line-of-the-block-is-indented',
                  "implies(not self.fill_text, result == '\\n' + indent + contents.replace('\\n', '\\n' + indent) + '\\n')"),
                 ('with-fill-text-the-block-is-set-off-by-blank-lines',
                  "implies(self.fill_text, result == '\\n\\n' + indent + contents.replace('\\n', '\\n' + indent) + '\\n\\n')")],
        modifies=[])
    units['_fmt_indented_block'] = FunctionUnit(c_fib)

    # ---- do_fill_text: total, given the library contracts of re / textwrap (A-LIB) ------------------------------------------------------------
    prev_hook2 = reg.regex_hook

    def regex_hook_fill(it, rv, name, args, kwargs):
        if name == 'search' and rv.pattern in (r'^\s*', r'\s*$'):
            # these patterns match every string (possibly the empty match): a match object whose group() is some string
            g = it.fresh_str('ws')
            return AbsVal(it.ctx.fresh_int('match'), 'match', methods={'group': lambda it2, sf, a, k: g},
                          attrs={'truth': lambda it2, sf: True})
        if name == 'split' and rv.pattern == r'\n{2,}':
            # re.split returns a non-empty list of strings
            n = 1 + it.ctx.choose(2, 'number of paragraphs - 1')
            return PyList([it.fresh_str('paragraph%d' % j) for j in range(n)])
        return prev_hook2(it, rv, name, args, kwargs) if prev_hook2 is not None else NotImplemented
    reg.regex_hook = regex_hook_fill

    @reg.lib('textwrap.fill')
    def textwrap_fill(it, text, width=70, **kw):
        it.ctx.prove('pre@textwrap.fill:width > 0', zint(width) > 0, 'pre@callsite', 'textwrap.fill raises ValueError for width <= 0')
        it.ctx.assume(zint(width) > 0)
        if not V.is_str(text):
            it.raise_builtin('TypeError', 'wd:type[textwrap.fill of a non-string]')
        return it.fresh_str('filled')

    def setup_fill(it):
        l2t = mk_l2t(it, 'text', fill=True)
        return {'self': l2t, 'text': sym_str(it, 'text'), 'textcol': sym_int(it, 'textcol', lo=0)}
    c_fill = reg.add(Contract(L2T + '.do_fill_text', setup=setup_fill, result_type='str',
                      requires=[('a-positive-column-width', 'self.fill_text >= 1'), ('a-column', 'textcol >= 0')],
                      ensures=[], modifies=[]))
    units['do_fill_text'] = FunctionUnit(c_fill, inline={L2T + '.do_fill_text.fill_chunk'}, split_depth=3)
    for k in units:
        contracts.REPLAYERS[k] = replay
    c07 = dict(units)
    c07.update(callable_units)
    for k in callable_units:
        contracts.REPLAYERS[k] = replay
    c12_names = ['comment_node_to_text', 'math_node_to_text', 'macro_node_to_text', 'environment_node_to_text',
                 'specials_node_to_text', 'node_to_text', 'nodelist_to_text', '_groupnodecontents_to_text', 'latex_to_text',
                 'text-db-tables']
    c12 = {k: units[k] for k in c12_names}
    c12['text-db-callable:fmt_equation_environment'] = callable_units['text-db-callable:fmt_equation_environment']

    # "with keep_comments every comment appears", at every nesting position, needs every argument of a macro / environment /
    # specials node to be rendered: a comment may stand inside any of them.  A replacement STRING renders exactly the arguments
    # its placeholders name (none at all for a plain string), so this clause is false on the tree as given: known finding.
    @reg.spec('every_argument_is_rendered')
    def every_argument_is_rendered(it, node):
        got = [a for nm, a in it.ctx.ghost.get('render_calls', []) if nm in ('_groupnodecontents_to_text', 'node_to_text', 'nodelist_to_text')]
        nd = node.fields.get('nodeargd')
        have = [a for a in (nd.fields['argnlist'].items if nd is not None else []) if a is not None]
        return all(any(g is h for g in got) for h in have)
    c_asr12 = Contract(ASR, setup=setup_asr,
                       requires=[('a-replacement-is-given', 'callable(simplify_repl) or len(simplify_repl) >= 1')],
                       ensures=[('internal:a-replacement-string-renders-every-argument-so-that-a-comment-inside-any-of-them-can-appear',
                                 'implies(not callable(simplify_repl), every_argument_is_rendered(node))')], modifies=[])
    c12['apply_simplify_repl[every argument is rendered]'] = FunctionUnit(c_asr12, name='apply_simplify_repl[every argument is rendered]',
                                                                         split_depth=4)
    contracts.REPLAYERS['apply_simplify_repl[every argument is rendered]'] = replay

    # the matrix renderer: every node of the body that is not a column / row separator -- comments included -- is handed to
    # nodelist_to_text (whose own units decide what a comment contributes under keep_comments), in order
    def setup_matrix(it):
        l2t = mk_l2t(it)
        calls = it.ctx.ghost.setdefault('cell_render_calls', [])

        def nodelist_to_text(it2, a, k):
            lst = a[0] if a else k.get('nodelist')
            calls.append(list(it2.iter_values(lst)))
            return it2.fresh_str('cell_text')
        l2t.fields['nodelist_to_text'] = Builtin('nodelist_to_text', nodelist_to_text)
        n = it.ctx.choose(4, 'body length')
        items, seps = [], []
        for i in range(n):
            k = it.ctx.choose(4, 'body node %d' % i)
            ch = mk_child(it, 'body%d' % i)
            cls = ['LatexSpecialsNode', 'LatexMacroNode', 'LatexCommentNode', 'LatexCharsNode'][k]
            ch.methods['isNodeType'] = (lambda c: lambda it2, sf, a, kw: a[0].name == c)(cls)
            if k == 0:
                ch.attrs['specials_chars'] = '&' if it.ctx.choose(2, 'specials %d is the column separator' % i) == 0 else '~'
            if k == 1:
                ch.attrs['macroname'] = '\\' if it.ctx.choose(2, 'macro %d is the row separator' % i) == 0 else 'alpha'
            is_sep = (k == 0 and ch.attrs['specials_chars'] == '&') or (k == 1 and ch.attrs['macroname'] == '\\')
            items.append(ch)
            seps.append(is_sep)
        it.ctx.ghost['matrix_body'] = (items, seps)
        env = mknode(it, 'LatexEnvironmentNode', environmentname='pmatrix', nodelist=PyList(items), nodeargd=None, spec=None,
                     latex_walker=None, pos=0, pos_end=sym_int(it, 'pos_end', lo=0))
        return {'node': env, 'l2tobj': l2t}

    @reg.spec('every_cell_node_is_rendered')
    def every_cell_node_is_rendered(it):
        items, seps = it.ctx.ghost['matrix_body']
        want = [x for x, sp in zip(items, seps) if not sp]
        got = [x for lst in it.ctx.ghost.get('cell_render_calls', []) for x in lst]
        return len(got) == len(want) and all(g is w for g, w in zip(got, want))
    c_mx = Contract('pylatexenc.latex2text.fmt_matrix_environment_node', setup=setup_matrix, result_type='str',
                    ensures=[('internal:every-body-node-that-is-not-a-separator-is-rendered-in-order-comments-included',
                              'every_cell_node_is_rendered()')], modifies=[])
    c12['fmt_matrix_environment_node[every cell node is rendered]'] = FunctionUnit(
        c_mx, name='fmt_matrix_environment_node[every cell node is rendered]', split_depth=3)
    contracts.REPLAYERS['fmt_matrix_environment_node[every cell node is rendered]'] = replay

    # a math ENVIRONMENT is subject to the math_mode policy exactly like delimiter math: its renderer hands the node to
    # math_node_to_text (whose unit states the policy: 'remove' contributes nothing, 'verbatim' the source, ...) whatever the mode
    def setup_eqenv(it):
        l2t = mk_l2t(it)                                   # any of the four math modes
        calls = it.ctx.ghost.setdefault('math_render_calls', [])

        def math_node_to_text(it2, a, k):
            r = it2.fresh_str('math_node_to_text')
            calls.append((a[0] if a else k.get('node'), r))
            return r
        l2t.fields['math_node_to_text'] = Builtin('math_node_to_text', math_node_to_text)
        env = mknode(it, 'LatexEnvironmentNode', environmentname=sym_str(it, 'environmentname'), nodelist=PyList([]),
                     nodeargd=None, spec=None, latex_walker=None, pos=0, pos_end=sym_int(it, 'pos_end', lo=0))
        return {'envnode': env, 'l2tobj': l2t}

    @reg.spec('rendered_by_the_math_policy')
    def rendered_by_the_math_policy(it, envnode, result):
        calls = it.ctx.ghost.get('math_render_calls', [])
        return len(calls) == 1 and calls[0][0] is envnode and result is calls[0][1]
    c_eq = Contract('pylatexenc.latex2text.fmt_equation_environment', setup=setup_eqenv,
                    ensures=[('internal:a-math-environment-is-rendered-by-math_node_to_text-in-every-math-mode',
                              'rendered_by_the_math_policy(envnode, result)')], modifies=[])
    c12['fmt_equation_environment[the math policy applies]'] = FunctionUnit(c_eq, name='fmt_equation_environment[the math policy applies]')
    contracts.REPLAYERS['fmt_equation_environment[the math policy applies]'] = replay
    c03 = dict(units)
    contracts.EXTRA_ASSUMPTIONS['C07'] = A_L2T + [
        "A-TREE: the rendering recursion is on strictly smaller subtrees of a finite node tree (termination and the structural "
        "induction that turns 'every renderer is total given total children' into 'nodelist_to_text is total' are stated, "
        "not mechanised); that parsing returns in bounded time rests on C11's progress contracts (each token read advances)",
        "tolerant parse_content(LatexGeneralNodesParser()) returns a node list and raises nothing: the contract verified for "
        "C06 (parse_content unit) given the parser interface contract; argument lists built by the standard argument "
        "parsers always have one entry per declared argument (assumed; the argument parsers have no unit yet)",
        "fill_text: do_fill_text is verified total for a positive column width given the library contracts of re.search / re.split / "
        "textwrap.fill (A-LIB: the two whitespace patterns always match; split returns a non-empty list of strings; fill needs width > 0, "
        "proved at the call sites); a non-positive fill_text is outside the documented option",
        "the legacy \\verb arguments parser (VerbatimArgsParser.parse_args) has no unit here"]
    contracts.EXTRA_ASSUMPTIONS['C12'] = A_L2T + [
        "what is a comment / a formula in the source is decided by the tokenizer and parsers (C11, C01/C10 contracts): this check "
        "covers the rendering of comment, math and discarded nodes and the composition latex_to_text = render(parse)",
        "bounded: LatexExpressionParser.parse is checked with at most two nodes skipped in earlier iterations"]
    contracts.EXTRA_ASSUMPTIONS['C03'] = A_L2T + [
        "the symbol / accent tables of the default text database are data: which character a symbol macro maps to is not "
        "checked against Unicode (no specification beyond the table itself); only placeholders vs. declared arguments are",
        "how the parser segments whitespace into chars nodes and macro_post_space is the tokenizer's contract (C11)"]
    return {'C12': c12, 'C07': c07, 'C03': c03}


def replay(o, model):
    """bounded native fall-back when the proof of a unit is unavailable on a tree: the C07 search"""
    from contracts import native_l2t
    return native_l2t.replay_for('C07')(o, model)
