"""C16 -- the pylatexenc-2 compatible API gives the same results as the new parsers: wrapper contracts.

Each legacy entry point is verified to be the documented function of ONE call of the pylatexenc-3 machinery
(`parse_content` with a specific parser object, reader and parsing state): the parser it constructs is the equivalent
new parser configured exactly as requested, the reader starts at `pos`, the result tuple is computed from the node /
reader position that `parse_content` returned, and every failure of `parse_content` propagates unchanged (so the legacy
call fails exactly when the new parser fails) -- apart from the two documented deviations of get_latex_expression
(the closing-brace error is swallowed unless strict_braces; in tolerant mode an empty chars node stands for 'nothing').
`parse_content` itself enters as an arbitrary outcome (a node with arbitrary span, nothing, or any parse error).

Spec shims: every spelling of an argument signature (arguments_spec_list string / list, args_parser string,
MacroStandardArgsParser, std_macro / std_environment in their idioms) yields the same per-slot argument letters (the real
constructors are executed); the legacy argument views (nodeoptarg / nodeargs) are the documented split of the argument
list; the legacy \\verb arguments parser stays inside the string and reports located errors.
"""
import z3

from pyvc import values as V
from pyvc.values import Obj, PyList, PyDict, AbsVal, Builtin, zint, simp, z_and, z_or, z_not
from pyvc.contracts import (Contract, FunctionUnit, LemmaUnit, LoopContract, sym_int, sym_str, sym_bool, new_obj,
                            resolve_class, resolve_function)
from pyvc.smt import EngineError
from pyvc.interp import PyExc
from pyvc.replay import PRELUDE
from contracts.tokenizer import mk_parsing_state, mk_token, TR
from contracts.collector import W, NODES, EXC

WM = 'pylatexenc.latexwalker._walker.'
P = 'pylatexenc.latexnodes.parsers.'


def register(reg):
    import contracts
    units = {}

    def mk_walker(it, outcomes, probe=None, tolerant=None):
        """a walker whose parse_content is the pylatexenc-3 machinery seen from outside: one of `outcomes`"""
        ctx = it.ctx
        s = sym_str(it, 's')
        w = new_obj(it, W, {'s': s, 'tolerant_parsing': ((ctx.choose(2, 'tolerant_parsing') == 1) if tolerant is None else tolerant), 'debug_nodes': False}, tag='self')
        w.open = True
        default_ps = mk_parsing_state(it, 'default_parsing_state', with_context=False)
        default_ps.fields['latex_group_delimiters'] = PyList([('{', '}')])
        w.fields['make_parsing_state'] = Builtin('make_parsing_state', lambda it2, a, k: default_ps)
        ctx.ghost['default_ps'] = default_ps
        calls = ctx.ghost.setdefault('pc_calls', [])

        def parse_content(it2, a, kw):
            c = it2.ctx
            parser = a[0] if a else kw.get('parser')
            tr = kw.get('token_reader', a[1] if len(a) > 1 else None)
            ps = kw.get('parsing_state', a[2] if len(a) > 2 else None)
            calls.append((parser, tr, ps))
            if probe is not None:
                probe(it2, parser)
            k = outcomes[c.choose(len(outcomes), 'outcome of parse_content')]
            c.ghost['pc_outcome'] = k
            if k == 'error' or k == 'closing-brace-error':
                exc = Obj(resolve_class(it2, EXC + 'LatexWalkerParseError'), {'args': (), 'msg': 'parse error', 'pos': c.fresh_int('err.pos')},
                          tag='parse_error')
                exc.open = False
                if k == 'closing-brace-error':
                    exc.fields['_error_was_unexpected_closing_brace_in_expression'] = True
                c.ghost['pc_exc'] = exc
                raise PyExc(exc, 'contract:parse_content')
            end = c.fresh_int('reader_pos_after')
            c.assume(end >= zint(tr.fields['_pos']))
            tr.fields['_pos'] = end
            delta = None if (probe is not None or c.choose(2, 'delta returned') == 0) else AbsVal(c.fresh_int('delta'), 'delta', attrs={'truth': lambda i3, sf: True})
            if k == 'nothing':
                res = None
            else:
                p, e = c.fresh_int('node.pos'), c.fresh_int('node.pos_end')
                c.assume(z3.And(0 <= p, p <= e))
                common = {'pos': p, 'pos_end': e, 'parsing_state': ps, 'latex_walker': w}
                if k == 'group':
                    res = new_obj(it2, NODES + 'LatexGroupNode', dict(common, nodelist=None, delimiters=('{', '}')), tag='result_node', is_input=False)
                elif k == 'macro':
                    res = new_obj(it2, NODES + 'LatexMacroNode', dict(common, macroname='m', nodeargd=AbsVal(c.fresh_int('nodeargd'), 'nodeargd'),
                                                                       macro_post_space='', spec=None), tag='result_node', is_input=False)
                elif k == 'chars':
                    res = new_obj(it2, NODES + 'LatexCharsNode', dict(common, chars=sym_str(it2, 'chars', register=False)), tag='result_node', is_input=False)
                elif k == 'list':
                    res = new_obj(it2, NODES + 'LatexNodeList', {'nodelist': PyList([]), 'pos': p, 'pos_end': e, 'parsing_state': ps,
                                                                 'latex_walker': w}, tag='result_node', is_input=False)
                elif k.startswith('envlist'):
                    n = int(k[-1])
                    items = []
                    for j in range(n):
                        if c.choose(2, 'node %d is an environment' % j) == 1:
                            items.append(new_obj(it2, NODES + 'LatexEnvironmentNode', dict(common, environmentname=sym_str(it2, 'found_env%d' % j, register=False),
                                                                                            nodelist=None, nodeargd=None, spec=None), tag='env%d' % j, is_input=False))
                        else:
                            items.append(new_obj(it2, NODES + 'LatexCharsNode', dict(common, chars='x'), tag='chars%d' % j, is_input=False))
                    res = new_obj(it2, NODES + 'LatexNodeList', {'nodelist': PyList(items), 'pos': p, 'pos_end': e, 'parsing_state': ps,
                                                                 'latex_walker': w}, tag='result_list', is_input=False)
                else:
                    raise EngineError('outcome %s' % k)
            c.ghost['pc_result'] = (res, delta, end)
            return (res, delta)
        w.fields['parse_content'] = Builtin('parse_content', parse_content)
        return w

    reg.spec('pc_outcome')(lambda it: it.ctx.ghost.get('pc_outcome'))
    reg.spec('pc_node')(lambda it: it.ctx.ghost.get('pc_result', (None, None, None))[0])
    reg.spec('pc_reader_after')(lambda it: it.ctx.ghost.get('pc_result', (None, None, None))[2])
    reg.spec('pc_exc')(lambda it: it.ctx.ghost.get('pc_exc'))

    @reg.spec('one_call_with')
    def one_call_with(it, me, pos, given_ps, cls, **want):
        """parse_content was called exactly once: with a parser of class `cls` configured as `want`, a reader of the walker's
        string standing at `pos`, and the given parsing state (the walker's default one when none was given)"""
        calls = it.ctx.ghost.get('pc_calls', [])
        if len(calls) != 1:
            return False
        parser, tr, ps = calls[0]
        if not (isinstance(parser, Obj) and parser.cls.name == cls):
            return False
        conds = []
        for k, v in want.items():
            got = parser.fields.get(k)
            if isinstance(v, tuple):
                if not (isinstance(got, tuple) and len(got) == len(v)):
                    return False
                conds += [it.truth_term(it.equal_term(a, b)) for a, b in zip(got, v)]
            else:
                conds.append(it.truth_term(it.equal_term(got, v)))
        if not isinstance(tr, Obj) or tr.fields['s'] is not me.fields['s']:
            return False
        start = it.ctx.ghost.get('reader_start')
        conds.append(it.truth_term(it.equal_term(start, pos)))
        want_ps = given_ps if given_ps is not None else it.ctx.ghost['default_ps']
        if it.ctx.ghost.get('state_may_be_derived'):
            pass
        elif ps is not want_ps:
            return False
        return z_and(*conds)

    # make_token_reader: real contract (walker.py) is keyed on the method; record the start position
    def reader_maker(it, env):
        w = env.vars['self']
        pos = env.vars['pos']
        it.ctx.ghost['reader_start'] = 0 if pos is None else pos
        return new_obj(it, 'pylatexenc.latexnodes._tokenreader.LatexTokenReader',
                       {'s': w.fields['s'], '_pos': 0 if pos is None else pos, 'tolerant_parsing': w.fields['tolerant_parsing']},
                       tag='token_reader', is_input=False)
    c_mtr = reg.contracts.get(W + '.make_token_reader')
    if c_mtr is not None:
        c_mtr.result_make = reader_maker

    CTORS = {P + '_base.LatexParserBase.__init__', P + '_delimited.LatexDelimitedGroupParser.__init__',
             P + '_delimited.LatexDelimitedExpressionParser.__init__', P + '_optionals.LatexOptionalSquareBracketsParser.__init__',
             P + '_expression.LatexExpressionParser.__init__', P + '_generalnodes.LatexGeneralNodesParser.__init__',
             P + '_generalnodes.LatexSingleNodeParser.__init__', W + '.make_node', NODES + 'LatexNode.len', NODES + 'LatexNodeList.len',
             NODES + 'LatexNodeList.__len__', NODES + 'LatexNodeList.__getitem__', NODES + 'LatexNode.isNodeType'}
    PROPAGATES = {EXC + 'LatexWalkerParseError': {'when': "pc_outcome() in ('error', 'closing-brace-error')",
                                                  'ensures': [('the-new-parsers-error-propagates-unchanged', 'exc is pc_exc()')]}}

    def opt_state(it):
        return None if it.ctx.choose(2, 'parsing_state given') == 0 else mk_parsing_state(it, 'given_parsing_state', with_context=False)

    # ---- get_latex_braced_group ------------------------------------------------------------------------------------------------------
    BT = ['{', '[', '(', '<', 'pair', 'bad']
    PAIRS = {'{': ('{', '}'), '[': ('[', ']'), '(': ('(', ')'), '<': ('<', '>')}

    def setup_bg(it):
        ctx = it.ctx
        w = mk_walker(it, ['group', 'list', 'nothing', 'error'])
        k = BT[ctx.choose(len(BT), 'brace_type')]
        ctx.ghost['bt'] = k
        if k == 'pair':
            bt = (sym_str(it, 'open'), sym_str(it, 'close'))
        elif k == 'bad':
            bt = 'xyz'
        else:
            bt = k
        ctx.ghost['pair'] = PAIRS.get(k, bt)
        return {'self': w, 'pos': sym_int(it, 'pos', lo=0), 'brace_type': bt, 'parsing_state': opt_state(it)}
    reg.spec('bt_kind')(lambda it: it.ctx.ghost['bt'])
    reg.spec('bt_pair')(lambda it: it.ctx.ghost['pair'])
    c = Contract(WM + '_pyltxenc2_LatexWalker_get_latex_braced_group', setup=setup_bg,
                 ensures=[('internal:reads-one-group-with-the-requested-delimiters-from-pos',
                           "one_call_with(self, pos, parsing_state, 'LatexDelimitedGroupParser', delimiters=bt_pair(), "
                           "allow_pre_space=True, optional=False)"),
                          ('internal:returns-the-node-its-position-and-its-length',
                           'implies(pc_node() is not None, result[0] is pc_node() and result[1] == pc_node().pos and '
                           'result[2] == pc_node().pos_end - pc_node().pos)'),
                          ('internal:nothing-read-is-reported-as-an-empty-result-at-pos',
                           'implies(pc_node() is None, result[0] is None and result[1] == pos and result[2] == 0)')],
                 raises=dict(PROPAGATES, ValueError={'when': "bt_kind() == 'bad'", 'ensures': []}), modifies=[])
    units['get_latex_braced_group'] = FunctionUnit(c, inline=CTORS)

    # ---- get_latex_maybe_optional_arg ----------------------------------------------------------------------------------------------------
    def setup_oa(it):
        return {'self': mk_walker(it, ['group', 'nothing', 'error']), 'pos': sym_int(it, 'pos', lo=0), 'parsing_state': opt_state(it)}
    c = Contract(WM + '_pyltxenc2_LatexWalker_get_latex_maybe_optional_arg', setup=setup_oa,
                 ensures=[('internal:reads-one-optional-square-bracket-group-from-pos',
                           "one_call_with(self, pos, parsing_state, 'LatexOptionalSquareBracketsParser', delimiters=('[', ']'), optional=True, "
                           "allow_pre_space=True)"),      # whitespace before the bracket is skipped, as in pylatexenc 2 (and as '[' slots do)
                          ('internal:an-absent-argument-is-None', 'implies(pc_node() is None, result is None)'),
                          ('internal:returns-the-node-its-position-and-its-length',
                           'implies(pc_node() is not None, result[0] is pc_node() and result[1] == pc_node().pos and '
                           'result[2] == pc_node().pos_end - pc_node().pos)')],
                 raises=PROPAGATES, modifies=[])
    units['get_latex_maybe_optional_arg'] = FunctionUnit(c, inline=CTORS)

    # ---- get_latex_environment -----------------------------------------------------------------------------------------------------------
    def setup_env(it):
        w = mk_walker(it, ['envlist0', 'envlist1', 'envlist2', 'nothing', 'error'])
        name = None if it.ctx.choose(2, 'environmentname given') == 0 else sym_str(it, 'environmentname')
        return {'self': w, 'pos': sym_int(it, 'pos', lo=0), 'environmentname': name, 'parsing_state': opt_state(it)}

    @reg.spec('single_env')
    def single_env(it):
        r = it.ctx.ghost.get('pc_result')
        if r is None or r[0] is None:
            return None
        items = r[0].fields['nodelist'].items
        if len(items) == 1 and items[0].cls.name == 'LatexEnvironmentNode':
            return items[0]
        return None
    c = Contract(WM + '_pyltxenc2_LatexWalker_get_latex_environment', setup=setup_env,
                 ensures=[('internal:reads-one-node-from-pos', "one_call_with(self, pos, parsing_state, 'LatexSingleNodeParser')"),
                          ('internal:returns-the-environment-node-its-position-and-its-length',
                           'single_env() is not None and result[0] is single_env() and result[1] == single_env().pos and '
                           'result[2] == single_env().pos_end - single_env().pos'),
                          ('internal:the-requested-name-was-found',
                           'implies(environmentname is not None, single_env().environmentname == environmentname)')],
                 raises={EXC + 'LatexWalkerParseError': {
                     'when': "pc_outcome() == 'error' or single_env() is None or "
                             "(environmentname is not None and single_env().environmentname != environmentname)",
                     'ensures': [('a-failure-of-the-new-parser-propagates-unchanged', "implies(pc_outcome() == 'error', exc is pc_exc())")]}},
                 modifies=[])
    units['get_latex_environment'] = FunctionUnit(c, inline=CTORS | {EXC + 'LatexWalkerParseError.__init__', EXC + 'LatexWalkerLocatedError.__init__',
                                                                     EXC + 'LatexWalkerError.__init__'})

    # ---- get_latex_expression ----------------------------------------------------------------------------------------------------------------
    def setup_expr(it):
        w = mk_walker(it, ['group', 'macro', 'chars', 'nothing', 'error', 'closing-brace-error'])
        sb = [None, False, True][it.ctx.choose(3, 'strict_braces')]
        return {'self': w, 'pos': sym_int(it, 'pos', lo=0), 'strict_braces': sb, 'parsing_state': opt_state(it)}
    SWALLOW = "(pc_outcome() == 'closing-brace-error' and not strict_braces)"
    NOTHING = "(pc_outcome() == 'nothing' or %s)" % SWALLOW
    DUMMY = '(self.tolerant_parsing or strict_braces is False)'
    c = Contract(WM + '_pyltxenc2_LatexWalker_get_latex_expression', setup=setup_expr,
                 ensures=[('internal:reads-one-expression-from-pos',
                           "one_call_with(self, pos, parsing_state, 'LatexExpressionParser', return_full_node_list=False, "
                           "single_token_requiring_arg_is_error=(not self.tolerant_parsing), allow_pre_space=True, allow_pre_comments=True)"),
                          ('internal:returns-the-node-its-position-and-its-length',
                           'implies(not %s, result[0] is pc_node() and result[1] == pc_node().pos and '
                           'result[2] == pc_node().pos_end - pc_node().pos)' % NOTHING),
                          ('internal:a-single-macro-is-returned-without-arguments',
                           "implies(pc_outcome() == 'macro', result[0].nodeargd is None)"),
                          ('internal:nothing-found-is-an-empty-chars-node-at-pos-in-tolerant-mode-or-with-strict-braces-off',
                           "implies(%s and %s, result[0].chars == '' and result[0].pos == pos and result[0].pos_end == pos and "
                           "result[1] == pos and result[2] == 0)" % (NOTHING, DUMMY)),
                          ('internal:nothing-found-is-reported-as-None-otherwise',
                           'implies(%s and not %s, result[0] is None and result[1] == pos and result[2] == 0)' % (NOTHING, DUMMY))],
                 raises={EXC + 'LatexWalkerParseError': {
                     'when': "pc_outcome() == 'error' or (pc_outcome() == 'closing-brace-error' and bool(strict_braces))",
                     'ensures': [('the-new-parsers-error-propagates-unchanged', 'exc is pc_exc()')]}},
                 modifies=[('pc_node().nodeargd', lambda it, hint, cur=None: cur)])
    units['get_latex_expression'] = FunctionUnit(c, inline=CTORS)

    # ---- get_latex_nodes -------------------------------------------------------------------------------------------------------------------------
    def probe_stop_conditions(it, parser):
        """ask the constructed parser's stop conditions about an arbitrary token / node count (recorded for the post-condition)"""
        ctx = it.ctx
        g = ctx.ghost
        kind = ['brace_close', 'end_environment', 'mathmode_inline', 'mathmode_display', 'char', 'brace_open'][ctx.choose(6, 'probe token kind')]
        which = ctx.choose(4, 'probe token text')
        texts = [g['stop_brace_close'], g['stop_env'], g['stop_math']]
        arg = texts[which] if which < 3 and texts[which] is not None else sym_str(it, 'other_text', register=False)
        if which == 3 or texts[min(which, 2)] is None:
            for t in texts:
                if t is not None:
                    ctx.assume(z_not(it.truth_term(it.equal_term(arg, t))))
        tok = mk_token(it, kind, arg, 0, 1, '')
        ans = it.truthy(it.call(parser.fields['stop_token_condition'], [tok], {}))
        n = ctx.choose(2, 'probe node count') * 2
        ans2 = it.truthy(it.call(parser.fields['stop_nodelist_condition'], [PyList([None] * n)], {}))
        g['probe'] = (kind, arg, ans, n, ans2)

    def setup_nodes(it, probing):
        ctx = it.ctx
        w = mk_walker(it, ['list'] if probing else ['list', 'nothing', 'error'], probe=probe_stop_conditions if probing else None,
                      tolerant=False if probing else None)
        ctx.ghost['state_may_be_derived'] = True
        k = ctx.choose(2 if probing else 5, 'stop_upon_closing_brace')
        scb = ([None, ']'] if probing else [None, '}', ']', ('(', ')'), '>'])[k]
        env = None if ctx.choose(2, 'stop_upon_end_environment') == 0 else sym_str(it, 'stop_env')
        mm = None if ctx.choose(2, 'stop_upon_closing_mathmode') == 0 else sym_str(it, 'stop_math')
        rmn = None if ctx.choose(2, 'read_max_nodes') == 0 else 1 + ctx.choose(2, 'read_max_nodes value')
        ps = None
        if not probing and ctx.choose(2, 'parsing_state given') == 1:
            ps = mk_parsing_state(it, 'given_parsing_state', with_context=False)
        has_pair = 0 if probing else ctx.choose(2, 'pair already a group delimiter')
        pair = scb if isinstance(scb, tuple) else {None: None, '}': ('{', '}'), ']': ('[', ']'), '>': ('<', '>')}[scb]
        base = [('{', '}')] if not (has_pair and pair is not None and pair != ('{', '}')) else [('{', '}'), pair]
        from contracts.parsingstate import FIELDS
        from contracts.mathmode import absfield
        for st in (ps, ctx.ghost['default_ps']):
            if st is None:
                continue
            st.fields['latex_group_delimiters'] = PyList(list(base))
            st.fields['math_mode_delimiter'] = None
            st.fields['in_math_mode'] = False
            st.fields['_parent_parsing_state_info'] = (None, PyDict())
            for f in FIELDS:
                if f not in st.fields:
                    st.fields[f] = absfield(it, '%s.%s' % (st.tag, f))
        g = ctx.ghost
        g['stop_brace_close'] = None if scb is None else (scb[1] if isinstance(scb, tuple) else scb)
        g['stop_env'], g['stop_math'], g['rmn'], g['pair'], g['base'] = env, mm, rmn, pair, base
        return {'self': w, 'pos': sym_int(it, 'pos', lo=0), 'stop_upon_closing_brace': scb, 'stop_upon_end_environment': env,
                'stop_upon_closing_mathmode': mm, 'read_max_nodes': rmn, 'parsing_state': ps}

    @reg.spec('stop_conditions_as_requested')
    def stop_conditions_as_requested(it):
        g = it.ctx.ghost
        if 'probe' not in g:
            return True
        kind, arg, ans, n, ans2 = g['probe']

        def eq(a, b):
            return False if b is None else it.truth_term(it.equal_term(a, b))
        want = z_or(z_and(kind == 'brace_close', eq(arg, g['stop_brace_close'])), z_and(kind == 'end_environment', eq(arg, g['stop_env'])),
                    z_and(kind in ('mathmode_inline', 'mathmode_display'), eq(arg, g['stop_math'])))
        want2 = g['rmn'] is not None and n >= g['rmn']
        return z_and(V.z_eq(V.zbool(want), V.zbool(ans)), ans2 == want2)

    @reg.spec('nodes_state_ok')
    def nodes_state_ok(it, given_ps):
        """the state handed to the new parser is the given / default one, with the stop brace pair added to the group
        delimiters exactly when it is not one already (and nothing else changed)"""
        g = it.ctx.ghost
        parser, tr, ps = g['pc_calls'][0]
        base_ps = given_ps if given_ps is not None else g['default_ps']
        pair, base = g['pair'], g['base']
        if pair is None or pair in base:
            return ps is base_ps
        if ps is base_ps or not isinstance(ps, Obj):
            return False
        got = ps.fields['latex_group_delimiters']
        if not isinstance(got, PyList) or len(got.items) != len(base) + 1:
            return False
        return [tuple(x) for x in got.items[:-1]] == base and tuple(got.items[-1]) == pair and \
            ps.fields['macro_escape_char'] is base_ps.fields['macro_escape_char']

    @reg.spec('requires_stop')
    def requires_stop(it):
        g = it.ctx.ghost
        return g['stop_brace_close'] is not None or g['stop_env'] is not None or g['stop_math'] is not None
    NODES_ENS = [('internal:reads-general-nodes-from-pos',
                  "one_call_with(self, pos, parsing_state, 'LatexGeneralNodesParser', require_stop_condition_met=requires_stop())"),
                 ('internal:the-stop-conditions-are-exactly-the-requested-ones', 'stop_conditions_as_requested()'),
                 ('internal:the-stop-brace-pair-is-a-group-delimiter-of-the-state-used', 'nodes_state_ok(parsing_state)'),
                 ('internal:returns-the-list-its-position-and-the-length-up-to-the-reader',
                  'implies(pc_node() is not None, result[0] is pc_node() and result[1] == pc_node().pos and '
                  'result[2] == pc_reader_after() - pc_node().pos)'),
                 ('internal:nothing-read-is-reported-as-None', 'implies(pc_node() is None, result[0] is None and result[1] is None and result[2] is None)')]
    INL_NODES = CTORS | {TR + '.cur_pos', 'pylatexenc.latexnodes._tokenreaderbase.LatexTokenReaderBase.cur_pos'}
    c = Contract(WM + '_pyltxenc2_LatexWalker_get_latex_nodes', setup=lambda it: setup_nodes(it, False), ensures=NODES_ENS,
                 raises=PROPAGATES, modifies=[])
    units['get_latex_nodes'] = FunctionUnit(c, inline=INL_NODES, split_depth=6)
    c = Contract(WM + '_pyltxenc2_LatexWalker_get_latex_nodes', setup=lambda it: setup_nodes(it, True), ensures=NODES_ENS[1:2],
                 raises=PROPAGATES, modifies=[])
    units['get_latex_nodes[stop conditions]'] = FunctionUnit(c, name='get_latex_nodes[stop conditions]', inline=INL_NODES, split_depth=6)


    # ---- _LegacyPyltxenc2MacroArgsParserWrapper.parse -------------------------------------------------------------------------------------------
    WRAP = 'pylatexenc.macrospec._argumentsparser._LegacyPyltxenc2MacroArgsParserWrapper'
    PARGS = 'pylatexenc.latexnodes._parsedargs.ParsedArguments'

    def setup_wrap(it):
        ctx = it.ctx
        s = sym_str(it, 's')
        w = new_obj(it, W, {'s': s, 'tolerant_parsing': sym_bool(it, 'tolerant_parsing')}, tag='latex_walker')
        tr = new_obj(it, TR, {'s': s, '_pos': sym_int(it, 'reader_pos', lo=0), 'tolerant_parsing': w.fields['tolerant_parsing']}, tag='token_reader')
        ctx.assume(zint(tr.fields['_pos']) <= zint(V.slen(s)))
        ps = mk_parsing_state(it, 'parsing_state', with_context=False)
        argd = new_obj(it, PARGS, {'argnlist': PyList([]), 'arguments_spec_list': PyList([])}, tag='nodeargd')
        apos, alen = sym_int(it, 'apos', lo=0), sym_int(it, 'alen', lo=0)
        ctx.assume(z3.And(zint(tr.fields['_pos']) <= apos, apos + alen <= zint(V.slen(s))))
        shape = ctx.choose(4, 'what the legacy args parser returns')
        new_ps = mk_parsing_state(it, 'new_parsing_state', with_context=False) if shape in (2, 3) else None
        inner_ps = mk_parsing_state(it, 'inner_parsing_state', with_context=False) if shape == 3 else None
        ctx.ghost['legacy_result'] = (argd, apos, alen, new_ps, inner_ps)
        calls = ctx.ghost.setdefault('parse_args_calls', [])

        def parse_args(it2, sf, a, kw):
            calls.append(dict(kw))
            if shape == 0:
                return (argd, apos, alen)
            d = PyDict()
            if new_ps is not None:
                d.items['new_parsing_state'] = new_ps
            if inner_ps is not None:
                d.items['inner_parsing_state'] = inner_ps
            return (argd, apos, alen, d)
        ap = AbsVal(z3.Int('legacy_args_parser'), 'args_parser', methods={'parse_args': parse_args})
        me = new_obj(it, WRAP, {'args_parser': ap, 'spec_object': None}, tag='self')
        return {'self': me, 'latex_walker': w, 'token_reader': tr, 'parsing_state': ps, 'kwargs': PyDict()}

    @reg.spec('legacy_handover')
    def legacy_handover(it, me, w, tr0, ps, res):
        g = it.ctx.ghost
        argd, apos, alen, new_ps, inner_ps = g['legacy_result']
        calls = g.get('parse_args_calls', [])
        if len(calls) != 1 or calls[0].get('w') is not w or calls[0].get('parsing_state') is not ps:
            return False
        ok = res is argd
        # the states are stored under the names the spec's parsing-state hooks read (see
        # _legacy_pyltxenc2_CallableSpec_init_from_args_parser): after-state and environment-body state
        ok = ok and argd.fields.get('_legacy_pyltxenc2_new_parsing_state') is new_ps
        ok = ok and argd.fields.get('_legacy_pyltxenc2_inner_parsing_state') is inner_ps
        return z_and(ok, it.truth_term(it.equal_term(calls[0].get('pos'), tr0)))
    @reg.spec('legacy_span')
    def legacy_span(it, res, reader_pos):
        argd, apos, alen, _n, _i = it.ctx.ghost['legacy_result']
        return z_and(V.z_eq(it.getattr(res, 'pos'), apos), V.z_eq(it.getattr(res, 'pos_end'), simp(apos + alen)),
                     V.z_eq(reader_pos, simp(apos + alen)))
    RDP = 'token_reader._pos'
    c = Contract(WRAP + '.parse', setup=setup_wrap,
                 ensures=[('internal:the-legacy-parser-is-asked-once-at-the-reader-position-and-its-states-are-handed-on',
                           'legacy_handover(self, latex_walker, old(%s), parsing_state, result[0])' % RDP),
                          ('the-arguments-object-spans-what-the-legacy-parser-reported-and-the-reader-is-left-after-it',
                           'legacy_span(result[0], %s)' % RDP),
                          ('no-state-change-is-returned-directly', 'result[1] is None')],
                 modifies=[('token_reader._pos', 'int'), ('result[0].pos', 'int'), ('result[0].pos_end', 'int')])
    c.allow_new_attrs = True
    units['_LegacyPyltxenc2MacroArgsParserWrapper.parse'] = FunctionUnit(c, inline={TR + '.cur_pos', TR + '.move_to_pos_chars',
        'pylatexenc.latexnodes._tokenreaderbase.LatexTokenReaderBase.cur_pos'})

    # ---- the legacy argument views -------------------------------------------------------------------------------------------------------------------
    # every signature over the three letters up to four slots (121).  (The name is not ARGSPECS: a list of that name is bound again
    # further down in this function, and the closure below would read THAT one -- which is how seed C16_7, needing two leading
    # stars, went unnoticed until this list got its own name.)
    import itertools as _it
    VIEW_ARGSPECS = [''.join(t) for n in range(5) for t in _it.product('*[{', repeat=n)]

    def setup_views(it):
        sp = VIEW_ARGSPECS[it.ctx.choose(len(VIEW_ARGSPECS), 'argspec')]
        items = [AbsVal(z3.Int('arg%d' % j), 'node', attrs={'truth': lambda i2, sf: True}) for j in range(len(sp))]
        argd = new_obj(it, PARGS, {'argnlist': PyList(items), 'arguments_spec_list': PyList([None] * len(sp)), '_argspec': sp}, tag='self')
        it.ctx.ghost['view_in'] = (sp, items)
        return {'self': argd}

    @reg.spec('documented_view')
    def documented_view(it, res):
        sp, items = it.ctx.ghost['view_in']
        k = len(sp) - len(sp.lstrip('*'))
        rest = sp[k:]
        if rest[:1] == '[' and all(c == '{' for c in rest[1:]):
            want = (items[k], items[k + 1:])
        else:
            want = (None, items)
        got_opt, got_args = res
        got_list = got_args.items if isinstance(got_args, PyList) else list(got_args)
        return got_opt is want[0] and len(got_list) == len(want[1]) and all(a is b for a, b in zip(got_list, want[1]))
    c = Contract(PARGS + '.legacy_nodeoptarg_nodeargs', setup=setup_views,
                 ensures=[('the-documented-split-into-optional-and-mandatory-arguments', 'documented_view(result)')], modifies=[])
    units['legacy_nodeoptarg_nodeargs'] = FunctionUnit(c, inline={PARGS + '.argspec'})

    # ---- every spelling of an argument signature gives the same argument letters (real constructors executed) -------------------------------
    def lemma_spellings(it):
        import itertools
        ctx = it.ctx
        ms = it.program.module('pylatexenc.macrospec')
        MacroSpec = it.module_get(ms, 'MacroSpec')
        std_macro = it.module_get(ms, 'std_macro')
        MSAP = it.module_get(ms, 'MacroStandardArgsParser')

        def letters(spec):
            ap = spec.fields['arguments_parser']
            if ap.cls.name == 'LatexNoArgumentsParser':
                return ''
            if ap.cls.name == '_LegacyPyltxenc2MacroArgsParserWrapper':
                return ap.fields['args_parser'].fields['argspec']
            out = ''
            for a in ap.fields['arguments_spec_list'].items:
                out += a.fields['parser'] if isinstance(a, Obj) else a
            return out
        bad = []
        n = 0
        for k in range(0, 4):
            for t in itertools.product('*[{', repeat=k):
                a = ''.join(t)
                spellings = {
                    'arguments_spec_list=': lambda: it.call(MacroSpec, ['foo'], {'arguments_spec_list': a}),
                    'positional': lambda: it.call(MacroSpec, ['foo', a], {}),
                    'args_parser=<string>': lambda: it.call(MacroSpec, ['foo'], {'args_parser': a}),
                    'args_parser=MacroStandardArgsParser': lambda: it.call(MacroSpec, ['foo'], {'args_parser': it.call(MSAP, [a], {})}),
                    'std_macro(name, argspec)': lambda: it.call(std_macro, ['foo', a], {}),
                }
                for nm, mk in spellings.items():
                    n += 1
                    try:
                        got = letters(mk())
                    except PyExc as e:
                        got = 'raised %s' % e.value.cls.name
                    if got != a:
                        bad.append((a, nm, got))
        ctx.prove('spellings: every way of writing an argument signature over * [ { (up to length 3) yields exactly those argument letters',
                  not bad, 'post', src='offending (signature, spelling, result): %r' % bad[:6])
        # std_macro(name, optarg, numargs)
        bad = []
        for optarg in (False, True, None):
            for num in (0, 1, 2):
                want = ('[' if optarg else '') + '{' * num
                for nm, mk in (('std_macro(name, optarg, n)', lambda: it.call(std_macro, ['foo', optarg, num], {})),
                               ('std_macro((name, optarg, n))', lambda: it.call(std_macro, [('foo', optarg, num)], {}))):
                    try:
                        got = letters(mk())
                    except PyExc as e:
                        got = 'raised %s' % e.value.cls.name
                    if got != want:
                        bad.append((optarg, num, nm, got))
        ctx.prove('spellings: std_macro(name, optarg, numargs) yields an optional slot iff optarg and numargs mandatory slots',
                  not bad, 'post', src='offending: %r' % bad[:6])
        # is_math_mode= (the pylatexenc-2 spelling of a math environment) reaches the body parsing state
        EnvironmentSpec = it.module_get(ms, 'EnvironmentSpec')
        std_environment = it.module_get(ms, 'std_environment')
        bad = []
        for flag in (True, False, None):
            makers = {'EnvironmentSpec(name, is_math_mode=)': lambda: it.call(EnvironmentSpec, ['fooenv'], {'is_math_mode': flag}),
                      'std_environment(name, argspec, is_math_mode=)': lambda: it.call(std_environment, ['fooenv', '{'], {'is_math_mode': flag}),
                      'std_macro(..., make_environment_spec=True, environment_is_math_mode=)':
                          lambda: it.call(std_macro, ['fooenv', '{'], {'make_environment_spec': True, 'environment_is_math_mode': flag})}
            for nm, mk in makers.items():
                try:
                    sp = mk()
                    d = sp.fields.get('body_parsing_state_delta')
                    got = d.cls.name if isinstance(d, Obj) else d
                except PyExc as e:
                    got = 'raised %s' % e.value.cls.name
                want = 'ParsingStateDeltaEnterMathMode' if flag else None
                if got != want:
                    bad.append((nm, flag, got))
        ctx.prove('spellings: is_math_mode=True declares the enter-math-mode body delta in every legacy spelling, and nothing otherwise',
                  not bad, 'post', src='offending (spelling, flag, body delta): %r' % bad[:6])
    units['argument-signature-spellings'] = LemmaUnit('argument-signature-spellings', lemma_spellings,
                                                      functions=['pylatexenc.macrospec._specclasses.CallableSpec.__init__',
                                                                 'pylatexenc.macrospec._spechelpers.std_macro'])

    # ---- the legacy verbatim arguments parser (\verb, verbatim environment, |...| specials) ------------------------------------------------------
    VAP = 'pylatexenc.macrospec._pyltxenc2_argparsers._verbatimargsparser.VerbatimArgsParser'
    KINDS = ['verbatim-environment', 'verb-macro', 'specials-delimiters']

    def setup_vap(it):
        ctx = it.ctx
        s = sym_str(it, 's')
        w = new_obj(it, W, {'s': s, 'tolerant_parsing': sym_bool(it, 'tolerant_parsing'), 'debug_nodes': False}, tag='w')
        kind = KINDS[ctx.choose(3, 'verbatim_arg_type')]
        ctx.ghost['vap_kind'] = kind
        d0, d1 = sym_str(it, 'open_delim'), sym_str(it, 'close_delim')
        ctx.assume(z3.And(V.slen(d0) == 1, V.slen(d1) == 1))
        pcls = resolve_class(it, 'pylatexenc.macrospec._pyltxenc2_argparsers._verbatimargsparser.ParsedVerbatimArgs')
        me = new_obj(it, VAP, {'verbatim_arg_type': kind, 'verbatim_environment_name': sym_str(it, 'envname'), 'verbatim_argspec': '',
                               'verbatim_parsed_args_class': pcls, 'specials_delimiters': (d0, d1), 'verbatim_std_arg_parser': None,
                               'argspec': '{'}, tag='self')
        pos = sym_int(it, 'pos', lo=0)
        ctx.assume(pos <= zint(V.slen(s)))
        return {'self': me, 'w': w, 'pos': pos, 'parsing_state': mk_parsing_state(it, 'parsing_state', with_context=False)}
    reg.spec('vap_kind')(lambda it: it.ctx.ghost['vap_kind'])
    c = Contract(VAP + '.parse_args', setup=setup_vap,
                 requires=[('position-inside-the-string', '0 <= pos and pos <= len(w.s)')],
                 ensures=[('the-reported-span-lies-in-the-string-at-or-after-pos',
                           'pos <= result[1] and 0 <= result[2] and result[1] + result[2] <= len(w.s)'),
                          ('the-verbatim-node-is-the-source-text-between-the-delimiters',
                           'result[0].argnlist[0].chars == w.s[result[0].argnlist[0].pos : result[0].argnlist[0].pos_end] and '
                           'pos <= result[0].argnlist[0].pos and result[0].argnlist[0].pos_end <= result[1] + result[2]')],
                 raises={EXC + 'LatexWalkerParseError': {'ensures': [
                     ('located-error', 'exc.pos is not None and 0 <= exc.pos and exc.pos <= len(w.s)')]}},
                 modifies=[])
    c.extra_olds = ['pos']
    units['VerbatimArgsParser.parse_args'] = FunctionUnit(c, inline={
        W + '.make_node', 'pylatexenc.macrospec._pyltxenc2_argparsers._verbatimargsparser.ParsedVerbatimArgs.__init__',
        'pylatexenc.macrospec._pyltxenc2_argparsers._base.ParsedMacroArgs.__init__', PARGS + '.__init__',
        EXC + 'LatexWalkerParseError.__init__', EXC + 'LatexWalkerLocatedError.__init__', EXC + 'LatexWalkerError.__init__'})
    reg.add_loop(LoopContract(VAP + '.parse_args', 0, invariant=[('position-stays-inside-the-string', 'old(pos) <= pos and pos <= len(w.s)')],
                              variant='len(w.s) - pos'))

    # ---- the legacy standard arguments parser: the slots are read one after the other, each from where the previous one ended ---------
    MSAP = 'pylatexenc.macrospec._pyltxenc2_argparsers._base.MacroStandardArgsParser'
    ARGSPECS = [''] + [a for a in '{[*'] + [a + b for a in '{[*' for b in '{[*']

    def setup_msap(it):
        ctx = it.ctx
        spec = ARGSPECS[ctx.choose(len(ARGSPECS), 'argspec')]
        s = sym_str(it, 's')
        log = ctx.ghost.setdefault('slot_reads', [])
        ps = mk_parsing_state(it, 'parsing_state', with_context=False)

        def some_node(it2, tag):
            return AbsVal(it2.ctx.fresh_int(tag), 'node', attrs={'truth': lambda it3, sf: True})

        def span_after(it2, p):
            np_, nl = it2.ctx.fresh_int('np'), it2.ctx.fresh_int('nl')
            it2.ctx.assume(z3.And(np_ >= zint(p), nl >= 0))
            return np_, nl

        def get_latex_expression(it2, sf, a, kw):
            p = a[0] if a else kw['pos']
            np_, nl = span_after(it2, p)
            n = some_node(it2, 'expr')
            log.append(('{', p, n, simp(np_ + nl), kw.get('parsing_state'), kw.get('strict_braces')))
            return (n, np_, nl)

        def get_latex_maybe_optional_arg(it2, sf, a, kw):
            p = a[0] if a else kw['pos']
            if it2.ctx.choose(2, 'an optional argument is present') == 0:
                log.append(('[', p, None, p, kw.get('parsing_state'), None))
                return None
            np_, nl = span_after(it2, p)
            n = some_node(it2, 'optarg')
            log.append(('[', p, n, simp(np_ + nl), kw.get('parsing_state'), None))
            return (n, np_, nl)

        def get_token(it2, sf, a, kw):
            p = a[0] if a else kw['pos']
            k = it2.ctx.choose(4, 'token at the star slot')
            if k == 3:
                # the input ends here: the legacy get_token() raises end-of-stream; the slot is simply absent
                log.append(('*', p, None, p, None, None))
                raise PyExc(it2.call(resolve_class(it2, EXC + 'LatexWalkerEndOfStream'), [], {}), 'w.get_token at the end of the input')
            tp = it2.ctx.fresh_int('tok.pos')
            it2.ctx.assume(tp >= zint(p))                   # whitespace before the token is skipped by the tokenizer
            if k == 0:
                tok = mk_token(it2, 'char', V.sconcat('*', it2.fresh_str('more_chars')), tp, simp(tp + 1), '')
                log.append(('*', p, 'star', simp(tp + 1), None, tp))
            else:
                tok = mk_token(it2, ['macro', 'char'][k - 1], 'x', tp, simp(tp + 1), '')
                log.append(('*', p, None, p, None, tp))
            return tok

        def make_node(it2, sf, a, kw):
            return AbsVal(it2.ctx.fresh_int('starnode'), 'node', attrs=dict(kw, truth=lambda it3, sf2: True, node_class=a[0].name))
        w = AbsVal(z3.Int('w'), 'walker', attrs={'s': s},
                   methods={'get_latex_expression': get_latex_expression, 'get_latex_maybe_optional_arg': get_latex_maybe_optional_arg,
                            'get_token': get_token, 'make_node': make_node, 'make_parsing_state': lambda it2, sf, a, kw: ps})
        me = new_obj(it, MSAP, {'argspec': spec, 'optional_arg_no_space': sym_bool(it, 'optional_arg_no_space'),
                                'args_math_mode': None, '_like_pylatexenc1x_ignore_leading_star': False}, tag='self')
        pos = sym_int(it, 'pos', lo=0)
        ctx.assume(pos <= zint(V.slen(s)))
        return {'self': me, 'w': w, 'pos': pos, 'parsing_state': ps}

    @reg.spec('slots_read_one_after_the_other')
    def slots_read_one_after_the_other(it, me, pos, ps, result):
        """the log of reads made through the walker: slot j is read at the position where slot j-1 ended (for a star: just
        after the star, whatever whitespace stood before it; for an absent optional argument or star: unchanged), in the given
        parsing state; the argument list holds the nodes read, None for absent ones; the reported span is (pos, end - pos)"""
        log = it.ctx.ghost.get('slot_reads', [])
        spec = me.fields['argspec']
        parsed, rpos, rlen = result
        nodes = parsed.fields['argnlist'].items
        out = [len(nodes) == len(spec), it.truth_term(it.equal_term(rpos, pos))]
        cur = pos
        k = 0
        for j, letter in enumerate(spec):
            if k >= len(log) or log[k][0] != letter:
                # an optional argument that is not even looked for because whitespace precedes it
                if letter == '[' and nodes[j] is None:
                    continue
                return False
            (_l, p, node, nxt, st, extra) = log[k]
            k += 1
            out.append(it.truth_term(it.equal_term(p, cur)))
            if letter != '*':
                out.append(st is ps)
            if letter == '{':
                it.ctx.ghost.setdefault('strict_braces_asked', []).append(extra)
            if node == 'star':
                nd = nodes[j]
                out.append(isinstance(nd, AbsVal) and nd.attrs.get('node_class') == 'LatexCharsNode' and nd.attrs.get('chars') == '*')
                if isinstance(nd, AbsVal) and 'pos' in nd.attrs:
                    out.append(it.truth_term(it.equal_term(nd.attrs['pos'], extra)))
            else:
                out.append(nodes[j] is node)
            cur = nxt
        out.append(k == len(log))
        out.append(it.truth_term(it.equal_term(rlen, simp(zint(cur) - zint(pos)))))
        return z_and(*out)
    @reg.spec('mandatory_slots_fail_where_the_new_parser_fails')
    def mandatory_slots_fail(it):
        """a mandatory slot is read with the walker's own strictness (strict_braces=None), so that at a closing brace it raises in
        strict mode exactly as MacroSpec(..., '{') does; strict_braces=False makes it succeed with an empty chars node"""
        return all(x is None for x in it.ctx.ghost.get('strict_braces_asked', []))
    c = Contract(MSAP + '.parse_args', setup=setup_msap,
                 ensures=[('internal:the-slots-are-read-one-after-the-other-each-from-where-the-previous-one-ended',
                           'slots_read_one_after_the_other(self, pos, parsing_state, result)'),
                          ('internal:a-mandatory-slot-at-a-closing-brace-fails-in-strict-mode-as-the-new-parser-does',
                           'mandatory_slots_fail_where_the_new_parser_fails()')],
                 modifies=[])
    c.extra_olds = ['pos']
    units['MacroStandardArgsParser.parse_args'] = FunctionUnit(c, inline={
        'pylatexenc.macrospec._pyltxenc2_argparsers._base.ParsedMacroArgs.__init__', PARGS + '.__init__'})

    for k in units:
        contracts.REPLAYERS[k] = replay
    contracts.EXTRA_ASSUMPTIONS['C16'] = [
        "parse_content enters as an arbitrary outcome (a node with an arbitrary span, nothing, or a parse error); that the legacy "
        "call then agrees with the new parser follows because it IS one call of that parser (clause 'one_call_with')",
        "MacroStandardArgsParser.parse_args is verified slot by slot against the legacy walker methods it calls (signatures up to two "
        "slots, args_math_mode None); that its result equals LatexArgumentsParser's on all inputs is a two-program equivalence, not "
        "claimed; the spellings are compared by the per-slot argument letters they produce",
        "get_token (a thin composition make_token_reader(pos).peek_token(derived state)) has no unit"]
    return {'C16': units}


NATIVE = PRELUDE + r'''
import logging, warnings
logging.disable(logging.CRITICAL); warnings.simplefilter("ignore")
from pylatexenc.latexwalker import LatexWalker, LatexWalkerError, get_default_latex_context_db
from pylatexenc.latexnodes import parsers as Ps, nodes as N
from pylatexenc import macrospec

def dump(n):
    if n is None: return None
    if isinstance(n, (list, N.LatexNodeList)): return [dump(x) for x in n]
    d = [type(n).__name__, n.pos, n.pos_end]
    for f in ("chars", "comment", "macroname", "environmentname", "specials_chars", "delimiters", "displaytype"):
        if hasattr(n, f): d.append((f, getattr(n, f)))
    if getattr(n, "nodeargd", None) is not None: d.append(("args", dump(n.nodeargd.argnlist)))
    if hasattr(n, "nodelist"): d.append(("nodelist", dump(n.nodelist)))
    return d

def same(a, b):
    return dump(a) == dump(b)

def new(s, pos, parser, tol, state=None):
    w = LatexWalker(s, tolerant_parsing=tol)
    tr = w.make_token_reader(pos=pos)
    try:
        n, _ = w.parse_content(parser, token_reader=tr, parsing_state=state(w) if state else None)
        return ("ok", n, tr.cur_pos())
    except LatexWalkerError as e:
        return ("err", type(e).__name__, None)

def old(fn, s, pos, tol, **kw):
    w = LatexWalker(s, tolerant_parsing=tol)
    try:
        return ("ok", getattr(w, fn)(pos, **kw), None)
    except LatexWalkerError as e:
        return ("err", type(e).__name__, None)

SOUP = ["{a}", " {a} b", "[a] b", "x", "", "}", "a {b} c] d", "[a {b} c] d", r"\begin{e}x\end{e} y", r"\begin{e}x", r"\foo{a}", "$a$ b",
        "a % c\n b", r"\item[x] y", "(a) b", "<a> b", r"a\end{e} b", "a $ b"]

def search():
    for s in SOUP:
        for pos in range(len(s) + 1):
            for tol in (False, True):
                for bt, pair in (("{", ("{", "}")), ("[", ("[", "]")), ("(", ("(", ")")), ("<", ("<", ">")), (("<", ">"), ("<", ">"))):
                    o = old("get_latex_braced_group", s, pos, tol, brace_type=bt)
                    n = new(s, pos, Ps.LatexDelimitedGroupParser(delimiters=pair, allow_pre_space=True), tol)
                    if o[0] != n[0] or (o[0] == "err" and o[1] != n[1]):
                        return "get_latex_braced_group(%r, %d, %r) tolerant=%r: %r but the group parser: %r" % (s, pos, bt, tol, o, n)
                    if o[0] == "ok":
                        node, p, l = o[1]
                        if n[1] is None:
                            if node is not None: return "get_latex_braced_group(%r, %d, %r): %r but the group parser read nothing" % (s, pos, bt, o[1])
                        elif not same(node, n[1]) or p != n[1].pos or l != n[1].pos_end - n[1].pos:
                            return "get_latex_braced_group(%r, %d, %r) tolerant=%r returns %r; the group parser gives %r" % (s, pos, bt, tol, o[1], n[1])
                o = old("get_latex_maybe_optional_arg", s, pos, tol)
                n = new(s, pos, Ps.LatexOptionalSquareBracketsParser(allow_pre_space=True), tol)
                if o[0] != n[0]:
                    return "get_latex_maybe_optional_arg(%r, %d) tolerant=%r: %r but the parser: %r" % (s, pos, tol, o, n)
                if o[0] == "ok" and ((o[1] is None) != (n[1] is None) or (o[1] is not None and (not same(o[1][0], n[1]) or o[1][1] != n[1].pos or o[1][2] != n[1].pos_end - n[1].pos))):
                    return "get_latex_maybe_optional_arg(%r, %d) tolerant=%r returns %r; the parser gives %r" % (s, pos, tol, o[1], n[1])
                o = old("get_latex_expression", s, pos, tol, strict_braces=True)
                n = new(s, pos, Ps.LatexExpressionParser(return_full_node_list=False, single_token_requiring_arg_is_error=not tol,
                                                         allow_pre_space=True, allow_pre_comments=True), tol)
                if o[0] != n[0]:
                    return "get_latex_expression(%r, %d, strict_braces=True) tolerant=%r: %r but the expression parser: %r" % (s, pos, tol, o, n)
                if o[0] == "ok" and n[1] is not None and o[1][0] is not None and not isinstance(n[1], (N.LatexMacroNode, N.LatexSpecialsNode)):
                    if not same(o[1][0], n[1]) or o[1][1] != n[1].pos or o[1][2] != n[1].pos_end - n[1].pos:
                        return "get_latex_expression(%r, %d) tolerant=%r returns %r; the expression parser gives %r" % (s, pos, tol, o[1], n[1])
                for stop in (None, "}", "]", ")", ("<", ">")):
                    kw = {} if stop is None else dict(stop_upon_closing_brace=stop)
                    o = old("get_latex_nodes", s, pos, tol, **kw)
                    cl = None if stop is None else (stop[1] if isinstance(stop, tuple) else stop)
                    pair = None if stop is None else (stop if isinstance(stop, tuple) else ({"}": "{", "]": "[", ")": "("}[stop], stop))
                    def st(w, pair=pair):
                        ps = w.make_parsing_state()
                        if pair is not None and pair not in ps.latex_group_delimiters:
                            ps = ps.sub_context(latex_group_delimiters=list(ps.latex_group_delimiters) + [pair])
                        return ps
                    gp = Ps.LatexGeneralNodesParser(
                        stop_token_condition=(lambda t, cl=cl: cl is not None and t.tok == "brace_close" and t.arg == cl),
                        require_stop_condition_met=cl is not None,
                        handle_stop_condition_token=lambda token, latex_walker, token_reader, parsing_state: token_reader.move_past_token(token))
                    n = new(s, pos, gp, tol, state=st)
                    if o[0] != n[0]:
                        return "get_latex_nodes(%r, %d, %r) tolerant=%r: %r but the general nodes parser: %r" % (s, pos, kw, tol, o, n)
                    if o[0] == "ok" and n[1] is not None:
                        nl, p, l = o[1]
                        if dump(nl) != dump(n[1]) or p != n[1].pos or l != n[2] - n[1].pos:
                            return "get_latex_nodes(%r, %d, %r) tolerant=%r returns %r; the general nodes parser gives %r up to %r" % (s, pos, kw, tol, o[1], n[1], n[2])
    return None

def strict_mandatory_slot():
    from pylatexenc.macrospec import MacroSpec, MacroStandardArgsParser, LatexContextDb
    out = {}
    for nm, sp in (("MacroStandardArgsParser", MacroSpec("m", args_parser=MacroStandardArgsParser("{"))), ("new", MacroSpec("m", "{"))):
        db = LatexContextDb(); db.add_context_category("x", macros=[sp])
        try:
            nl, _ = LatexWalker(r"{\m}", latex_context=db, tolerant_parsing=False).parse_content(Ps.LatexGeneralNodesParser())
            out[nm] = ("ok", dump(nl))
        except LatexWalkerError as e:
            out[nm] = ("err", type(e).__name__)
    if out["MacroStandardArgsParser"][0] != out["new"][0]:
        return "strict parse of '{\\m}': MacroSpec('m', args_parser=MacroStandardArgsParser('{')) gives %r, MacroSpec('m', '{') gives %r" % (
            out["MacroStandardArgsParser"], out["new"])

def spellings():
    """every spelling of an argument signature gives the same argument letters and the same parse"""
    from pylatexenc.macrospec import MacroSpec, std_macro, std_environment, EnvironmentSpec, MacroStandardArgsParser, LatexContextDb
    import itertools
    for flag in (True, False, None):
        for nm, sp in (("EnvironmentSpec(is_math_mode=)", EnvironmentSpec("fooenv", "{", is_math_mode=flag)),
                       ("std_environment(is_math_mode=)", std_environment("fooenv", "{", is_math_mode=flag)),
                       ("std_macro(make_environment_spec=True, environment_is_math_mode=)",
                        std_macro("fooenv", "{", make_environment_spec=True, environment_is_math_mode=flag))):
            db = LatexContextDb(); db.add_context_category("x", environments=[sp])
            nl, _ = LatexWalker(r"a \begin{fooenv}{p} body \end{fooenv} z", latex_context=db).parse_content(Ps.LatexGeneralNodesParser())
            env = [x for x in nl if isinstance(x, N.LatexEnvironmentNode)][0]
            got = env.nodelist[0].parsing_state.in_math_mode
            if bool(got) != bool(flag):
                return "%s with flag %r: the environment body is parsed with in_math_mode=%r" % (nm, flag, got)
    for n in range(0, 4):
        for t in itertools.product("*[{", repeat=n):
            a = "".join(t)
            specs = {"arguments_spec_list": MacroSpec("foo", arguments_spec_list=a), "positional": MacroSpec("foo", a),
                     "args_parser string": MacroSpec("foo", args_parser=a), "MacroStandardArgsParser": MacroSpec("foo", args_parser=MacroStandardArgsParser(a)),
                     "std_macro": std_macro("foo", a)}
            outs = {}
            for nm, sp in specs.items():
                db = LatexContextDb(); db.add_context_category("x", macros=[sp])
                doc = r"ab \foo*[o]{m}{n} z"
                if a[:2] == "{*" and "[" not in a:
                    doc = r"ab \foo{o} *{m}{n} z"       # whitespace before the star is skipped by every spelling
                if a[:2] == "{[":
                    doc = r"ab \foo{o} [m]{n}{p} z"     # ... and before an optional argument
                if a in ("*", "{*", "[*"):
                    doc = {"*": r"ab \foo", "{*": r"ab \foo{o}", "[*": r"ab \foo[o]"}[a]      # a star slot at the end of the input
                try:
                    nl, _ = LatexWalker(doc, latex_context=db, tolerant_parsing=False).parse_content(Ps.LatexGeneralNodesParser())
                    m = [x for x in nl if isinstance(x, N.LatexMacroNode)][0]
                    if m.nodeargd is None:
                        outs[nm] = (m.pos, m.pos_end, "no arguments object")
                        continue
                    outs[nm] = (m.pos, m.pos_end, [None if x is None else (type(x).__name__, x.pos, x.pos_end) for x in m.nodeargd.argnlist], m.nodeargd.argspec)
                except LatexWalkerError as e:
                    outs[nm] = ("err", type(e).__name__)
            ref = outs["arguments_spec_list"]
            for nm, v in outs.items():
                if v != ref:
                    return "argument signature %r: spelling %s gives %r, arguments_spec_list= gives %r" % (a, nm, v, ref)
            # the legacy views
            if ref[0] != "err":
                db = LatexContextDb(); db.add_context_category("x", macros=[specs["positional"]])
                nl, _ = LatexWalker(r"ab \foo*[o]{m}{n} z", latex_context=db).parse_content(Ps.LatexGeneralNodesParser())
                m = [x for x in nl if isinstance(x, N.LatexMacroNode)][0]
                al = list(m.nodeargd.argnlist)
                k = len(a) - len(a.lstrip("*"))
                rest = a[k:]
                want = (al[k], al[k+1:]) if rest[:1] == "[" and all(c == "{" for c in rest[1:]) else (None, al)
                if m.nodeoptarg is not want[0] or list(m.nodeargs) != list(want[1]):
                    return "signature %r: nodeoptarg / nodeargs are %r / %r, the documented split gives %r / %r" % (a, m.nodeoptarg, m.nodeargs, want[0], want[1])
    return None
'''


def replay(o, model):
    if 'a-mandatory-slot-at-a-closing-brace' in (o.get('name') or ''):
        # the replay of this clause looks at its own witness first
        return NATIVE + '''
m = strict_mandatory_slot()
if m: reproduced(m, witness_class="legacy-mandatory-argument-at-a-closing-brace")
m = spellings() or search()
if m: reproduced(m)
not_reproduced()
'''
    return NATIVE + '''
m = spellings() or search()
if m: reproduced(m)
m = strict_mandatory_slot()
if m: reproduced(m, witness_class="legacy-mandatory-argument-at-a-closing-brace")
not_reproduced()
'''
