"""C02 -- parsing recovers the structure the document was written with: the anchored mechanisms, each under contract.

The end-to-end statement (the tree IS the derivation, for every derivation of the document grammar) needs a formal
grammar and a completeness proof over ~15 mutually recursive parsers; no per-function contract carries it and it is
not claimed (DESIGN section 6).  Decided here, each a per-function statement taken from the property text:

  argument letters   LatexStandardArgumentParser.get_arg_parser_instance: the documented decision table
                     m { o [ s * t<c> r<c1c2> d<c1c2> v v<c1c2> e{chars} -> (parser class, delimiters, optional,
                     allow_pre_space, ...); get_standard_argument_parser caches by (arg_spec, options)
  one parser per slot LatexArgumentsParser.parse (unit shared with C10): slot j gets the result of parser j, in order
  optional star      LatexOptionalCharsMarkerParser.parse for a one-character marker: the marker node iff the next
                     token is that character (without leading space when not allowed), read at most once, otherwise
                     None and the reader is back where it was
  optional / delimited arguments, groups, math
                     LatexDelimitedExpressionParser.parse (contracts/delimited.py): absent optional -> (None, None)
                     and nothing consumed; allow_pre_space=False is the line-break rule
  brackets           LatexDelimitedGroupParserInfo.get_group_parsing_state adds a delimiter pair to the group delimiters
                     only when absent; make_child_parsing_state gives children the OUTER state unless they open with the
                     same delimiter; stop_token_condition: brace_close with the matching closer
  environments       the body stops exactly at end_environment with the same name; the call parsers build the node from
                     the arguments object the arguments parser returned and the body the body parser returned, spanning
                     from the call token to the reader
  dispatch           process_one_token (clause added to the C01 unit): token kind -> construct parser
"""
import z3

from pyvc import values as V
from pyvc.values import Obj, PyList, PyDict, AbsVal, Builtin, CharSet, zint, simp, z_and, z_or, z_not
from pyvc.contracts import (Contract, FunctionUnit, LemmaUnit, LoopContract, sym_int, sym_str, sym_bool, new_obj,
                            resolve_class, resolve_function)
from pyvc.smt import EngineError
from pyvc.interp import PyExc
from contracts.tokenizer import mk_parsing_state, mk_token, TR
from contracts.collector import mk_walker_for_parsing, mk_reader_at, W, NODES, EXC, replay as replay_parse
from contracts.mathmode import absfield, mk_state as mk_mode_state

P = 'pylatexenc.latexnodes.parsers.'
STD = P + '_stdarg.LatexStandardArgumentParser'
OPT = P + '_optionals.LatexOptionalCharsMarkerParser'
GINFO = P + '_delimited.LatexDelimitedGroupParserInfo'
BASEINFO = P + '_delimited.LatexDelimitedExpressionParserInfo'
ENVINFO = 'pylatexenc.macrospec._environmentbodyparser.LatexEnvironmentBodyContentsParserInfo'
CALL = 'pylatexenc.macrospec._macrocallparser.'
PS = 'pylatexenc.latexnodes._parsingstate.ParsingState'


def register(reg):
    import contracts
    units = {}

    # ---- the argument letters ----------------------------------------------------------------------------------------------------------
    FORMS = ['m', '{', 'o', '[', 's', '*', 't', 'r', 'd', 'v', 'vd', 'e', 'AnyDelimited', 'AnyDelimitedOptional', 'bad']

    def setup_table(it):
        ctx = it.ctx
        form = FORMS[ctx.choose(len(FORMS), 'argument specification')]
        ctx.ghost['form'] = form
        c1, c2 = sym_str(it, 'c1'), sym_str(it, 'c2')
        ctx.assume(z3.And(V.slen(c1) == 1, V.slen(c2) == 1))
        ctx.assume(z_not(V.char_pred('isspace', V.char_at(c1, 0))))      # t<c>: the marker is a visible character
        ctx.ghost['c1'], ctx.ghost['c2'] = c1, c2
        if form == 't':
            spec = V.sconcat('t', c1)
        elif form in ('r', 'd'):
            spec = V.sconcat(V.sconcat(form, c1), c2)
        elif form == 'vd':
            spec = V.sconcat(V.sconcat('v', c1), c2)
        elif form == 'e':
            spec = 'e{^_}'
        elif form == 'bad':
            spec = 'x'
        else:
            spec = form
        p = new_obj(it, STD, {'arg_spec': spec, 'return_full_node_list': sym_bool(it, 'return_full_node_list'),
                              'expression_single_token_requiring_arg_is_error': sym_bool(it, 'single_token_requiring_arg_is_error'),
                              'allow_pre_space': sym_bool(it, 'allow_pre_space'), '_arg_parser': None}, tag='self')
        return {'self': p, 'arg_spec': spec}

    @reg.spec('documented_parser')
    def documented_parser(it, me, res):
        """the decision table of the class documentation"""
        g = it.ctx.ghost
        form, c1, c2 = g['form'], g['c1'], g['c2']
        aps = me.fields['allow_pre_space']
        if not isinstance(res, Obj):
            return False
        cn, f = res.cls.name, res.fields

        def same(a, b):
            return it.truth_term(it.equal_term(a, b))

        def pair(t, a, b):
            return isinstance(t, tuple) and len(t) == 2 and z_and(same(t[0], a), same(t[1], b))
        if form in ('m', '{'):
            return cn == 'LatexExpressionParser' and z_and(
                same(f['return_full_node_list'], me.fields['return_full_node_list']),
                same(f['single_token_requiring_arg_is_error'], me.fields['expression_single_token_requiring_arg_is_error']),
                same(f['allow_pre_space'], aps), same(f['allow_pre_comments'], aps))
        if form in ('o', '['):
            return cn == 'LatexDelimitedGroupParser' and z_and(pair(f['delimiters'], '[', ']'), f['optional'] is True,
                                                              same(f['allow_pre_space'], aps))
        if form in ('s', '*'):
            return cn == 'LatexOptionalCharsMarkerParser' and z_and(
                isinstance(f['chars_list'], PyList) and len(f['chars_list'].items) == 1 and same(f['chars_list'].items[0], '*'),
                same(f['allow_pre_space'], aps), same(f['return_full_node_list'], me.fields['return_full_node_list']),
                f['following_arg_parser'] is None)
        if form == 't':
            return cn == 'LatexOptionalCharsMarkerParser' and z_and(
                isinstance(f['chars_list'], PyList) and len(f['chars_list'].items) == 1,
                same(f['allow_pre_space'], aps), f['following_arg_parser'] is None)
        if form in ('r', 'd'):
            return cn == 'LatexDelimitedGroupParser' and z_and(pair(f['delimiters'], c1, c2), f['optional'] is (form == 'd'),
                                                              same(f['allow_pre_space'], aps))
        if form == 'v':
            return cn == 'LatexDelimitedVerbatimParser' and f['delimiters'] is None
        if form == 'vd':
            return cn == 'LatexDelimitedVerbatimParser' and pair(f['delimiters'], c1, c2)
        if form == 'e':
            return cn == 'LatexOptionalEmbellishmentArgsParser' and same(f['embellishment_chars'], '^_') is True
        if form.startswith('AnyDelimited'):
            return cn == 'LatexDelimitedMultiDelimGroupParser' and z_and(f['optional'] is (form == 'AnyDelimitedOptional'),
                                                                        same(f['allow_pre_space'], aps))
        return False
    reg.spec('arg_form')(lambda it: it.ctx.ghost['form'])
    c = Contract(STD + '.get_arg_parser_instance', setup=setup_table,
                 ensures=[('the-documented-decision-table', 'documented_parser(self, result)')],
                 raises={'ValueError': {'when': "arg_form() == 'bad'", 'ensures': []}}, modifies=[])
    INL_CTORS = {P + '_expression.LatexExpressionParser.__init__', P + '_base.LatexParserBase.__init__',
                 P + '_delimited.LatexDelimitedGroupParser.__init__', P + '_delimited.LatexDelimitedExpressionParser.__init__',
                 P + '_delimited.LatexDelimitedMultiDelimGroupParser.__init__',
                 OPT + '.__init__', P + '_optionals.LatexOptionalEmbellishmentArgsParser.__init__',
                 P + '_verbatim.LatexDelimitedVerbatimParser.__init__', P + '_verbatim.LatexVerbatimBaseParser.__init__'}
    units['get_arg_parser_instance'] = FunctionUnit(c, inline=INL_CTORS)

    def lemma_cache(it):
        """get_standard_argument_parser: the cached instance is the one built for exactly that specification and options"""
        ctx = it.ctx
        m = it.program.module('pylatexenc.latexnodes.parsers._stdarg')
        f = it.module_get(m, 'get_standard_argument_parser')
        a = it.call(f, ['{'], {})
        b = it.call(f, ['['], {})
        a2 = it.call(f, ['{'], {})
        c1 = it.call(f, ['{'], {'allow_pre_space': False})
        c2 = it.call(f, ['{'], {'allow_pre_space': False})
        d = it.call(f, ['{'], {'allow_pre_space': True})
        t1, t2, t1b = it.call(f, ['t+'], {}), it.call(f, ['t-'], {}), it.call(f, ['t+'], {})
        d1, d2 = it.call(f, ['d()'], {}), it.call(f, ['d<>'], {})
        ctx.prove('get_standard_argument_parser: specifications that differ only after the first letter get their own instances',
                  t1 is t1b and len({id(x) for x in (t1, t2, d1, d2)}) == 4 and t1.fields['arg_spec'] == 't+' and
                  t2.fields['arg_spec'] == 't-' and d1.fields['arg_spec'] == 'd()' and d2.fields['arg_spec'] == 'd<>', 'post')
        ctx.prove('get_standard_argument_parser: the same specification yields the same instance', a is a2 and c1 is c2, 'post')
        ctx.prove('get_standard_argument_parser: different specifications or options never share an instance',
                  len({id(x) for x in (a, b, c1, d)}) == 4, 'post')
        ctx.prove('get_standard_argument_parser: the instance carries the requested specification and options',
                  a.fields['arg_spec'] == '{' and b.fields['arg_spec'] == '[' and c1.fields['allow_pre_space'] is False
                  and d.fields['allow_pre_space'] is True and a.fields['allow_pre_space'] is True, 'post')
    units['get_standard_argument_parser'] = LemmaUnit('get_standard_argument_parser', lemma_cache,
                                                      functions=[P + '_stdarg.get_standard_argument_parser'])

    # ---- optional one-character marker (the star) ---------------------------------------------------------------------------------------
    def mk_marker_parser(it):
        ctx = it.ctx
        c = sym_str(it, 'marker')
        ctx.assume(V.slen(c) == 1)
        ctx.assume(z_not(V.char_pred('isspace', V.char_at(c, 0))))
        p = new_obj(it, OPT, {'chars_list': PyList([c]), 'following_arg_parser': None, 'include_chars_node_before_following_arg': True,
                              'return_none_instead_of_empty': True, 'allow_pre_space': sym_bool(it, 'allow_pre_space'),
                              'return_full_node_list': False, 'collect_chars_with_following_arg_as_delimited_group': False,
                              'max_num_args': None}, tag='self')
        ctx.ghost['marker'] = c
        return p, c

    def setup_single(it):
        ctx = it.ctx
        s = sym_str(it, 's')
        w = mk_walker_for_parsing(it, s)
        tr = mk_reader_at(it, s, w.fields['tolerant_parsing'])
        ps = mk_parsing_state(it, 'parsing_state', with_context=False)
        p, c = mk_marker_parser(it)
        remaining = PyList([c]) if ctx.choose(2, 'marker already read') == 0 else PyList([])
        return {'self': p, 'remaining_chars_list': remaining, 'latex_walker': w, 'token_reader': tr, 'parsing_state': ps,
                'kwargs': PyDict()}
    reg.spec('marker')(lambda it: it.ctx.ghost['marker'])
    RDP = 'token_reader._pos'
    SINGLE_REQ = [('reader-in-range', '0 <= %s and %s <= len(token_reader.s)' % (RDP, RDP)),
                  ('reader-and-walker-share-the-string', 'token_reader.s == latex_walker.s'),
                  ('one-marker-character-read-at-most-once',
                   'len(self.chars_list) == 1 and (len(remaining_chars_list) == 0 or '
                   '(len(remaining_chars_list) == 1 and remaining_chars_list[0] == self.chars_list[0]))')]
    SINGLE_POST = [
        ('reader-stays-in-range', 'old(%s) <= %s and %s <= len(token_reader.s)' % (RDP, RDP, RDP)),
        ('no-match-restores-the-reader', 'implies(result[2] is None, result[0] is None and %s == old(%s))' % (RDP, RDP)),
        ('nothing-matches-once-the-marker-was-read', 'implies(len(remaining_chars_list) == 0, result[2] is None)'),
        ('a-match-is-one-chars-node-over-the-marker-character',
         'implies(result[2] is not None, result[2] == marker() and len(result[0]) == 1 and result[0][0].chars == marker() and '
         'result[0][0].pos_end == result[0][0].pos + 1 and latex_walker.s[result[0][0].pos] == marker() and '
         'old(%s) <= result[0][0].pos and %s == result[0][0].pos_end and result[1] is None)' % (RDP, RDP)),
        ('no-leading-space-when-not-allowed',
         'implies(result[2] is not None and not self.allow_pre_space, result[0][0].pos == old(%s))' % RDP)]
    MODS = [('token_reader._pos', 'int'), ('latex_walker._line_no_calc', lambda it, hint, cur=None: cur)]

    def make_single_result(it, env):
        ctx = it.ctx
        v = env.vars
        if len(v['remaining_chars_list'].items) == 0 or ctx.choose(2, 'marker found') == 0:
            return (None, None, None, ctx.fresh_int('arg_pos'))
        n = new_obj(it, NODES + 'LatexCharsNode', {'chars': ctx.ghost['marker'], 'pos': ctx.fresh_int('marker.pos'),
                                                   'pos_end': ctx.fresh_int('marker.pos_end'), 'parsing_state': v['parsing_state'],
                                                   'latex_walker': v['latex_walker']}, tag='marker_node', is_input=False)
        return (PyList([n]), None, ctx.ghost['marker'], n.fields['pos'])
    RAISES = {EXC + 'LatexWalkerParseError': {'ensures': []}, EXC + 'LatexWalkerEndOfStream': {'ensures': []}}
    c_single = reg.add(Contract(OPT + '._parse_single', setup=setup_single, requires=SINGLE_REQ, result_make=make_single_result,
                                ensures=SINGLE_POST, raises=RAISES, modifies=MODS))
    reg.add_loop(LoopContract(OPT + '._parse_single', 0,
                              invariant=[('only-the-first-iteration-is-ever-entered',
                                          "first_token is None and read_s == '' and not match_found and matched_chars is None"),
                                         ('nothing-read-yet', 'token_reader._pos == old(token_reader._pos)')],
                              havoc={'tok': 'none', 'pos_end': 'none'}, havoc_fields=['token_reader._pos', 'latex_walker._line_no_calc'],
                              note='for a one-character marker every iteration leaves the loop (match, mismatch or not a character)'))
    units['LatexOptionalCharsMarkerParser._parse_single[one-character marker]'] = FunctionUnit(
        c_single, name='LatexOptionalCharsMarkerParser._parse_single[one-character marker]',
        inline={OPT + '.get_following_arg_parser', W + '.make_node'}, split_depth=5)

    def setup_star(it):
        d = setup_single(it)
        d.pop('remaining_chars_list')
        return d
    c = Contract(OPT + '.parse', setup=setup_star,
                 requires=SINGLE_REQ[:2],
                 ensures=[('absent-marker-consumes-nothing', 'implies(result[0] is None, %s == old(%s))' % (RDP, RDP)),
                          ('a-present-marker-is-one-chars-node-over-the-marker-character',
                           'implies(result[0] is not None, result[0].chars == marker() and result[0].pos_end == result[0].pos + 1 '
                           'and latex_walker.s[result[0].pos] == marker() and old(%s) <= result[0].pos)' % RDP),
                          ('the-marker-is-read-exactly-once', 'implies(result[0] is not None, %s == result[0].pos_end)' % RDP),
                          ('no-leading-space-when-not-allowed',
                           'implies(result[0] is not None and not self.allow_pre_space, result[0].pos == old(%s))' % RDP),
                          ('no-state-change', 'result[1] is None')],
                 raises=RAISES, modifies=MODS)
    units['LatexOptionalCharsMarkerParser.parse[one-character marker]'] = FunctionUnit(
        c, name='LatexOptionalCharsMarkerParser.parse[one-character marker]', inline={W + '.make_nodelist'}, split_depth=4)

    # ---- brackets: the group info object -----------------------------------------------------------------------------------------------------
    def mk_group_state(it, name, ndelims):
        ps = mk_mode_state(it, name, math=False)
        pairs = []
        for j in range(ndelims):
            o, c = sym_str(it, '%s.open%d' % (name, j)), sym_str(it, '%s.close%d' % (name, j))
            it.ctx.assume(z3.And(V.slen(o) == 1, V.slen(c) == 1))
            pairs.append((o, c))
        ps.fields['latex_group_delimiters'] = PyList(pairs)
        ps.fields['_latex_group_delimchars_by_open'] = PyDict({})
        return ps, pairs

    def setup_ggps(it):
        ctx = it.ctx
        ps, pairs = mk_group_state(it, 'parsing_state', ctx.choose(3, 'number of group delimiter pairs'))
        k = ctx.choose(3, 'delimiters argument')
        if k == 0:
            d = None
        elif k == 1:
            d = (sym_str(it, 'want_open'), sym_str(it, 'want_close'))
            ctx.assume(z3.And(V.slen(d[0]) == 1, V.slen(d[1]) == 1))
        else:
            d = PyList([sym_str(it, 'want_open'), sym_str(it, 'want_close')])
            ctx.assume(z3.And(V.slen(d.items[0]) == 1, V.slen(d.items[1]) == 1))
        ctx.ghost['pairs'] = pairs
        return {'cls': resolve_class(it, GINFO), 'parsing_state': ps, 'delimiters': d, 'delimited_expression_parser': None,
                'latex_walker': None, 'kwargs': PyDict()}

    @reg.spec('pair_known')
    def pair_known(it, d):
        a, b = (d if isinstance(d, tuple) else tuple(d.items))
        return z_or(*[z_and(it.truth_term(it.equal_term(a, o)), it.truth_term(it.equal_term(b, c))) for o, c in it.ctx.ghost['pairs']])

    @reg.spec('pairs_extended_by')
    def pairs_extended_by(it, res, ps, d):
        """the result's delimiter list is the old list followed by the new pair"""
        a, b = (d if isinstance(d, tuple) else tuple(d.items))
        new = res.fields['latex_group_delimiters']
        old = ps.fields['latex_group_delimiters'].items
        if not isinstance(new, PyList) or len(new.items) != len(old) + 1:
            return False
        last = new.items[-1]
        ok = isinstance(last, tuple) and len(last) == 2 and all(n is o for n, o in zip(new.items[:-1], old))
        return ok and z_and(it.truth_term(it.equal_term(last[0], a)), it.truth_term(it.equal_term(last[1], b)))
    c = Contract(GINFO + '.get_group_parsing_state', setup=setup_ggps,
                 ensures=[('no-constraint-keeps-the-state', 'implies(delimiters is None, result is parsing_state)'),
                          ('a-known-delimiter-pair-keeps-the-state',
                           'implies(delimiters is not None and pair_known(delimiters), result is parsing_state)'),
                          ('an-unknown-pair-is-added-to-the-group-delimiters-of-a-new-state',
                           'implies(delimiters is not None and not pair_known(delimiters), result is not parsing_state and '
                           'pairs_extended_by(result, parsing_state, delimiters) and result.in_math_mode is parsing_state.in_math_mode '
                           'and result.latex_context is parsing_state.latex_context)'),
                          ('the-given-state-keeps-its-delimiter-list',
                           'len(parsing_state.latex_group_delimiters) == old(len(parsing_state.latex_group_delimiters))')],
                 modifies=[])
    units['LatexDelimitedGroupParserInfo.get_group_parsing_state'] = FunctionUnit(c)

    def mk_ginfo(it):
        outer = mk_mode_state(it, 'parsing_state', math=False)
        group = mk_mode_state(it, 'group_parsing_state', math=False)
        od, cd = sym_str(it, 'open_delim'), sym_str(it, 'close_delim')
        info = new_obj(it, GINFO, {'parsing_state': outer, 'group_parsing_state': group, 'contents_parsing_state': group,
                                   'parsed_delimiters': (od, cd), 'child_parsing_state_delta': None, 'first_token': None,
                                   'delimiters': None, 'latex_walker': None, 'delimited_expression_parser': None,
                                   'opening_delimiter_tokens': PyList([])}, tag='self')
        return info

    def setup_child(it):
        info = mk_ginfo(it)
        kind = ['brace_open', 'brace_close', 'macro', 'char', 'mathmode_inline'][it.ctx.choose(5, 'child token kind')]
        t = mk_token(it, kind, sym_str(it, 'token.arg'), 0, 1, '')
        return {'self': info, 'parsing_state': mk_mode_state(it, 'collector_state', math=False), 'node_class': None, 'token': t}
    c = Contract(GINFO + '.make_child_parsing_state', setup=setup_child,
                 ensures=[('a-child-opening-with-the-same-delimiter-keeps-the-promoted-delimiters',
                           "implies(token.tok == 'brace_open' and token.arg == self.parsed_delimiters[0], "
                           "result is self.contents_parsing_state)"),
                          ('every-other-child-gets-the-outer-state',
                           "implies(not (token.tok == 'brace_open' and token.arg == self.parsed_delimiters[0]), "
                           "result is self.parsing_state)")],
                 modifies=[])
    units['LatexDelimitedGroupParserInfo.make_child_parsing_state'] = FunctionUnit(c)

    def setup_gstop(it):
        info = mk_ginfo(it)
        kind = ['brace_open', 'brace_close', 'macro', 'char', 'end_environment'][it.ctx.choose(5, 'token kind')]
        return {'self': info, 'token': mk_token(it, kind, sym_str(it, 'token.arg'), 0, 1, '')}
    c = Contract(GINFO + '.stop_token_condition', setup=setup_gstop, result_type='bool',
                 ensures=[('stops-exactly-at-the-matching-closing-delimiter',
                           "result == (token.tok == 'brace_close' and token.arg == self.parsed_delimiters[1])")], modifies=[])
    units['LatexDelimitedGroupParserInfo.stop_token_condition'] = FunctionUnit(c)

    # ---- environments ----------------------------------------------------------------------------------------------------------------------------
    def setup_estop(it):
        parser = AbsVal(z3.Int('env_body_parser'), 'parser', attrs={'environmentname': sym_str(it, 'environmentname')})
        info = new_obj(it, ENVINFO, {'delimited_expression_parser': parser}, tag='self')
        kind = ['end_environment', 'begin_environment', 'brace_close', 'macro', 'char'][it.ctx.choose(5, 'token kind')]
        return {'self': info, 'token': mk_token(it, kind, sym_str(it, 'token.arg'), 0, 1, '')}
    c = Contract(ENVINFO + '.stop_token_condition', setup=setup_estop, result_type='bool',
                 ensures=[('the-body-ends-exactly-at-the-end-of-the-same-environment',
                           "result == (token.tok == 'end_environment' and token.arg == self.delimited_expression_parser.environmentname)")],
                 modifies=[])
    units['LatexEnvironmentBodyContentsParserInfo.stop_token_condition'] = FunctionUnit(c)

    # the body parser made for a \\begin{name} token waits for the \\end of THAT name -- also when the spec is the catch-all
    # one for undeclared environments, whose own environmentname is ''
    def setup_mkbody(it):
        spec = new_obj(it, 'pylatexenc.macrospec._specclasses.EnvironmentSpec',
                       {'environmentname': sym_str(it, 'spec.environmentname'), 'macroname': None, 'specials_chars': None,
                        'arguments_spec_list': PyList([])}, tag='self')
        tok = mk_token(it, 'begin_environment', sym_str(it, 'token.arg'), 0, 1, '')
        return {'self': spec, 'token': tok, 'nodeargd': None, 'arg_parsing_state_delta': None}
    c = Contract('pylatexenc.macrospec._specclasses.CallableSpec.make_body_parser', setup=setup_mkbody,
                 ensures=[('a-body-parser-for-the-environment-named-by-the-token',
                           "type(result).__name__ == 'LatexEnvironmentBodyContentsParser' and result.environmentname == token.arg")],
                 modifies=[])
    units['CallableSpec.make_body_parser'] = FunctionUnit(c)

    # ---- the call parsers: node = (call token, arguments object, body) ------------------------------------------------------------------------------
    def setup_call(it):
        ctx = it.ctx
        s = sym_str(it, 's')
        w = mk_walker_for_parsing(it, s)
        tr = mk_reader_at(it, s, w.fields['tolerant_parsing'])
        ps = mk_parsing_state(it, 'parsing_state', with_context=False)
        kind = ctx.choose(3, 'macro, environment or specials')
        ctx.ghost['call_kind'] = kind
        a = sym_int(it, 'call.pos', lo=0)
        e = sym_int(it, 'call.pos_end')
        ctx.assume(z3.And(a < e, e <= zint(tr.fields['_pos'])))
        name = sym_str(it, 'name')
        tok = mk_token(it, ['macro', 'begin_environment', 'specials'][kind], name, a, e, '', sym_str(it, 'post_space') if kind == 0 else '')
        has_args = ctx.choose(2, 'arguments parser present')
        argp = absfield(it, 'arguments_parser') if has_args else None
        ctx.ghost['arguments_parser'] = argp
        spec = AbsVal(z3.Int('spec_object'), 'spec', attrs={'arguments_parser': argp, 'truth': lambda it2, sf: True},
                      methods={'finalize_node': lambda it2, sf, a_, kw: a_[0],
                               'make_arguments_parsing_state_delta': lambda it2, sf, a_, kw: None,
                               'make_body_parsing_state_delta': lambda it2, sf, a_, kw: None,
                               'make_after_parsing_state_delta': lambda it2, sf, a_, kw: None,
                               'make_body_parser': lambda it2, sf, a_, kw: absfield(it2, 'body_parser')})
        cls = ['LatexMacroCallParser', 'LatexEnvironmentCallParser', 'LatexSpecialsCallParser'][kind]
        node_cls = resolve_class(it, NODES + ['LatexMacroNode', 'LatexEnvironmentNode', 'LatexSpecialsNode'][kind])
        extra = [{'macroname': name, 'macro_post_space': tok.fields['post_space']}, {'environmentname': name}, {'specials_chars': name}][kind]
        fields = {'token_call': tok, 'spec_object': spec, 'what': 'construct', 'parse_body': (kind == 1), 'node_class': node_cls,
                  'node_extra_kwargs': PyDict(extra), 'arguments_parser': argp}
        for m_ in ('make_arguments_parsing_state_delta', 'make_body_parsing_state_delta', 'make_after_parsing_state_delta'):
            fields[m_] = Builtin(m_, lambda it2, a_, kw: None)
        if kind == 1:
            fields['environmentname'] = name
        p = new_obj(it, CALL + cls, fields, tag='self')
        return {'self': p, 'latex_walker': w, 'token_reader': tr, 'parsing_state': ps, 'kwargs': PyDict()}

    @reg.spec('call_node_built_from')
    def call_node_built_from(it, node, me):
        """the node is of the construct's class, named after the call token, carries the arguments object returned by the
        arguments parser (None when the construct has none) and, for environments, the body returned by the body parser"""
        g = it.ctx.ghost
        kind = g['call_kind']
        if not isinstance(node, Obj) or node.cls.name != ['LatexMacroNode', 'LatexEnvironmentNode', 'LatexSpecialsNode'][kind]:
            return False
        calls = g.get('parse_calls', [])
        results = g.get('parse_results', [])
        argp = g['arguments_parser']
        want_calls = (1 if argp is not None else 0) + (1 if kind == 1 else 0)
        if len(calls) != want_calls or len(results) != want_calls:
            return False
        j = 0
        if argp is not None:
            if calls[0][0] is not argp or node.fields['nodeargd'] is not results[0][0]:
                return False
            j = 1
        elif node.fields['nodeargd'] is not None:
            return False
        if kind == 1 and node.fields['nodelist'] is not results[j][0]:
            return False
        key = ['macroname', 'environmentname', 'specials_chars'][kind]
        return node.fields[key] is me.fields['token_call'].fields['arg'] and node.fields['spec'] is me.fields['spec_object']
    c = Contract(CALL + '_LatexCallableParserBase.parse', setup=setup_call,
                 requires=[('reader-in-range', '0 <= %s and %s <= len(token_reader.s)' % (RDP, RDP)),
                           ('reader-and-walker-share-the-string', 'token_reader.s == latex_walker.s'),
                           ('the-call-token-was-read-before-the-reader-position',
                            '0 <= self.token_call.pos and self.token_call.pos_end <= %s' % RDP)],
                 ensures=[('the-node-spans-from-the-call-token-to-the-reader',
                           'result[0].pos == self.token_call.pos and result[0].pos_end == %s' % RDP),
                          ('the-reader-never-moves-backwards', 'old(%s) <= %s and %s <= len(latex_walker.s)' % (RDP, RDP, RDP)),
                          ('the-node-records-the-state-it-was-met-in', 'result[0].parsing_state is parsing_state'),
                          ('internal:the-node-is-built-from-the-call-token-the-parsed-arguments-and-the-parsed-body',
                           'call_node_built_from(result[0], self)')],
                 raises={EXC + 'LatexWalkerParseError': {'when': 'not latex_walker.tolerant_parsing', 'ensures': [
                     ('located-error', 'exc.pos is not None and 0 <= exc.pos and exc.pos <= len(latex_walker.s)')]}},
                 modifies=[('token_reader._pos', 'int'), ('latex_walker._line_no_calc', lambda it, hint, cur=None: cur)])
    units['_LatexCallableParserBase.parse'] = FunctionUnit(c, inline={
        CALL + '_LatexCallableParserBase.parse_call_arguments', CALL + '_LatexCallableParserBase.parse_call_body',
        CALL + 'LatexEnvironmentCallParser.make_body_parser_and_parsing_state', W + '.make_node',
        'pylatexenc.latexnodes._parsingstatedelta.get_updated_parsing_state_from_delta'}, split_depth=4)

    for k in units:
        contracts.REPLAYERS[k] = replay_parse
    contracts.EXTRA_ASSUMPTIONS['C02'] = [
        "NOT claimed: that the tree equals the derivation for every document of the grammar (needs a formal grammar and a "
        "completeness proof over the mutually recursive parsers); claimed are the per-function mechanisms named in the property",
        "LatexOptionalCharsMarkerParser.parse is verified for a marker list holding one non-space character (the star and t<c>); "
        "multi-character markers and embellishment lists are not covered",
        "verbatim parsers, LatexDelimitedMultiDelimGroupParser and the expression parser's loop are not under contract here"]
    return {'C02': units}
