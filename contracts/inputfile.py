"""C15 -- latex2text/_inputlatexfile.py: read_latex_file never reads outside the
configured directory in strict mode.

File-system model (assumption A-FS): os.path.realpath / join / exists / isfile and the
file content are uninterpreted functions of their (string) arguments, constant during
one call (no TOCTOU claim).  Laws used: realpath is idempotent; a real path is non-empty and
does not end with '/' unless it is a single character (the root).  Nothing is assumed
about the relation between realpath(p) and realpath(p + '.tex') -- the longer name may
be a symbolic link to anywhere.
"""
import z3

from pyvc import values as V
from pyvc.values import Obj, SStr, is_str, z_and, z_or, z_not
from pyvc.contracts import Contract, FunctionUnit, sym_str, sym_bool, new_obj
from pyvc.interp import PyExc
from pyvc.smt import EngineError
from pyvc.replay import PRELUDE, model_str

QN = 'pylatexenc.latex2text._inputlatexfile.read_latex_file'


def _key(v):
    if isinstance(v, str):
        return ('lit', v)
    out = []
    for a in v.atoms:
        if a[0] == 'lit':
            out.append(('lit', a[1]))
        elif a[0] == 'sl':
            out.append(('sl', a[1].arr.get_id(), str(V.simp(a[2])), str(V.simp(a[3]))))
        else:
            out.append(('ch', str(a[1])))
    return tuple(out)


def _uf(it, name, kind, *args):
    """memoised uninterpreted function of string arguments"""
    table = it.ctx.ghost.setdefault('uf', {})
    k = (name,) + tuple(_key(a) for a in args)
    if k not in table:
        label = '%s#%d' % (name, len(table))
        if kind == 'str':
            v = table[k] = it.fresh_str(name.replace('.', '_'))
            b = v.atoms[0][1]
            it.ctx.register_input(label, 'str', (b.arr, b.length))
        else:
            v = table[k] = it.ctx.fresh_bool(name.replace('.', '_'))
            it.ctx.register_input(label, 'bool', v)
    return table[k]


def _realpath(it, p):
    if not is_str(p):
        it.raise_builtin('TypeError', 'wd:type[realpath of non-str]')
    rps = it.ctx.ghost.setdefault('realpaths', [])
    for r in rps:
        if r is p or _key(r) == _key(p):
            return r                       # idempotence: realpath(realpath(x)) == realpath(x)
    r = _uf(it, 'os.path.realpath', 'str', p)
    # law: a real path is normalised -- it is '/' or does not end with '/'
    n = V.slen(r)
    it.ctx.assume(z3.And(V.zint(n) >= 1,
                         z3.Or(V.zint(n) == 1, V.zint(V.char_at(r, V.simp(V.zint(n) - 1))) != ord('/'))))
    rps.append(r)
    return r


class FileVal(object):
    def __init__(self, path):
        self.path = path

    def pyvc_enter(self, it):
        return self

    def pyvc_exit(self, it, exc):
        return False

    def pyvc_getattr(self, it, name):
        from pyvc.values import Builtin
        if name == 'read':
            def rd(it2, a, k):
                return _uf(it2, 'content', 'str', self.path)
            return Builtin('file.read', rd)
        raise EngineError('file.%s' % name)


def register(reg):
    import contracts

    @reg.lib('os.path.realpath')
    def realpath(it, p):
        return _realpath(it, p)

    @reg.lib('os.path.join')
    def join(it, a, b):
        if not is_str(a) or not is_str(b):
            it.raise_builtin('TypeError', 'wd:type[os.path.join of non-str]')
        return _uf(it, 'os.path.join', 'str', a, b)

    # purely lexical path functions: uninterpreted string functions (A-FS) -- in particular nothing relates them to realpath:
    # a lexically normalised path may still go through a symbolic link
    for _nm in ('normpath', 'abspath', 'normcase', 'expanduser', 'dirname', 'basename'):
        def _lexical(it, p, _nm=_nm):
            if not V.is_str(p):
                it.raise_builtin('TypeError', 'wd:type[os.path.%s of non-str]' % _nm)
            return _uf(it, 'os.path.' + _nm, 'str', p)
        reg.lib('os.path.' + _nm)(_lexical)

    @reg.lib('os.getcwd')
    def getcwd(it):
        return _uf(it, 'os.getcwd', 'str', '')

    @reg.lib('os.path.commonprefix')
    def commonprefix(it, lst):
        """A-LIB: os.path.commonprefix([a, b]) is the longest common *character* prefix."""
        items = it.iter_values(lst)
        if len(items) != 2 or not all(is_str(x) for x in items):
            raise EngineError('os.path.commonprefix of other than two strings')
        a, b = items
        ctx = it.ctx
        k = ctx.fresh_int('commonprefix_len')
        na, nb = V.zint(V.slen(a)), V.zint(V.slen(b))
        from pyvc.smt import forall_range
        ctx.assume(z3.And(k >= 0, k <= na, k <= nb))
        ctx.assume(forall_range(ctx, 0, k, lambda j: V.zint(V.char_at(a, j)) == V.zint(V.char_at(b, j)), 'cp'))
        ctx.assume(z3.Or(k == na, k == nb, V.zint(V.char_at(a, k)) != V.zint(V.char_at(b, k))))
        return V.sslice(ctx, a, 0, k)

    @reg.lib('os.path.exists')
    def exists(it, p):
        return _uf(it, 'os.path.exists', 'bool', p)

    @reg.lib('os.path.isfile')
    def isfile(it, p):
        return _uf(it, 'os.path.isfile', 'bool', p)

    @reg.lib('open')
    def open_(it, p, *a, **k):
        g = it.ctx.ghost
        if 'opened' in g:
            raise EngineError('second open() in one call')
        g['opened'] = p
        g['io_error'] = (it.ctx.choose(2, 'open raises IOError') == 1)
        if g['io_error']:
            it.raise_builtin('OSError', 'lib:open')
        return FileVal(p)

    # specification vocabulary
    reg.spec('rp')(lambda it, p: _realpath(it, p))
    reg.spec('pjoin')(lambda it, a, b: _uf(it, 'os.path.join', 'str', a, b))
    reg.spec('exists_')(lambda it, p: _uf(it, 'os.path.exists', 'bool', p))
    reg.spec('isfile_')(lambda it, p: _uf(it, 'os.path.isfile', 'bool', p))
    reg.spec('content')(lambda it, p: _uf(it, 'content', 'str', p))
    reg.spec('opened')(lambda it: 'opened' in it.ctx.ghost)
    reg.spec('io_error')(lambda it: bool(it.ctx.ghost.get('io_error')))
    reg.spec('opened_path')(lambda it: it.ctx.ghost['opened'])

    @reg.spec('inside')
    def inside(it, p, d):
        """p == d, or p lies below directory d: p starts with d (without a trailing '/') + '/'."""
        from pyvc import builtins as B
        n = V.slen(d)
        ends = B.str_endswith(it, d, '/')
        below_plain = B.str_startswith(it, p, V.sconcat(d, '/'))
        below_slash = B.str_startswith(it, p, d)       # d already ends with '/', e.g. the root
        return z_or(V.seq_eq(it.ctx, p, d), z_and(z_not(ends), below_plain), z_and(ends, below_slash))

    def setup(it):
        return {'tex_input_directory': sym_str(it, 'tex_input_directory'),
                'strict_input': sym_bool(it, 'strict_input'),
                'fn': sym_str(it, 'fn')}

    F0 = 'rp(pjoin(tex_input_directory, fn))'
    c = reg.add(Contract(
        QN, setup=setup,
        ensures=[
            ('strict-read-stays-inside',
             'implies(strict_input and opened(), inside(rp(opened_path()), rp(tex_input_directory)))'),
            ('no-open-means-empty', "implies(not opened(), result == '')"),
            ('read-returns-content', 'implies(opened() and not io_error(), result == content(opened_path()))'),
            ('io-error-means-empty', "implies(io_error(), result == '')"),
            ('inside-existing-file-is-read',
             'implies(inside(%s, rp(tex_input_directory)) and exists_(%s) and isfile_(%s) and not io_error(), '
             'result == content(%s))' % (F0, F0, F0, F0)),
        ],
        modifies=[],
    ))
    # ---- the object that holds the configuration: what is stored is what was given; "no directory" switches file access off ----------
    L2T = 'pylatexenc.latex2text.LatexNodes2Text'
    from pyvc.values import PyDict, AbsVal
    import z3 as _z3

    def setup_set(it):
        d = None if it.ctx.choose(2, 'a directory is given') == 0 else sym_str(it, 'tex_input_directory')
        me = new_obj(it, L2T, {'tex_input_directory': sym_str(it, 'previous_directory'), 'strict_input': sym_bool(it, 'previous_strict'),
                               'latex_walker_init_args': PyDict()}, tag='self')
        kw = None if it.ctx.choose(2, 'walker arguments given') == 0 else PyDict({'tolerant_parsing': True})
        return {'self': me, 'tex_input_directory': d, 'latex_walker_init_args': kw, 'strict_input': sym_bool(it, 'strict_input')}
    c_set = Contract(L2T + '.set_tex_input_directory', setup=setup_set,
                     ensures=[('no-directory-given-means-none-configured-which-switches-file-access-off',
                               '(self.tex_input_directory is None) == (tex_input_directory is None)'),
                              ('the-strict-flag-is-stored-as-given', 'self.strict_input is strict_input')],
                     modifies=['self.tex_input_directory', 'self.strict_input', 'self.latex_walker_init_args'])

    def setup_rif(it):
        d = None if it.ctx.choose(2, 'a directory is configured') == 0 else sym_str(it, 'tex_input_directory')
        me = new_obj(it, L2T, {'tex_input_directory': d, 'strict_input': sym_bool(it, 'strict_input'),
                               'latex_walker_init_args': PyDict()}, tag='self')
        return {'self': me, 'fn': sym_str(it, 'fn')}
    reg.spec('file_reads')(lambda it: len(it.ctx.ghost.get('file_reads', [])))

    @reg.spec('one_read_with')
    def one_read_with(it, d, strict, fn, result):
        calls = it.ctx.ghost.get('file_reads', [])
        return len(calls) == 1 and calls[0][0] is d and calls[0][1] is strict and calls[0][2] is fn and result is calls[0][3]
    c_rif = Contract(L2T + '.read_input_file', setup=setup_rif,
                     ensures=[('internal:no-directory-configured-means-no-file-access-and-an-empty-result',
                               "implies(self.tex_input_directory is None, file_reads() == 0 and result == '')"),
                              ('internal:otherwise-one-read-through-read_latex_file-with-the-configured-directory-and-strictness',
                               'implies(self.tex_input_directory is not None, '
                               'one_read_with(self.tex_input_directory, self.strict_input, fn, result))')],
                     modifies=[])

    class _ReadUnit(FunctionUnit):
        pass
    rif_unit = FunctionUnit(c_rif)
    # inside this unit read_latex_file is the logged stub below (its own unit verifies it)
    _orig_rlf = c.apply_at_call

    def logged_read(it, func, bound, node):
        if it.cur_func_name().endswith('read_input_file'):
            r = it.fresh_str('file_content')
            it.ctx.ghost.setdefault('file_reads', []).append((bound['tex_input_directory'], bound['strict_input'], bound['fn'], r))
            return r
        return _orig_rlf(it, func, bound, node)
    c.apply_at_call = logged_read
    contracts.REPLAYERS['read_latex_file'] = replay
    contracts.REPLAYERS['set_tex_input_directory'] = replay
    contracts.REPLAYERS['read_input_file'] = replay
    contracts.EXTRA_ASSUMPTIONS['C15'] = [
        "A-FS: realpath/join/exists/isfile/content are uninterpreted functions of their arguments, fixed during one "
        "call (no TOCTOU claim); laws assumed: realpath is idempotent; a real path is non-empty and does not end with '/' unless it has length 1"]

    # ---- the per-call contracts above describe ONE call against the file system as it is during that call.  They carry the property
    # over a history of calls (a link repointed, the directory changed between two \input's) only if nothing computed from the file
    # system in one call is kept for the next: no module-level state in _inputlatexfile.py, no attribute of the converter written
    # or mutated by read_input_file.  Frame obligations from the AST (same analysis as the C09 frames).
    def lemma_stateless(it):
        import ast as _ast, os as _os
        from contracts import purity as _pur
        ctx = it.ctx
        root = it.program.root
        rel = 'pylatexenc/latex2text/_inputlatexfile.py'
        tree = _ast.parse(open(_os.path.join(root, rel), encoding='utf-8').read())
        module_names = {t.id for st in tree.body if isinstance(st, (_ast.Assign, _ast.AnnAssign))
                        for t in (st.targets if isinstance(st, _ast.Assign) else [st.target]) if isinstance(t, _ast.Name)}
        fns = [f for f in _ast.walk(tree) if isinstance(f, (_ast.FunctionDef, _ast.Lambda))]
        ctx.prove('stateless: read_latex_file is present', any(getattr(f, 'name', None) == 'read_latex_file' for f in fns), 'frame', src=rel)
        bad = []
        for f in fns:
            if isinstance(f, _ast.FunctionDef):
                bad += _pur._global_writes(f, module_names) + _pur._mutable_defaults(f)
                # function attributes (read_latex_file.cache = ...) and memoising decorators are state as well
                bad += [(d.lineno, _ast.unparse(d), 'decorator') for d in f.decorator_list]
                for n in _ast.walk(f):
                    if isinstance(n, (_ast.Assign, _ast.AugAssign)):
                        for t in (n.targets if isinstance(n, _ast.Assign) else [n.target]):
                            e = t
                            while isinstance(e, (_ast.Attribute, _ast.Subscript)):
                                e = e.value
                            if e is not t and isinstance(e, _ast.Name) and e.id in {g.name for g in fns if isinstance(g, _ast.FunctionDef)}:
                                bad.append((n.lineno, e.id, 'store into a function object'))
        ctx.prove('stateless:_inputlatexfile.py keeps nothing from one call for the next (no module-level state written)', not bad, 'frame',
                  src='%s: %s' % (rel, '; '.join('line %d: %s (%s)' % b for b in bad[:6])))
        rel2 = 'pylatexenc/latex2text/__init__.py'
        tree2 = _ast.parse(open(_os.path.join(root, rel2), encoding='utf-8').read())
        cls = [c_ for c_ in _ast.walk(tree2) if isinstance(c_, _ast.ClassDef) and c_.name == 'LatexNodes2Text']
        meth = [f for c_ in cls for f in c_.body if isinstance(f, _ast.FunctionDef) and f.name == 'read_input_file']
        ctx.prove('stateless: LatexNodes2Text.read_input_file is present', len(meth) == 1, 'frame', src=rel2)
        mod2 = {t.id for st in tree2.body if isinstance(st, _ast.Assign) for t in st.targets if isinstance(t, _ast.Name)}
        bad2 = []
        for f in meth:
            bad2 += _pur._self_writes(f) + _pur._alias_writes(f) + _pur._global_writes(f, mod2) + _pur._mutable_defaults(f)
            bad2 += [(d.lineno, _ast.unparse(d), 'decorator') for d in f.decorator_list]
        ctx.prove('stateless:LatexNodes2Text.read_input_file writes nothing that outlives the call', not bad2, 'frame',
                  src='%s: %s' % (rel2, '; '.join('line %d: %s (%s)' % b for b in bad2[:6])))
    from pyvc.contracts import LemmaUnit
    stateless = LemmaUnit('no-state-between-file-reads', lemma_stateless,
                          functions=['pylatexenc.latex2text._inputlatexfile.read_latex_file', L2T + '.read_input_file'])
    contracts.REPLAYERS['no-state-between-file-reads'] = replay
    return {'C15': {'read_latex_file': FunctionUnit(c), 'set_tex_input_directory': FunctionUnit(c_set), 'read_input_file': rif_unit,
                    'no-state-between-file-reads': stateless}}


def replay(o, model):
    # The symbolic counterexample is a valuation of the file-system functions; it is realised as one of the
    # two concrete directory layouts that such a valuation describes (sibling sharing a name prefix; a
    # '<name>.tex' symbolic link pointing outside).
    return PRELUDE + r'''
import os, tempfile
from pylatexenc.latex2text._inputlatexfile import read_latex_file
from pylatexenc.latex2text import LatexNodes2Text
MARK = "OUTSIDE-SECRET-7391"
with tempfile.TemporaryDirectory() as top:
    base = os.path.join(top, "base"); os.mkdir(base)
    sib = os.path.join(top, "base2"); os.mkdir(sib)
    out = os.path.join(top, "out"); os.mkdir(out)
    open(os.path.join(base, "inside.tex"), "w").write("INSIDE")
    open(os.path.join(sib, "secret.tex"), "w").write(MARK)
    open(os.path.join(out, "secret.tex"), "w").write(MARK)
    os.symlink(os.path.join(out, "secret.tex"), os.path.join(base, "link.tex"))
    os.symlink(os.path.join(out, "secret.tex"), os.path.join(base, "plainlink"))
    os.symlink(out, os.path.join(base, "dirlink"))
    os.symlink(os.path.join(out, "secret.tex"), os.path.join(base, "llink.latex"))
    names = ["llink", "sub/../llink", "../base2/secret.tex", "../base2/secret", os.path.join(sib, "secret.tex"), "link", "link.tex",
             "plainlink", "dirlink/secret.tex", "dirlink/secret", "../out/secret.tex", "../out/secret",
             os.path.join(out, "secret"), "./../base2/secret"]
    for n in names:
        r = read_latex_file(base, True, n)
        if MARK in r:
            cls = "sibling-prefix" if "base2" in n else ("extension-symlink" if n == "link" else "other")
            reproduced("read_latex_file(%r, strict_input=True, %r) returned the content of a file outside the "
                       "directory" % ("<top>/base", n), cls)
        l2t = LatexNodes2Text(); l2t.set_tex_input_directory(base, strict_input=True)
        t = l2t.latex_to_text(r"\input{%s}" % n)
        if MARK in t:
            reproduced("latex_to_text(\\input{%s}) leaked an outside file" % n)
    if read_latex_file(base, True, "inside") != "INSIDE" or read_latex_file(base, True, "inside.tex") != "INSIDE" \
            or read_latex_file(base + os.sep, True, "inside.tex") != "INSIDE":
        reproduced("a name that resolves inside the directory was not read", "inside-not-read")
    # no directory configured (never, or explicitly None): nothing is read, whatever the current directory holds
    cwd = os.getcwd()
    try:
        os.chdir(base)
        for conf in (None, "none", "none-nonstrict", "reset"):
            l2t = LatexNodes2Text()
            if conf == "none": l2t.set_tex_input_directory(None)
            if conf == "none-nonstrict": l2t.set_tex_input_directory(None, strict_input=False)
            if conf == "reset":
                l2t.set_tex_input_directory(base); l2t.set_tex_input_directory(None)
            for n in ("inside", "inside.tex", "../out/secret.tex"):
                t = l2t.latex_to_text(r"a\input{%s}b" % n)
                if t != "ab":
                    reproduced("no input directory configured (%s), current directory %r: latex_to_text(\\input{%s}) read a file: %r"
                               % (conf, "<top>/base", n, t), "no-directory-still-reads")
    finally:
        os.chdir(cwd)
    rel = os.path.realpath(os.path.join(base, "inside.tex")).lstrip(os.sep)
    for rootdir in ("/", os.path.join(base, "rootlink")):
        if rootdir != "/":
            os.symlink("/", rootdir)
        if read_latex_file(rootdir, True, rel) != "INSIDE":
            reproduced("with the filesystem root %r as input directory, %r (inside) was not read" % (rootdir, rel),
                       "inside-not-read")
    # a history: the directory's name is a link that is repointed between two reads (nothing may be remembered from the first)
    v1 = os.path.join(top, "v1"); os.mkdir(v1); v2 = os.path.join(top, "v2"); os.mkdir(v2)
    open(os.path.join(v1, "secret.tex"), "w").write(MARK); open(os.path.join(v2, "ok.tex"), "w").write("OK2")
    cur = os.path.join(top, "cur"); os.symlink(v1, cur)
    l2t = LatexNodes2Text(); l2t.set_tex_input_directory(cur, strict_input=True)
    first = (read_latex_file(cur, True, "secret"), l2t.read_input_file("secret"))
    os.remove(cur); os.symlink(v2, cur)
    for n in ("../v1/secret", "../v1/secret.tex", os.path.join(v1, "secret.tex")):
        if MARK in read_latex_file(cur, True, n) or MARK in l2t.read_input_file(n) or MARK in l2t.latex_to_text(r"\input{%s}" % n):
            reproduced("after the directory link %r was repointed from v1 to v2, strict reading of %r still returned a file of v1 "
                       "(something is remembered from the earlier read)" % ("<top>/cur", n), "stale-directory")
    if read_latex_file(cur, True, "ok") != "OK2" or l2t.read_input_file("ok.tex") != "OK2":
        reproduced("after the directory link was repointed, a file inside the new target was refused", "stale-directory")
not_reproduced()
'''
