"""LatexNodesCollector (latexnodes/_nodescollector.py): the shared contracts behind C01 (tiling),
C05 (rejection mechanisms, raise sites), C06 (progress, pre-error content) and C02/C10 (dispatch).

Ghost view of the node list being built: only its END matters for what the collector does next, so
`_nodelist` is represented by a NodeSeq that records, for the appended nodes, whether they were
consecutive (each non-None node starts where the previous one ended: `exact`), at least ordered and
non-overlapping (`order`), and where the last one ends (`end`).  The code under contract only appends
to the list and hands it to the (abstract) stop-condition callback; iterating it is not modelled (an
attempt makes the unit unverified, never silently wrong).

Collector invariant COV (DESIGN C01):
    exact(nodes)  and
    if _pending_chars == '':  token_reader._pos == end(nodes)
    else: _pending_chars_pos == end(nodes) and _pending_chars == s[_pending_chars_pos : reader._pos]
In tolerant mode after an error recovery only the weaker `order` form is claimed.

parse_content is used through its contract (span contract of DESIGN C01):
    strict:   the returned node starts at the parser's start position (the reader position, or the call
              token's position for call parsers) and ends exactly at the reader position after the call;
    always:   the reader never moves backwards and stays inside the string; a returned node lies in range.
"""
import z3

from pyvc import values as V
from pyvc.values import Obj, PyList, PyDict, AbsVal, Builtin, Codec, zint, simp, z_and, z_or, z_not
from pyvc.contracts import (Contract, LoopContract, FunctionUnit, LemmaUnit, sym_int, sym_str, sym_bool, new_obj,
                            resolve_class, resolve_function)
from pyvc.smt import EngineError, forall_range
from pyvc.interp import PyExc
from pyvc.replay import PRELUDE, model_str
from contracts.tokenizer import mk_parsing_state, mk_token, TR, TOK

COLL = 'pylatexenc.latexnodes._nodescollector.LatexNodesCollector'
W = 'pylatexenc.latexwalker._walker.LatexWalker'
NODES = 'pylatexenc.latexnodes.nodes.'
EXC = 'pylatexenc.latexnodes._exctypes.'


class NodeSeq(object):
    def __init__(self, n, end, exact, order, first=None, nonempty=False):
        self.n, self.end, self.exact, self.order = n, end, exact, order
        self.first = first            # pos of the first non-None node (meaningful iff nonempty)
        self.nonempty = nonempty      # some non-None node has been appended
        self.appended = []        # nodes appended on this path (python list, for post-conditions)

    def pyvc_snapshot(self):
        c = NodeSeq(self.n, self.end, self.exact, self.order, self.first, self.nonempty)
        c.appended = list(self.appended)
        return c

    def pyvc_len(self, it):
        return self.n

    def pyvc_getattr(self, it, name):
        if name == 'append':
            def app(it2, a, k):
                node = a[0]
                self.n = simp(zint(self.n) + 1)
                self.appended.append(node)
                if it2.heap_log is not None:
                    it2.heap_log.append((self, '[]'))
                if node is None:
                    return None
                p, e = it2.getattr(node, 'pos'), it2.getattr(node, 'pos_end')
                if p is None or e is None:
                    self.exact = False
                    self.order = False
                    return None
                self.exact = z_and(self.exact, V.z_eq(p, self.end), zint(p) <= zint(e))
                self.order = z_and(self.order, zint(p) >= zint(self.end), zint(p) <= zint(e))
                if self.first is None:
                    self.first = p
                elif not isinstance(self.nonempty, bool) or not self.nonempty:
                    self.first = V.z_ite(self.nonempty, self.first, p)
                self.nonempty = True
                self.end = e
                return None
            return Builtin('nodelist.append', app)
        raise EngineError('the node list of a collector is only appended to in the code under contract '
                          '(attribute %s)' % name)

    def pyvc_iter(self, it):
        raise EngineError('iteration over the collector node list is not modelled')


def mk_walker_for_parsing(it, s, tolerant=None):
    ctx = it.ctx
    tol = sym_bool(it, 'tolerant_parsing') if tolerant is None else tolerant
    w = new_obj(it, W, {'s': s, 'tolerant_parsing': tol, 'debug_nodes': False, 'line_number_offset': 1,
                        'first_line_column_offset': 0, 'column_offset': 0, '_line_no_calc': None}, tag='latex_walker')

    def mkparser(kind):
        def f(it2, a, k):
            return AbsVal(it2.ctx.fresh_int(kind), 'parser', attrs={'span_start': None, 'kind': kind, 'args': dict(k),
                                                                    'may_eos': False})
        return Builtin(kind, f)
    w.fields['make_latex_group_parser'] = mkparser('group_parser')
    w.fields['make_latex_math_parser'] = mkparser('math_parser')
    w.open = True
    return w


def mk_reader_at(it, s, tol, name='token_reader'):
    pos = sym_int(it, name + '._pos')
    it.ctx.assume(z3.And(pos >= 0, pos <= zint(V.slen(s))))
    return new_obj(it, TR, {'s': s, '_pos': pos, 'tolerant_parsing': tol}, tag=name)


def abstract_callback(it, name, optional=True):
    """a user stop-condition / child-state callback: None, or an unknown function whose result has an
    unknown truth value"""
    if optional and it.ctx.choose(2, name + ' given') == 0:
        return None

    def f(it2, a, k):
        it2.ctx.ghost.setdefault('callback_calls', []).append((name, list(a), dict(k)))
        t = it2.ctx.fresh_bool(name + '.truthy')
        return AbsVal(it2.ctx.fresh_int(name + '.data'), 'stop_data', attrs={'truth': lambda it3, sf, t=t: t})
    return Builtin(name, f)


def child_state_callback(it):
    """the collector owner's make_child_parsing_state callback: absent, or an unknown function returning some parsing
    state that satisfies the state invariant (decided when the field is first read)"""
    if it.ctx.choose(2, 'child-state callback given') == 0:
        return None

    def f(it2, a, k):
        it2.ctx.ghost.setdefault('callback_calls', []).append(('make_child_parsing_state', list(a), dict(k)))
        st = mk_parsing_state(it2, 'child_parsing_state', db_inv=True)
        # A-CHILDSTATE: a child-state callback changes group delimiters only -- the math-delimiter tables of the state it returns are
        # those of the state it was given (true of the two callbacks in the package: identity, and the bracket-group one, whose
        # states differ in latex_group_delimiters only: C02 units get_group_parsing_state / make_child_parsing_state)
        given = a[0] if a else k.get('parsing_state')
        if isinstance(given, Obj):
            for t in ('_math_delims_info_by_open', '_math_all_delims_by_len', '_math_delims_info_startchars', '_math_delims_close'):
                if t in given.fields:
                    st.fields[t] = given.fields[t]
        it2.ctx.ghost.setdefault('child_states', []).append(st)
        return st
    return Builtin('make_child_parsing_state', f)


def mk_collector(it, s=None, pending=None):
    """a collector in an arbitrary state satisfying COV"""
    ctx = it.ctx
    s = s if s is not None else sym_str(it, 's')
    w = mk_walker_for_parsing(it, s)
    tr = mk_reader_at(it, s, w.fields['tolerant_parsing'])
    ps = mk_parsing_state(it, 'parsing_state')
    end = sym_int(it, 'nodes.end', lo=0)
    nonempty = sym_bool(it, 'nodes.nonempty')
    first = sym_int(it, 'nodes.first', lo=0)
    ctx.assume(first <= end)
    nodes = NodeSeq(sym_int(it, 'nodes.n', lo=0), end, True, True, first, nonempty)
    if pending is None:
        pending = ctx.choose(2, 'pending chars') == 1
    if pending:
        ctx.assume(z3.And(end < tr.fields['_pos']))
        pc, pp = V.sslice(ctx, s, end, tr.fields['_pos']), end
    else:
        ctx.assume(end == tr.fields['_pos'])
        pc, pp = '', None
    f = dict(latex_walker=w, token_reader=tr, parsing_state=ps, start_parsing_state=ps, _nodelist=nodes,
             _pending_chars=pc, _pending_chars_pos=pp, _finalized=False,
             stop_token_condition=abstract_callback(it, 'stop_token_condition'),
             stop_nodelist_condition=abstract_callback(it, 'stop_nodelist_condition'),
             include_stop_token_pre_space_chars=sym_bool(it, 'include_stop_token_pre_space_chars'),
             _make_child_parsing_state_fn=V.LazyField(child_state_callback),
             _stop_token_condition_met=False, _stop_token_condition_met_token=None,
             _stop_nodelist_condition_met=False, _stop_condition_stop_data=None, _reached_end_of_stream=False)
    return new_obj(it, COLL, f, tag='self')


def pend_ok(it, c, exact=True):
    """the nodes collected so far are consecutive (exact) / ordered, and pending characters, if any,
    are the source text that follows them"""
    nodes = c.fields['_nodelist']
    s = c.fields['token_reader'].fields['s']
    pc, pp = c.fields['_pending_chars'], c.fields['_pending_chars_pos']
    base = z_and(nodes.exact if exact else nodes.order, zint(nodes.end) <= zint(V.slen(s)), zint(nodes.end) >= 0)
    n = V.slen(pc)
    if pp is None:
        return z_and(base, V.z_eq(n, 0))
    return z_and(base, (V.z_eq(pp, nodes.end) if exact else zint(pp) >= zint(nodes.end)), zint(pp) >= 0,
                 zint(pp) + zint(n) <= zint(V.slen(s)),
                 it.equal_term(pc, V.sslice(it.ctx, s, pp, simp(zint(pp) + zint(n)))))


def cov(it, c, exact=True):
    """the collector invariant: pend_ok, and the reader stands right after what has been collected"""
    nodes = c.fields['_nodelist']
    pos = c.fields['token_reader'].fields['_pos']
    pc, pp = c.fields['_pending_chars'], c.fields['_pending_chars_pos']
    if not exact:
        return pend_ok(it, c, False)
    if pp is None:
        return z_and(pend_ok(it, c, True), V.z_eq(pos, nodes.end))
    return z_and(pend_ok(it, c, True), V.z_eq(pos, simp(zint(pp) + zint(V.slen(pc)))))


def register(reg):
    import contracts
    units = {}
    reg.spec('cov')(lambda it, c: cov(it, c, True))
    reg.spec('cov_weak')(lambda it, c: cov(it, c, False))
    reg.spec('pend_ok')(lambda it, c: pend_ok(it, c, True))
    reg.spec('nodes_end')(lambda it, c: c.fields['_nodelist'].end)
    reg.spec('nodes_n')(lambda it, c: c.fields['_nodelist'].n)
    reg.spec('nodes_exact')(lambda it, c: c.fields['_nodelist'].exact)
    reg.spec('nodes_nonempty')(lambda it, c: c.fields['_nodelist'].nonempty)
    reg.spec('nodes_first')(lambda it, c: c.fields['_nodelist'].first if c.fields['_nodelist'].first is not None else -1)

    @reg.spec('first_kept')
    def first_kept(it, c, old_nodes):
        """appending keeps the first node; with consecutive nodes the first one starts where the list ended
        when it was still empty"""
        ns = c.fields['_nodelist']
        f = zint(ns.first if ns.first is not None else -1)
        of = zint(old_nodes.first if old_nodes.first is not None else -1)
        return z_and(V.z_implies(V.zbool(old_nodes.nonempty), z_and(V.zbool(ns.nonempty), f == of)),
                     V.z_implies(z_and(V.zbool(ns.exact), V.zbool(ns.nonempty), z_not(V.zbool(old_nodes.nonempty))),
                                 f == zint(old_nodes.end)),
                     V.z_implies(z_and(V.zbool(ns.order), V.zbool(ns.nonempty), z_not(V.zbool(old_nodes.nonempty))),
                                 f >= zint(old_nodes.end)),
                     V.z_implies(V.zbool(ns.nonempty), f <= zint(ns.end)),
                     V.z_implies(z_not(V.zbool(ns.nonempty)), zint(ns.end) == zint(old_nodes.end)),
                     zint(ns.end) >= zint(old_nodes.end))
    reg.spec('last_appended')(lambda it, c: c.fields['_nodelist'].appended[-1])
    reg.spec('n_appended')(lambda it, c, o=None: len(c.fields['_nodelist'].appended) - (len(o.appended) if o is not None else 0))

    # ---- push_pending_chars ---------------------------------------------------------------------------------------
    def setup_ppc(it):
        c = mk_collector(it)
        s = c.fields['token_reader'].fields['s']
        pos0 = c.fields['token_reader'].fields['_pos']
        e = sym_int(it, 'chunk_end')
        it.ctx.assume(z3.And(pos0 <= e, e <= zint(V.slen(s))))
        # the caller has just consumed s[pos0:e]
        c.fields['token_reader'].fields['_pos'] = e
        return {'self': c, 'chars': V.sslice(it.ctx, s, pos0, e), 'pos': pos0,
                '__closure__': {}} if False else {'self': c, 'chars': V.sslice(it.ctx, s, pos0, e), 'pos': pos0}
    c_ppc = reg.add(Contract(
        COLL + '.push_pending_chars', setup=setup_ppc,
        ensures=[('keeps-the-cover-invariant', 'cov(self)'),
                 ('no-node-created', 'nodes_n(self) == old(nodes_n(self))')],
        modifies=['self._pending_chars', 'self._pending_chars_pos']))
    units['push_pending_chars'] = FunctionUnit(c_ppc)


    # ---- LatexWalker.parse_content: the span contract (assumed here, discharged in contracts/walker.py) -----------------
    def mk_node(it, hint='node'):
        o = Obj(resolve_class(it, NODES + 'LatexNode'), {'pos': it.ctx.fresh_int(hint + '.pos'),
                                                         'pos_end': it.ctx.fresh_int(hint + '.pos_end')}, tag=hint)
        o.open = True
        return o

    def mk_delta(it):
        def upd(it2, self, a, k):
            # a parsing state delta yields a ParsingState (satisfying PS_inv / whose context satisfies DB_inv)
            return mk_parsing_state(it2, 'updated_parsing_state', db_inv=True)
        return AbsVal(it.ctx.fresh_int('delta'), 'parsing_state_delta', methods={'get_updated_parsing_state': upd})

    def make_pc_result(it, env):
        ctx = it.ctx
        ctx.ghost.setdefault('parse_calls', []).append((env.vars.get('parser'), env.vars.get('parsing_state')))
        node = None if ctx.choose(2, 'parser produced a node') == 1 else mk_node(it, 'parsed_node')
        delta = None if ctx.choose(2, 'parser produced a delta') == 0 else mk_delta(it)
        ctx.ghost.setdefault('parse_results', []).append((node, delta))
        return (node, delta)

    def make_parse_error(it, env, cls='LatexWalkerParseError'):
        w = env.vars.get('self')
        o = Obj(resolve_class(it, EXC + cls), {
            'pos': it.ctx.fresh_int('err.pos'), 'lineno': it.ctx.fresh_int('err.lineno'), 'colno': it.ctx.fresh_int('err.colno'),
            'msg': it.fresh_str('msg'), 's': None, 'open_contexts': PyList([]), 'error_type_info': None,
            'input_source': None, 'args': ()}, tag='exc')
        o.open = True
        return o

    def p_attr(name, default):
        def f(it, parser):
            if isinstance(parser, AbsVal):
                return parser.attrs.get(name, default)
            if isinstance(parser, Obj):          # a real parser object built by the code under contract
                cn = parser.cls.name
                if name == 'kind':
                    return {'LatexDelimitedGroupParser': 'group_parser', 'LatexMathParser': 'math_parser'}.get(cn, 'other_parser')
                if name == 'may_eos':
                    return cn not in ('LatexDelimitedGroupParser', 'LatexMathParser')
                return default
            raise EngineError('parse_content called with %r as parser' % (parser,))
        return f
    @reg.spec('math_parser_opens')
    def math_parser_opens(it, parser, ps):
        if isinstance(parser, AbsVal) and parser.attrs.get('kind') == 'math_parser':
            d = (parser.attrs.get('args') or {}).get('math_mode_delimiters')
            table = ps.fields.get('_math_delims_info_by_open') if isinstance(ps, Obj) else None
            if d is not None and V.is_str(d) and table is not None:
                return it.contains_term(d, table)
        return True
    reg.spec('p_start')(p_attr('span_start', None))
    reg.spec('p_kind')(p_attr('kind', 'other_parser'))
    reg.spec('p_may_eos')(p_attr('may_eos', True))
    START = '(old(token_reader._pos) if p_start(parser) is None else p_start(parser))'
    reg.add(Contract(
        W + '.parse_content',
        requires=[('reader-given-and-in-range',
                   'token_reader is not None and 0 <= token_reader._pos and token_reader._pos <= len(self.s)'),
                  ('reads-the-walkers-string', 'token_reader.s == self.s'),
                  ('construct-starts-before-the-reader', '0 <= %s and %s <= token_reader._pos'
                   % (START.replace('old(token_reader._pos)', 'token_reader._pos'),
                      START.replace('old(token_reader._pos)', 'token_reader._pos')))],
        result_make=make_pc_result,
        ensures=[
            ('reader-stays-in-the-string', '0 <= token_reader._pos and token_reader._pos <= len(self.s)'),
            ('reader-never-moves-backwards', 'old(token_reader._pos) <= token_reader._pos'),
            ('group-parser-always-yields-its-node', "implies(p_kind(parser) == 'group_parser', result[0] is not None)"),
            # verified for the real math parser by LatexDelimitedExpressionParser.parse / LatexMathParserInfo.is_opening_delimiter
            # (contracts/delimited.py, contracts/mathmode.py): a token that opens no delimiter pair makes it raise, not return
            # ... in strict mode.  In tolerant mode parse_content swallows that error and comes back with the reader reset to the
            # very token (recovery_at_token): NO progress is promised then, so a collector that hands a closing delimiter to
            # the math parser cannot rely on this call to advance
            ('a-math-parser-asked-for-a-delimiter-that-opens-nothing-does-not-return-in-strict-mode',
             'implies(not self.tolerant_parsing, math_parser_opens(parser, parsing_state))'),
            ('delimited-parsers-consume-their-opening-delimiter',
             "implies(p_kind(parser) == 'group_parser' or (p_kind(parser) == 'math_parser' and math_parser_opens(parser, parsing_state)), "
             "%s < token_reader._pos)" % START),
            ('node-lies-in-range', 'result[0] is None or (%s <= result[0].pos and result[0].pos <= result[0].pos_end '
                                   'and result[0].pos_end <= len(self.s))' % START),
            ('strict:node-spans-exactly-what-was-consumed',
             'implies(not self.tolerant_parsing and result[0] is not None, result[0].pos == %s and '
             'result[0].pos_end == token_reader._pos)' % START),
            ('strict:a-node-unless-the-parser-may-meet-end-of-stream',
             'implies(not self.tolerant_parsing and not p_may_eos(parser), result[0] is not None)'),
        ],
        raises={EXC + 'LatexWalkerParseError': {
            'when': 'not self.tolerant_parsing', 'make': make_parse_error,
            'ensures': [('located-error', 'exc.pos is not None and 0 <= exc.pos and exc.pos <= len(self.s)'),
                        ('reader-stays-in-the-string', '0 <= token_reader._pos and token_reader._pos <= len(self.s)'),
                        ('reader-never-moves-backwards', 'old(token_reader._pos) <= token_reader._pos')]}},
        modifies=[('token_reader._pos', 'int')],
        note='span contract of the parser interface; verified for parse_content given parser.parse in walker.py'))

    @reg.spec('illegal_closer')
    def illegal_closer(it, ps):
        """the token just read was a closing brace, an \\end{...} or a math delimiter that opens nothing
        (C05: such a token must raise unless it is the collector's stop token, in which case the exit is
        ReachedStoppingCondition, not a normal return)"""
        t = it.ctx.ghost.get('last_token')
        if t is None:
            return False
        k = t.fields['tok']
        if k in ('brace_close', 'end_environment'):
            return True
        if k in ('mathmode_inline', 'mathmode_display'):
            # handed to a math parser for exactly this delimiter: by the parser contract that parser returns normally only if
            # the delimiter opens a pair in the state it was given (otherwise it raises a located parse error), so the token
            # was not silently accepted
            for parser, _st in it.ctx.ghost.get('parse_calls', []):
                if isinstance(parser, AbsVal) and parser.attrs.get('kind') == 'math_parser' and \
                        (parser.attrs.get('args') or {}).get('math_mode_delimiters') is t.fields['arg']:
                    return False
            return z_not(it.contains_term(t.fields['arg'], ps.fields['_math_delims_info_by_open']))
        return False

    @reg.spec('mode_handover')
    def mode_handover(it, coll, ps0):
        """C10: every node the collector itself creates records the collector's parsing state at that moment, and every
        child construct is parsed in make_child_parsing_state(that state, ...): the state itself unless the owner of
        the collector supplied a child-state callback"""
        for node in coll.fields['_nodelist'].appended:
            if isinstance(node, Obj) and node.tag != 'parsed_node' and 'parsing_state' in node.fields:
                if node.fields['parsing_state'] is not ps0:
                    return False
        given = [k for (nm, a, k) in it.ctx.ghost.get('callback_calls', []) if nm == 'make_child_parsing_state']
        results = it.ctx.ghost.get('child_states', [])
        for parser, ps in it.ctx.ghost.get('parse_calls', []):
            fn = coll.fields.get('_make_child_parsing_state_fn')
            if isinstance(fn, V.LazyField):
                fn = None          # never read on this path: no child was parsed through it
            if fn is None:
                if ps is not ps0:
                    return False
            elif not any(ps is r for r in results):
                return False
        for k in given:
            if k.get('parsing_state') is not ps0:
                return False
        return True

    # ---- process_one_token --------------------------------------------------------------------------------------------
    def setup_pot(it):
        return {'self': mk_collector(it)}

    S = 'self.token_reader.s'
    RD = 'self.token_reader._pos'
    TOL = 'self.latex_walker.tolerant_parsing'
    LOCATED = ('located-error', 'exc.pos is not None and 0 <= exc.pos and exc.pos <= len(%s)' % S)
    COLL_REQ = [('strict:cover-invariant', 'implies(not self.latex_walker.tolerant_parsing, cov(self))'),
                ('ordered-cover', 'cov_weak(self)'),
                ('not-finalized', 'not self._finalized'),
                ('reader-in-range', '0 <= %s and %s <= len(%s)' % (RD, RD, S)),
                ('reader-and-walker-share-the-string', '%s == self.latex_walker.s' % S),
                ('context-database-invariant',
                 'self.parsing_state.latex_context is None or db_inv(self.parsing_state.latex_context)')]
    KEPT = [('context-database-invariant-kept',
             'self.parsing_state.latex_context is None or db_inv(self.parsing_state.latex_context)'),
            ('strict:cover-invariant-kept', 'implies(not %s, cov(self))' % TOL),
            ('ordered-cover-kept', 'cov_weak(self)'),
            ('reader-in-range', '0 <= %s and %s <= len(%s)' % (RD, RD, S))]
    def fresh_nodeseq(it, hint, cur=None):
        # appending only: the new list extends the old one (count grows, flags can only be lost)
        ns = NodeSeq(it.ctx.fresh_int('nodes.n'), it.ctx.fresh_int('nodes.end'), it.ctx.fresh_bool('nodes.exact'),
                     it.ctx.fresh_bool('nodes.order'), it.ctx.fresh_int('nodes.first'), it.ctx.fresh_bool('nodes.nonempty'))
        if cur is not None:
            it.ctx.assume(z3.And(zint(ns.n) >= zint(cur.n), zint(ns.end) >= zint(cur.end)))
            # appending never changes the first node nor empties the list
            it.ctx.assume(z3.Implies(V.zbool(cur.nonempty), z3.And(ns.nonempty, zint(ns.first) == zint(cur.first if cur.first is not None else 0))))
            # consecutive nodes: the first one starts where the (then empty) list ended
            it.ctx.assume(z3.Implies(z3.And(ns.exact, ns.nonempty, z3.Not(V.zbool(cur.nonempty))), zint(ns.first) == zint(cur.end)))
            it.ctx.assume(z3.Implies(z3.And(ns.order, ns.nonempty, z3.Not(V.zbool(cur.nonempty))), zint(ns.first) >= zint(cur.end)))
            it.ctx.assume(z3.Implies(z3.Not(ns.nonempty), zint(ns.end) == zint(cur.end)))
            it.ctx.assume(z3.Implies(ns.nonempty, zint(ns.first) <= zint(ns.end)))
        return ns
    fresh_nodeseq.wants_current = True

    def calc_field(it, hint, cur=None):
        # the walker creates its line-number calculator lazily (when a parse error is annotated) and keeps it
        if cur is not None:
            return cur
        from contracts.walker import mk_calc
        return mk_calc(it, it.fresh_str('calc_s'), it.ctx.fresh_int('lo'), it.ctx.fresh_int('fo'), it.ctx.fresh_int('co'))
    calc_field.wants_current = True
    POT_MODIFIES = [('self.latex_walker._line_no_calc', calc_field), 'self._pending_chars', ('self._pending_chars_pos', ('opt', 'int')), 'self.token_reader._pos',
                    ('self.parsing_state', lambda it, hint: mk_parsing_state(it, 'parsing_state_after', db_inv=True)),
                    ('self._stop_token_condition_met', 'bool'),
                    ('self._stop_token_condition_met_token', lambda it, hint: None),
                    ('self._stop_nodelist_condition_met', 'bool'), ('self._nodelist', fresh_nodeseq)]
    ERRSTATE = [('first-node-kept', 'first_kept(self, old(self._nodelist))'),
                ('reader-at-or-after-entry', '%s >= old(%s)' % (RD, RD)),
                ('strict:nodes-collected-before-the-error-are-kept-consistent', 'implies(not %s, pend_ok(self))' % TOL),
                ('ordered-cover-kept', 'cov_weak(self)'), ('not-finalized', 'not self._finalized'),
                ('reader-in-range', '0 <= %s and %s <= len(%s)' % (RD, RD, S))]
    c_pot = reg.add(Contract(
        COLL + '.process_one_token', setup=setup_pot,
        requires=COLL_REQ,
        ensures=KEPT + [('progress', '%s > old(%s)' % (RD, RD)),
                        ('illegal-closing-tokens-are-never-silently-accepted', 'not illegal_closer(old(self.parsing_state))'),
                        ('internal:nodes-made-here-carry-the-collectors-state-and-children-are-parsed-in-the-child-state',
                         'mode_handover(self, old(self.parsing_state))')],
        raises={
            COLL + '.ReachedStoppingCondition': {'ensures': KEPT + [
                ('stop-leaves-reader-at-or-after-entry', '%s >= old(%s)' % (RD, RD))]},
            COLL + '.ReachedEndOfStream': {'ensures': KEPT + [('nothing-left', '%s == len(%s)' % (RD, S)),
                                                              ('reader-at-or-after-entry', '%s >= old(%s)' % (RD, RD))]},
            EXC + 'LatexWalkerNodesParseError': {
                'make': lambda it, env: make_parse_error(it, env, 'LatexWalkerNodesParseError'),
                'ensures': [LOCATED] + ERRSTATE},
            EXC + 'LatexWalkerParseError': {'when': 'not %s' % TOL, 'make': make_parse_error, 'ensures': [LOCATED] + ERRSTATE},
        },
        modifies=POT_MODIFIES))
    INL = {COLL + '.' + m for m in ('push_pending_chars', 'flush_pending_chars', 'push_to_nodelist', '_check_token_stop_condition',
                                    '_check_nodelist_stop_condition', 'parse_comment_node', 'parse_latex_group', 'parse_macro',
                                    'parse_environment', 'parse_specials', 'parse_invocable_token_type', 'parse_math',
                                    'make_child_parsing_state', 'update_state_from_parsing_state_delta')}
    INL |= {W + '.make_node', W + '.check_tolerant_parsing_ignore_error'}
    units['process_one_token'] = FunctionUnit(c_pot, inline=INL, split_depth=5, max_paths=60000)


    # ---- flush_pending_chars / push_to_nodelist / finalize ---------------------------------------------------------------
    def make_rsc(it, env):
        cls = it.getattr(resolve_class(it, COLL), 'ReachedStoppingCondition')
        return Obj(cls, {'stop_data': AbsVal(it.ctx.fresh_int('stop_data'), 'stop_data'), 'args': ()}, tag='exc')

    FLUSH_REQ = [('strict:collected-so-far-consistent', 'implies(not %s, pend_ok(self))' % TOL),
                 ('ordered-cover', 'cov_weak(self)'), ('not-finalized', 'not self._finalized'),
                 ('reader-and-walker-share-the-string', '%s == self.latex_walker.s' % S)]
    @reg.spec('flushed_end')
    def flushed_end(it, pp, pending, end):
        """where the collected nodes end after flushing `pending` (which starts at pp)"""
        if pp is None:
            return end
        n = V.slen(pending)
        return V.z_ite(simp(zint(n) > 0), simp(zint(pp) + zint(n)), end)

    FLUSHED = [('strict:nodes-end-after-the-flushed-characters',
                'implies(not %s, pend_ok(self) and nodes_end(self) == flushed_end(old(self._pending_chars_pos), '
                'old(self._pending_chars), old(nodes_end(self))))' % TOL),
               ('ordered-cover-kept', 'cov_weak(self)'), ('first-node-kept', 'first_kept(self, old(self._nodelist))')]
    c_flush = reg.add(Contract(
        COLL + '.flush_pending_chars', setup=lambda it: {'self': mk_collector(it)},
        requires=FLUSH_REQ,
        result_make=lambda it, env: (None if it.ctx.choose(2, 'stop condition met') == 0 else make_rsc(it, env)),
        ensures=[('pending-characters-become-one-chars-node-covering-them',
                  'implies(old(self._pending_chars) != "", n_appended(self, old(self._nodelist)) == 1 and '
                  'last_appended(self).chars == old(self._pending_chars) and '
                  'last_appended(self).pos == old(self._pending_chars_pos) and '
                  'last_appended(self).pos_end == old(self._pending_chars_pos) + len(old(self._pending_chars)) and '
                  'last_appended(self).chars == %s[last_appended(self).pos:last_appended(self).pos_end])' % S),
                 ('nothing-pending-afterwards', 'self._pending_chars == "" and self._pending_chars_pos is None'),
                 ('no-node-without-pending-characters',
                  'implies(old(self._pending_chars) == "", n_appended(self, old(self._nodelist)) == 0 and result is None)'),
                 ] + FLUSHED,
        modifies=['self._pending_chars', 'self._pending_chars_pos', 'self._stop_nodelist_condition_met']))
    units['flush_pending_chars'] = FunctionUnit(c_flush, inline={COLL + '.push_to_nodelist',
                                                                  COLL + '._check_nodelist_stop_condition', W + '.make_node'})

    c_fin = reg.add(Contract(
        COLL + '.finalize', setup=lambda it: {'self': mk_collector(it)},
        requires=FLUSH_REQ,
        ensures=[('finalized', 'self._finalized == True'),
                 ('nothing-pending', 'self._pending_chars == ""')] + FLUSHED,
        raises={COLL + '.ReachedStoppingCondition': {'make': make_rsc, 'ensures': [
            ('finalized', 'self._finalized == True'), ('nothing-pending', 'self._pending_chars == ""')] + FLUSHED}},
        modifies=['self._pending_chars', 'self._pending_chars_pos', 'self._stop_nodelist_condition_met', 'self._finalized']))
    units['finalize'] = FunctionUnit(c_fin, inline={COLL + '.flush_pending_chars', COLL + '.push_to_nodelist',
                                                    COLL + '._check_nodelist_stop_condition', W + '.make_node'})

    # ---- parse_comment_node: the comment node carries its source slice -----------------------------------------------------
    def setup_pcn(it):
        c = mk_collector(it, pending=False)
        s = c.fields['token_reader'].fields['s']
        ctx = it.ctx
        a = sym_int(it, 'tok.pos')
        n = sym_int(it, 'tok.arglen', lo=0)
        e = sym_int(it, 'tok.pos_end')
        cs = c.fields['parsing_state'].fields['comment_start']
        L = zint(V.slen(cs))
        ctx.assume(z3.And(a == c.fields['_nodelist'].end, a + L + n <= e, e <= zint(V.slen(s))))
        ctx.assume(V.zbool(it.B.str_startswith(it, s, cs, a)))
        c.fields['token_reader'].fields['_pos'] = e
        tok = mk_token(it, 'comment', V.sslice(ctx, s, a + L, a + L + n), a, e, '', V.sslice(ctx, s, a + L + n, e))
        return {'self': c, 'tok': tok}
    c_pcn = reg.add(Contract(
        COLL + '.parse_comment_node', setup=setup_pcn,
        ensures=[('comment-node-spans-the-token', 'last_appended(self).pos == tok.pos and last_appended(self).pos_end == tok.pos_end'),
                 ('comment-node-text-is-its-source-slice',
                  'self.parsing_state.comment_start + last_appended(self).comment + last_appended(self).comment_post_space '
                  '== %s[tok.pos:tok.pos_end]' % S),
                 ('cover-invariant-kept', 'cov(self)')],
        raises={COLL + '.ReachedStoppingCondition': {'ensures': [('cover-invariant-kept', 'cov(self)')]}},
        modifies=['self._stop_nodelist_condition_met']))
    units['parse_comment_node'] = FunctionUnit(c_pcn, inline={COLL + '.push_to_nodelist', COLL + '._check_nodelist_stop_condition',
                                                              W + '.make_node'})

    # ---- process_tokens: the collecting loop -------------------------------------------------------------------------------------
    c_pt = reg.add(Contract(
        COLL + '.process_tokens', setup=lambda it: {'self': mk_collector(it)},
        requires=COLL_REQ,
        ensures=[('finalized', 'self._finalized == True'),
                 ('strict:cover-invariant-kept', 'implies(not %s, cov(self))' % TOL),
                 ('ordered-cover-kept', 'cov_weak(self)'),
                 ('first-node-kept', 'first_kept(self, old(self._nodelist))'),
                 ('reader-in-range', '0 <= %s and %s <= len(%s)' % (RD, RD, S)),
                 ('reader-never-moves-backwards', '%s >= old(%s)' % (RD, RD)),
                 ('nothing-pending', 'self._pending_chars == ""')],
        raises={EXC + 'LatexWalkerNodesParseError': {
                    'make': lambda it, env: make_parse_error(it, env, 'LatexWalkerNodesParseError'),
                    'ensures': [LOCATED, ('finalized', 'self._finalized == True'), ('nothing-pending', 'self._pending_chars == ""'),
                                ('first-node-kept', 'first_kept(self, old(self._nodelist))'),
                                ('strict:nodes-collected-before-the-error-are-kept-consistent', 'implies(not %s, pend_ok(self))' % TOL),
                                ('ordered-cover-kept', 'cov_weak(self)'),
                                ('reader-never-moves-backwards', '%s >= old(%s)' % (RD, RD)),
                                ('reader-in-range', '0 <= %s and %s <= len(%s)' % (RD, RD, S))]},
                EXC + 'LatexWalkerParseError': {
                    'when': 'not %s' % TOL, 'make': make_parse_error,
                    'ensures': [LOCATED, ('finalized', 'self._finalized == True'), ('nothing-pending', 'self._pending_chars == ""'),
                                ('first-node-kept', 'first_kept(self, old(self._nodelist))'),
                                ('strict:nodes-collected-before-the-error-are-kept-consistent', 'pend_ok(self)'),
                                ('reader-never-moves-backwards', '%s >= old(%s)' % (RD, RD)),
                                ('reader-in-range', '0 <= %s and %s <= len(%s)' % (RD, RD, S))]}},
        modifies=POT_MODIFIES + [('self._finalized', 'bool'), ('self._reached_end_of_stream', 'bool'),
                                 ('self._stop_condition_stop_data',
                                  lambda it, hint: (None if it.ctx.choose(2, 'stop data') == 0 else
                                                    AbsVal(it.ctx.fresh_int('stop_data'), 'stop_data')))]))
    c_pt.extra_olds = ['self._nodelist', RD]
    reg.add_loop(LoopContract(
        COLL + '.process_tokens', 0,
        invariant=COLL_REQ + [('first-node-kept', 'first_kept(self, old(self._nodelist))'),
                              ('reader-never-moves-backwards', '%s >= old(%s)' % (RD, RD))],
        variant='len(%s) - %s' % (S, RD),
        havoc={'self._nodelist': lambda it, hint: NodeSeq(it.ctx.fresh_int('nodes.n'), it.ctx.fresh_int('nodes.end'), True, True,
                                                          it.ctx.fresh_int('nodes.first'), it.ctx.fresh_bool('nodes.nonempty')),
               'self._pending_chars_pos': ('opt', 'int'), 'self.parsing_state': lambda it, hint: mk_parsing_state(it, 'ps_loop', db_inv=True),
               'self.latex_walker._line_no_calc': lambda it, hint: None},
        havoc_fields=['self.latex_walker._line_no_calc', 'self._pending_chars', 'self._pending_chars_pos', 'self.token_reader._pos', 'self._nodelist',
                      'self.parsing_state', 'self._stop_token_condition_met', 'self._stop_token_condition_met_token',
                      'self._stop_nodelist_condition_met']))
    units['process_tokens'] = FunctionUnit(c_pt, split_depth=6)

    for k in units:
        contracts.REPLAYERS[k] = replay
    for pid_ in ('C01', 'C02', 'C05', 'C06', 'C10'):
        contracts.EXTRA_ASSUMPTIONS.setdefault(pid_, [])
        contracts.EXTRA_ASSUMPTIONS[pid_] = list(contracts.EXTRA_ASSUMPTIONS[pid_]) + [
            "A-CHILDSTATE: a make_child_parsing_state callback given to the nodes collector returns a state whose math-delimiter "
            "tables are those of the state it was given (the two callbacks in the package change group delimiters only: C02 "
            "units); with it, a math delimiter that passed the collector's own check also opens a formula for the math parser"]
    return {'C01': units}


NATIVE = PRELUDE + r'''
from pylatexenc.latexwalker import LatexWalker, LatexWalkerParseError
from pylatexenc.latexnodes.parsers import LatexGeneralNodesParser
from pylatexenc.latexnodes import nodes as N
from pylatexenc import macrospec
import signal
def _alarm(*a): raise TimeoutError("parsing did not terminate")
signal.signal(signal.SIGALRM, _alarm)

def children(n):
    out = []
    if getattr(n, "nodeargd", None) is not None and n.nodeargd.argnlist:
        out += [a for a in n.nodeargd.argnlist if a is not None]
    nl = getattr(n, "nodelist", None)
    if nl is not None:
        out += [c for c in nl if c is not None]
    return out

def check_node(s, n, lo, hi):
    if n.pos is None or n.pos_end is None: return "node %r has no position" % (n,)
    if not (lo <= n.pos <= n.pos_end <= hi): return "node %r [%r,%r) outside its parent span [%d,%d)" % (n, n.pos, n.pos_end, lo, hi)
    if isinstance(n, N.LatexCharsNode) and n.chars != s[n.pos:n.pos_end]:
        return "chars node %r != source slice %r" % (n.chars, s[n.pos:n.pos_end])
    if isinstance(n, N.LatexCommentNode) and "%" + n.comment + n.comment_post_space != s[n.pos:n.pos_end]:
        return "comment node %r != source slice %r" % (n, s[n.pos:n.pos_end])
    last = n.pos
    kids = children(n) if not isinstance(n, N.LatexNodeList) else [c for c in n.nodelist if c is not None]
    for c in kids:
        if isinstance(c, N.LatexNodeList):
            if c.pos is None: continue
        m = check_node(s, c, last, n.pos_end)
        if m: return m
        last = c.pos_end
    return None

def check_parse(s, ctx=None):
    kw = {"latex_context": ctx} if ctx is not None else {}
    w = LatexWalker(s, tolerant_parsing=False, **kw)
    signal.alarm(5)
    try:
        nl, _ = w.parse_content(LatexGeneralNodesParser())
    except LatexWalkerParseError:
        return None
    except TimeoutError as e:
        return "%s on %r" % (e, s)
    finally:
        signal.alarm(0)
    pos = 0
    for n in nl:
        if n is None: continue
        if n.pos != pos: return "top-level nodes do not tile %r: node %r starts at %r, expected %d" % (s, n, n.pos, pos)
        m = check_node(s, n, n.pos, n.pos_end)
        if m: return m + " (input %r)" % (s,)
        pos = n.pos_end
    if pos != len(s): return "top-level nodes of %r end at %d, not at %d" % (s, pos, len(s))
    if "".join(n.latex_verbatim() for n in nl if n is not None) != s: return "joined latex_verbatim() differs from %r" % (s,)

DOCS = [r"a {b} c", "x % c\n {y}", r"\textbf  {a} b", "a\n\n b", r"$a$ $$b$$ \(c\) \[d\]", r"\begin{itemize}\item[x] y\end{itemize}",
        r"\sqrt[3] {x}", r"a~b -- c ``d''", r"\verb|x y| z", r"\begin{verbatim} a {b \end{verbatim} c", r"\\[2pt] x", r"\\ [2pt]",
        r"\begin{tabular}{cc} a & b \\ c & d\end{tabular}", r"\emph\alpha x", r"\item[] a", r"\begin{equation*} x \end{equation*}",
        r"\begin{enumerate}\item a\end {enumerate} tail", "\\begin {center}  x \\end  {center}\n", "{\\begin{itemize}\\item[z]\\end\n{itemize}}y",
        r"a { } b", r"x $ $ y", "\\begin{center}\n\\end{center} tail", r"\begin{itemize}\item[ ] x\end{itemize}", r"a\(\)b", r"x \[\] y", r"$$$$ end"]

def search(maxlen=4):
    for d in DOCS:
        m = check_parse(d)
        if m: return m
    for t in strings("a {}$%\n\\~[]", maxlen):
        m = check_parse(t)
        if m: return m
'''


def replay(o, model):
    s = model_str(model, 's')
    return NATIVE + '''
m = check_parse(%r) or search()
if m: reproduced(m)
not_reproduced()
''' % (s,)
