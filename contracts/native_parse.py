"""Native (CPython, real code) oracles for the parser properties C05 / C06, used by replay scripts.
They are bounded searches on the real library, labelled as such; they never count as proof."""
from pyvc.replay import PRELUDE, model_str

COMMON = PRELUDE + r'''
import signal
from pylatexenc.latexwalker import LatexWalker, LatexWalkerParseError
from pylatexenc.latexnodes import LatexWalkerError, ParsingState
from pylatexenc.latexnodes.parsers import LatexGeneralNodesParser
from pylatexenc.latexnodes import nodes as N
def _alarm(*a): raise TimeoutError("did not terminate within 5s")
signal.signal(signal.SIGALRM, _alarm)

def parse(s, tolerant, **pskw):
    w = LatexWalker(s, tolerant_parsing=tolerant)
    ps = w.make_parsing_state(**pskw) if pskw else None
    signal.alarm(5)
    try:
        return w.parse_content(LatexGeneralNodesParser(), parsing_state=ps)[0]
    finally:
        signal.alarm(0)

def dump(n):
    if n is None: return None
    if isinstance(n, N.LatexNodeList): return ("list", n.pos, n.pos_end, [dump(x) for x in n.nodelist])
    d = [type(n).__name__, n.pos, n.pos_end]
    for f in ("chars", "comment", "macroname", "environmentname", "specials_chars", "delimiters", "displaytype", "macro_post_space"):
        if hasattr(n, f): d.append((f, getattr(n, f)))
    if getattr(n, "nodeargd", None) is not None: d.append(("args", [dump(x) for x in (n.nodeargd.argnlist or [])]))
    if hasattr(n, "nodelist"): d.append(("body", dump(n.nodelist) if isinstance(n.nodelist, N.LatexNodeList) else (None if n.nodelist is None else [dump(x) for x in n.nodelist])))
    return tuple(d)

def linecol(s, pos):
    line = s.count("\n", 0, pos) + 1
    col = pos - (s.rfind("\n", 0, pos) + 1)
    return line, col

GOOD = [r"a {b} c", r"\textbf{a} b", r"$a+b$ and \[c\]", r"\begin{itemize}\item x\end{itemize}", "x % c\n y", r"\emph{a $b$}",
        r"\begin{equation}a\end{equation} z", r"\sqrt[3]{x}", r"a\\[2pt] b", r"\(x\) {\it y}", r"``q'' -- ~z"]
TRUNCATED = [r"\textbf", r"\frac{1}", r"\sqrt", r"\section", r"\emph", r"\sqrt[2]", r"\begin{tabular}", r"\verb", r"\item["]
FAULTS = ["}", "{", "$", r"\(", r"\)", r"\[", r"\]", r"\begin{center}", r"\end{center}", "$$"]
'''

C05 = COMMON + r'''
def check_strict(s):
    try:
        parse(s, False)
        return "accepted"
    except LatexWalkerParseError as e:
        if e.pos is None or not (0 <= e.pos <= len(s)):
            return "strict parse of %r raised a parse error with pos=%r (not inside the input)" % (s, e.pos)
        if (e.lineno, e.colno) != linecol(s, e.pos):
            return "strict parse of %r: error at pos %d reports line/col %r, expected %r" % (s, e.pos, (e.lineno, e.colno), linecol(s, e.pos))
        return "rejected"
    except TimeoutError as e:
        return "strict parse of %r %s" % (s, e)
    except Exception as e:
        return "strict parse of %r raised %s: %s (not a LatexWalkerParseError)" % (s, type(e).__name__, e)

def search():
    for g in GOOD:
        r = check_strict(g)
        if r != "accepted": return ("well-formed %r: " % g) + r if r == "rejected" else r
        # one unmatched token inserted at every token boundary outside comments/verbatim
        cuts = [i for i in range(len(g) + 1) if (i == 0 or not g[i-1].isalpha() or i == len(g) or not g[i].isalpha()) and "%" not in g[:i]]
        for i in cuts:
            if i > 0 and g[i-1] == "\\": continue
            for f in FAULTS:
                s = g[:i] + f + g[i:]
                if f == "$" and g.count("$") % 2: continue
                r = check_strict(s)
                if r == "accepted":
                    # inserting '{'+... may by chance pair up with later text only for symmetric delimiters
                    if f in ("$", "$$") : continue
                    return "unbalanced document %r (added %r at %d) was accepted in strict mode" % (s, f, i)
                if r != "rejected": return r
    for f in (r"\textbf", r"\frac1", r"\emph", r"\sqrt"):
        for t in (r"\end{x}", r"\begin{x}"):
            s = "a " + f + t + "{y} b"
            r = check_strict(s)
            if r == "accepted": return "unbalanced document %r was accepted in strict mode" % (s,)
            if r != "rejected": return r
    for f in TRUNCATED:
        for s in ("a " + f, "{a " + f, "a " + f + "  ", "$x " + f, "a " + f + "% c"):
            r = check_strict(s)
            if r not in ("accepted", "rejected"): return r
    for t in strings("a {}$\\%\n[]", 4):
        r = check_strict(t)
        if r not in ("accepted", "rejected"): return r
'''

C06 = COMMON + r'''
def check_tolerant(s, **pskw):
    if not pskw:
        # the pylatexenc-2 entry point on the same input: a (nodes, pos, len) tuple with integer positions, no exception
        import warnings
        with warnings.catch_warnings():
            warnings.simplefilter("ignore")
            signal.alarm(5)
            try:
                r = LatexWalker(s, tolerant_parsing=True).get_latex_nodes()
                if not (isinstance(r, tuple) and len(r) == 3 and isinstance(r[1], int) and isinstance(r[2], int)):
                    return "tolerant get_latex_nodes() of %r returns %r" % (s, r)
            except TimeoutError as e:
                return "tolerant get_latex_nodes() of %r %s" % (s, e)
            except Exception as e:
                return "tolerant get_latex_nodes() of %r raised %s: %s" % (s, type(e).__name__, e)
            finally:
                signal.alarm(0)
    try:
        t = parse(s, True, **pskw)
    except TimeoutError as e:
        return "tolerant parse of %r %s" % (s, e)
    except Exception as e:
        return "tolerant parse of %r raised %s: %s" % (s, type(e).__name__, e)
    try:
        st = parse(s, False, **pskw)
    except LatexWalkerParseError as e:
        return None
    except Exception:
        return None
    if dump(t) != dump(st):
        return "input %r parses in strict mode but the tolerant tree differs:\n strict   %r\n tolerant %r" % (s, dump(st), dump(t))

def verb(nl):
    return "".join(n.latex_verbatim() for n in nl if n is not None) if nl is not None else None

def search():
    for g in GOOD + [r"text \item", r"first line \\", r"x \\*"]:
        m = check_tolerant(g)
        if m: return m
        for f in ["}", r"\)", r"\]", r"\end{center}", "$ z", r"\begin{"]:
            s = g + " " + f + " tail"
            m = check_tolerant(s)
            if m: return m
            t = parse(s, True)
            v = verb(t)
            if v is None or not v.startswith(g):
                return "tolerant parse of %r lost content parsed before the first error: nodes cover %r, expected to start with %r" % (s, v, g)
    for s in ["Price: 100# apples", r"\textbf{a#b}", "x #"]:
        m = check_tolerant(s, forbidden_characters="#")
        if m: return m
    for s in ["} a", "}", "\\end{x} a", "\\) a", "\\] a", "}}", "\\end{document}", "a \\) b", "$x \\] y$ z", "{g \\] h} i"]:
        m = check_tolerant(s)
        if m: return m
    # input that stops where an argument is still expected
    for f in TRUNCATED:
        for s in ("a " + f, "{a " + f, "a " + f + "  ", "$x " + f, "a " + f + "% c"):
            m = check_tolerant(s)
            if m: return m
    for t in strings("a {}$\\%\n[]", 4):
        m = check_tolerant(t)
        if m: return m
'''


def replay_c05(o, model):
    s = model_str(model, 's')
    return C05 + '''
r = check_strict(%r)
if r not in ("accepted", "rejected"): reproduced(r)
m = search()
if m: reproduced(m + "  [bounded search]")
not_reproduced()
''' % (s,)


def replay_c06(o, model):
    s = model_str(model, 's')
    return C06 + '''
m = check_tolerant(%r) or search()
if m: reproduced(m)
not_reproduced()
''' % (s,)
