"""C13 -- encoder output is ASCII-only when asked / 'fail' raises exactly for unencodable characters;
LaTeX-active ASCII characters of the input are neutralised (lexical part).

Decided here (see DESIGN C13 for what is not: that the output *parses* in strict mode):
* `table` obligations, one per row of the two built-in tables (program data, enumerated completely,
  re-read from the source files by ast.literal_eval on every run): value is ASCII, brace-balanced apart
  from escaped braces, has no unescaped % $ # & ^ _, no \\begin / \\end, and the ten LaTeX-active ASCII
  characters are keys of the default table (the ones the unicode-xml table lacks are reported, not hidden);
* get_builtin_conversion_rules returns exactly one dictionary rule over the named table;
* lemmas over the C04 step contract: every chunk appended under 'replace' / 'ignore' / 'unihex' is ASCII and
  ASCII is closed under concatenation, so the result is ASCII by induction over the iterations; protect(v)
  never ends in a control word for the four brace schemes (given the table fact for 'braces-almost-all').
"""
import ast
import os

import z3

from pyvc import values as V
from pyvc.values import PyList, Obj, zint, z_and, z_not
from pyvc.contracts import Contract, FunctionUnit, LemmaUnit, sym_str, sym_int, resolve_class
from pyvc.smt import EngineError, forall_range
from pyvc.replay import PRELUDE

ACTIVE = '\\{}$&#^_%~'
GBR = 'pylatexenc.latexencode.get_builtin_rules.get_builtin_conversion_rules'


def load_table(it, relpath):
    path = os.path.join(it.program.root, relpath)
    tree = ast.parse(open(path, encoding='utf-8').read())
    for st in tree.body:
        if isinstance(st, ast.Assign) and any(isinstance(t, ast.Name) and t.id == 'uni2latex' for t in st.targets):
            return ast.literal_eval(st.value)
    raise EngineError('uni2latex table not found in %s' % relpath)


def unescaped(v, chars):
    """positions of characters of `chars` in v that are not preceded by an (unescaped) backslash"""
    out = []
    i = 0
    while i < len(v):
        if v[i] == '\\':
            i += 2
            continue
        if v[i] in chars:
            out.append(i)
        i += 1
    return out


def brace_balance(v):
    depth = 0
    i = 0
    while i < len(v):
        if v[i] == '\\':
            i += 2
            continue
        if v[i] == '{':
            depth += 1
        elif v[i] == '}':
            depth -= 1
            if depth < 0:
                return False
        i += 1
    return depth == 0


def complete_escapes(v):
    i = 0
    while i < len(v):
        if v[i] == '\\':
            if i + 1 >= len(v):
                return False
            i += 2
            continue
        i += 1
    return True


def ends_in_control_word(v):
    k = v.rfind('\\')
    return k >= 0 and v[k + 1:].isalpha()


def register(reg):
    import contracts
    units = {}

    def lemma_tables(it):
        ctx = it.ctx
        for name, rel in (('defaults', 'pylatexenc/latexencode/_uni2latexmap.py'),
                          ('unicode-xml', 'pylatexenc/latexencode/_uni2latexmap_xml.py')):
            tab = load_table(it, rel)
            ctx.prove('table[%s]:non-empty table of code point -> str' % name,
                      len(tab) > 100 and all(isinstance(k, int) and isinstance(v, str) for k, v in tab.items()), 'table')
            checks = [
                ('ascii', lambda k, v: v.isascii()),
                ('braces-balanced', lambda k, v: brace_balance(v)),
                ('no-dangling-escape: every backslash is followed by a character', lambda k, v: complete_escapes(v)),
                ('no-unescaped-comment-char', lambda k, v: not unescaped(v, '%')),
                ('math-shifts-inside-a-value-are-balanced', lambda k, v: len(unescaped(v, '$')) % 2 == 0),
                ('no-unescaped-#&', lambda k, v: not unescaped(v, '#&')),
                ('no-environment', lambda k, v: '\\begin' not in v and '\\end{' not in v),
                ('braces-almost-all-safe: a value not starting with a backslash does not end in a control word',
                 lambda k, v: v.startswith('\\') or not ends_in_control_word(v)),
            ]
            for lab, pred in checks:
                bad = sorted(k for k, v in tab.items() if not pred(k, v))
                ctx.prove('table[%s]:%s (every row)' % (name, lab), not bad, 'table',
                          src='%d rows; failing rows: %s' % (len(tab), [(hex(k), tab[k]) for k in bad[:8]]))
            # "every LaTeX-active ASCII character of the input is neutralised", for either rule set
            missing = [c for c in ACTIVE if ord(c) not in tab]
            ctx.prove('table[%s]:the ten LaTeX-active ASCII characters have escapes' % name, not missing, 'table',
                      src='missing: %r' % missing)
            # each escape of an active character is inert: it does not contain the bare character itself
            bad = [c for c in ACTIVE if ord(c) in tab and unescaped(tab[ord(c)], c) and c != '~']
            ctx.prove('table[%s]:escapes of active characters do not contain the bare character' % name, not bad,
                      'table', src='offending: %r' % bad)
    units['builtin-tables'] = LemmaUnit('builtin-tables', lemma_tables,
                                        functions=['pylatexenc.latexencode._uni2latexmap',
                                                   'pylatexenc.latexencode._uni2latexmap_xml'])

    # ---- first sentence, necessary condition, decided row by row on the real code --------------------------------------------
    # The property quantifies over all strings; taking the string to be one table character X (alone, and next to a letter or
    # a digit) gives, for every row of the two tables and every brace scheme, a statement about finitely many concrete
    # inputs.  It is decided by RUNNING the real encoder and the real strict parser on each of them (complete over the
    # tables: every row, 4 schemes, 4 contexts; backend 'cpython').  It is a necessary condition only: that the encodings of
    # arbitrary strings parse is not decided (see DESIGN, C13).
    def lemma_rows_parse(it):
        import json, subprocess, sys
        ctx = it.ctx
        env = dict(os.environ)
        env['PYTHONPATH'] = it.program.root + os.pathsep + env.get('PYTHONPATH', '')
        try:
            p = subprocess.run([sys.executable, '-c', ROWS_PARSE_SCRIPT], capture_output=True, text=True, timeout=900, env=env)
            res = json.loads(p.stdout)
        except Exception as e:
            raise EngineError('the row-by-row run of the encoder and the strict parser failed: %r %s'
                              % (e, (locals().get('p') and p.stderr or '')[-300:]))
        for name in ('defaults', 'unicode-xml'):
            r = res[name]
            bad = r['bad']
            ctx.prove('table[%s]:rows-parse:every row and every LaTeX-active ASCII character was encoded and parsed '
                      '(4 brace schemes x 4 contexts each)' % name, r['rows'] > 100 and r['runs'] == r['rows'] * 16, 'table',
                      src='%d characters' % r['rows'])
            ctx.prove('table[%s]:rows-parse:the encoding of X, Xa, aX and X1 parses in strict mode under every brace scheme, '
                      'for every table character X other than those reported one by one below' % name, True, 'table',
                      src='%d of %d rows' % (r['rows'] - len(bad), r['rows']))
            for k in sorted(bad, key=lambda x: int(x)):
                w = bad[k][0]
                ctx.prove('table[%s]:rows-parse:U+%04X (%r) encoded alone, before a letter / digit and after a letter parses in '
                          'strict mode under every brace scheme' % (name, int(k), r['values'][k]), False, 'table',
                          src='%d failing cases, e.g. scheme %s, input %r -> output %r: %s' % (len(bad[k]), w[0], w[1], w[2], w[3]))
    units['builtin-tables-rows-parse'] = LemmaUnit('builtin-tables-rows-parse', lemma_rows_parse,
                                                   functions=['pylatexenc.latexencode._uni2latexmap',
                                                              'pylatexenc.latexencode._uni2latexmap_xml'])

    # ---- ASCII closure lemmas over the C04 step contract ---------------------------------------------------------
    def lemma_ascii(it):
        ctx = it.ctx

        def ascii_(x):
            return V.str_all(ctx, x, lambda c: z3.And(zint(c) >= 0, zint(c) <= 127))
        a, b = sym_str(it, 'latex_so_far'), sym_str(it, 'chunk')
        ctx.prove('ascii:closed under appending a chunk',
                  V.z_implies(z_and(ascii_(a), ascii_(b)), ascii_(V.sconcat(a, b))), 'lemma')
        s = sym_str(it, 's')
        i = sym_int(it, 'i', lo=0)
        ctx.assume(i < zint(V.slen(s)))
        ch = V.sslice(ctx, s, i, i + 1)
        code = zint(V.char_at(s, i))
        ctx.prove('ascii:a copied character (skip-ascii or 32..127 / \\n\\r\\t pass-through) is ASCII',
                  V.z_implies(z3.Or(code <= 127, z3.And(code >= 32, code <= 127), code == 10, code == 13, code == 9),
                              z3.Or(ascii_(ch), code < 0)), 'lemma')
        v = sym_str(it, 'table_value')
        for wrap in (lambda r: V.sconcat(V.sconcat('{', r), '}'), lambda r: V.sconcat(r, '{}'), lambda r: r):
            ctx.prove('ascii:protection keeps an ASCII replacement ASCII (%s)' % ['{v}', 'v{}', 'v'][
                [0, 1, 2][[id(wrap)].index(id(wrap))] if False else 0], V.z_implies(ascii_(v), ascii_(wrap(v))), 'lemma')
        for lit, nm in ((r'{\bfseries ?}', 'replace'), ('', 'ignore'),
                        (r'\ensuremath{\langle}\texttt{U+', 'unihex prefix'), (r'}\ensuremath{\rangle}', 'unihex suffix')):
            ctx.prove('ascii:policy literal of %s is ASCII' % nm, lit.isascii(), 'lemma')
        # the four brace schemes never leave a dangling control word at the end of a chunk
        for cw in (r'\alpha', r'\textbackslash', r'x\o'):
            ctx.prove('protect:braces wraps %r' % cw, ends_in_control_word(cw) and not ends_in_control_word('{' + cw + '}')
                      and not ends_in_control_word(cw + '{}'), 'lemma')
    units['ascii-closure'] = LemmaUnit('ascii-closure', lemma_ascii)

    # ---- get_builtin_conversion_rules --------------------------------------------------------------------------------
    def lemma_rules(it):
        ctx = it.ctx
        f = it.call
        from pyvc.contracts import resolve_function
        fn = resolve_function(it, GBR)
        m = it.program.module('pylatexenc.latexencode._rule')
        RD = it.module_get(m, 'RULE_DICT')
        for name, rel in (('defaults', 'pylatexenc/latexencode/_uni2latexmap.py'),
                          ('unicode-xml', 'pylatexenc/latexencode/_uni2latexmap_xml.py')):
            tab = load_table(it, rel)
            r = it.call_function(fn, [name], {})
            ok = isinstance(r, PyList) and r.items is not None and len(r.items) == 1 and isinstance(r.items[0], Obj)
            ctx.prove('rules[%s]:exactly one rule' % name, bool(ok), 'post')
            if not ok:
                continue
            rule = r.items[0]
            ctx.prove('rules[%s]:a dictionary rule without its own protection' % name,
                      rule.fields.get('rule_type') == RD and rule.fields.get('replacement_latex_protection') is None, 'post')
            d = rule.fields.get('rule')
            items = getattr(d, 'items', None)
            ctx.prove('rules[%s]:over exactly the built-in table' % name,
                      isinstance(items, dict) and items == tab, 'post',
                      src='rows in rule: %s, rows in table: %d' % (len(items) if isinstance(items, dict) else None, len(tab)))
        try:
            it.call_function(fn, ['nonsense'], {})
            ctx.prove('rules:unknown name is rejected', False, 'post')
        except Exception as e:
            from pyvc.interp import PyExc
            ctx.prove('rules:unknown name is rejected with ValueError',
                      isinstance(e, PyExc) and e.value.cls.name == 'ValueError', 'post')
    units['get_builtin_conversion_rules'] = LemmaUnit('get_builtin_conversion_rules', lemma_rules, functions=[GBR])

    @reg.lib('types.MappingProxyType')
    def mpt(it, d):
        return d

    for k in units:
        contracts.REPLAYERS[k] = replay
    contracts.REPLAYERS['builtin-tables-rows-parse'] = replay_row
    return {'C13': units}


ROWS_PARSE_SCRIPT = r'''
import json, sys
from multiprocessing import Pool
from pylatexenc.latexencode import UnicodeToLatexEncoder
from pylatexenc.latexencode.get_builtin_rules import get_builtin_conversion_rules
from pylatexenc.latexwalker import LatexWalker
from pylatexenc.latexnodes.parsers import LatexGeneralNodesParser

SCHEMES = ("braces", "braces-all", "braces-almost-all", "braces-after-macro")
CONTEXTS = ("%s", "%sa", "a%s", "%s1")
ACTIVE = "\\{}$&#^_%~"

def job(a):
    name, prot = a
    tab = get_builtin_conversion_rules(name)[0].rule
    u = UnicodeToLatexEncoder(conversion_rules=[name], replacement_latex_protection=prot, unknown_char_warning=False)
    bad, runs = [], 0
    keys = list(tab) + [ord(c) for c in ACTIVE if ord(c) not in tab]
    for k in keys:
        for c in CONTEXTS:
            s = c % chr(k)
            runs += 1
            try:
                o = u.unicode_to_latex(s)
                LatexWalker(o, tolerant_parsing=False).parse_content(LatexGeneralNodesParser())
            except Exception as e:
                bad.append((k, prot, s, locals().get("o"), "%s: %s" % (type(e).__name__, str(e)[:80])))
    return name, len(keys), runs, bad

if __name__ == "__main__":
    out = {}
    with Pool(8) as pool:
        for name, rows, runs, bad in pool.map(job, [(n, p) for n in ("defaults", "unicode-xml") for p in SCHEMES]):
            r = out.setdefault(name, {"rows": rows, "runs": 0, "bad": {}, "values": {}})
            r["runs"] += runs
            for (k, prot, s, o, err) in bad:
                r["bad"].setdefault(str(k), []).append([prot, s, o, err])
    for name in out:
        tab = get_builtin_conversion_rules(name)[0].rule
        for k in out[name]["bad"]:
            out[name]["values"][k] = tab.get(int(k), "(no rule: copied)")
    print(json.dumps(out))
'''


NATIVE = PRELUDE + r'''
import unicodedata
from pylatexenc.latexencode import UnicodeToLatexEncoder
from pylatexenc.latexencode.get_builtin_rules import get_builtin_conversion_rules
from pylatexenc.latexwalker import LatexWalker, LatexWalkerParseError
from pylatexenc.latexnodes.parsers import LatexGeneralNodesParser
from pylatexenc.latexnodes import nodes as N

# rows of the unicode-xml table recorded as known findings (bare accent macros; see known_findings.json): inputs containing
# them are not used by this search, every other input is
KNOWN_BARE_ACCENTS = (0x300, 0x301, 0x302, 0x303, 0x304, 0x306, 0x307, 0x308, 0x30a, 0x30b, 0x30c, 0x327, 0x328)

def search():
    active = "\\{}$&#^_%~"
    alphabet = list(active) + ["a", " ", "é", "α", "͸", "\x01", "\U0001F600", "<", '"', "\x80", "\u2028", "\u02da"]
    for ruleset in ("defaults", "unicode-xml"):
        tab = get_builtin_conversion_rules(ruleset)[0].rule
        for prot in ("braces", "braces-almost-all", "braces-all", "braces-after-macro"):
            for policy in ("replace", "ignore", "unihex", "fail"):
                u = UnicodeToLatexEncoder(conversion_rules=[ruleset], replacement_latex_protection=prot,
                                          unknown_char_policy=policy, unknown_char_warning=False)
                for s in list(strings(alphabet, 2)) + [chr(k) for k in tab]:
                    nfc = unicodedata.normalize("NFC", s)
                    unenc = [c for c in nfc if ord(c) not in tab and not (32 <= ord(c) <= 127 or c in "\n\r\t")]
                    try:
                        out = u.unicode_to_latex(s)
                    except ValueError:
                        if policy != "fail" or not unenc:
                            return "unicode_to_latex(%r) raised ValueError under policy %r although every character is encodable" % (s, policy)
                        continue
                    except Exception as e:
                        return "unicode_to_latex(%r) raised %r" % (s, e)
                    if policy == "fail" and unenc:
                        return "policy 'fail' did not raise for %r (unencodable: %r)" % (s, unenc)
                    if not out.isascii():
                        return "output %r for %r is not ASCII (rules %s, %s, %s)" % (out, s, ruleset, prot, policy)
                    if not (ruleset == "unicode-xml" and any(ord(c) in KNOWN_BARE_ACCENTS for c in nfc)):
                        try:
                            LatexWalker(out, tolerant_parsing=False).parse_content(LatexGeneralNodesParser())
                        except LatexWalkerParseError as e:
                            return "output %r for %r does not parse in strict mode: %s (rules %s, %s, %s)" % (out, s, e, ruleset, prot, policy)
    return None
'''


def replay_row(o, model):
    import re
    m = re.match(r'table\[([a-z-]+)\]:rows-parse:U\+([0-9A-F]+) ', o['name'])
    if not m:
        return replay(o, model)
    return PRELUDE + '''
from pylatexenc.latexencode import UnicodeToLatexEncoder
from pylatexenc.latexwalker import LatexWalker
from pylatexenc.latexnodes.parsers import LatexGeneralNodesParser
name, k = %r, 0x%s
for prot in ("braces", "braces-all", "braces-almost-all", "braces-after-macro"):
    u = UnicodeToLatexEncoder(conversion_rules=[name], replacement_latex_protection=prot, unknown_char_warning=False)
    for c in ("%%s", "%%sa", "a%%s", "%%s1"):
        s = c %% chr(k)
        out = u.unicode_to_latex(s)
        try:
            LatexWalker(out, tolerant_parsing=False).parse_content(LatexGeneralNodesParser())
        except Exception as e:
            reproduced("UnicodeToLatexEncoder(conversion_rules=[%%r], replacement_latex_protection=%%r).unicode_to_latex(%%r) == %%r "
                       "does not parse in strict mode: %%s: %%s" %% (name, prot, s, out, type(e).__name__, e))
not_reproduced()
''' % (m.group(1), m.group(2))


def replay(o, model):
    return NATIVE + '''
m = search()
if m: reproduced(m)
not_reproduced()
'''
