"""C17 -- latexnodes/_parsingstate.py: a state derived through sub_context() carries exactly the
cached tables a freshly built state with the same public fields would have (PS_inv), and
sub_context() does not alter its receiver.

Two parts:

(1) `finalize-guards` (lemma unit, VCs generated from the AST of the three _finalize_state_* methods).
    Each method has the shape
        if <guard over 'f' not in kwargs / parent is not None / ...>:
            self._X = parent._X ; ... ; return            # inherit
        <statements that compute self._X from self.<fields> and earlier cached tables>   # recompute
    The recompute part is abstracted as an uninterpreted function E_X of exactly the attributes it
    reads (computed from the AST, cached attributes resolved through their own E); nothing else
    about it is assumed.  With  child.f == parent.f  for every field f not in kwargs (this is the
    post-condition of sub_context, part 2) and PS_inv(parent), the obligation per cached attribute is
        child._X (as assigned by the real code, inherit or recompute)  ==  E_X(child's fields)
    It holds iff the inherit guard mentions every field in the transitive read-set of E_X.

(2) sub_context / set_fields / get_fields / _safe_eq executed symbolically with abstract field values.
"""
import ast

import z3

from pyvc import values as V
from pyvc.values import Obj, PyDict, PyList, AbsVal, Builtin, z_and, z_or, z_not
from pyvc.contracts import Contract, FunctionUnit, LemmaUnit, new_obj, resolve_function, resolve_class
from pyvc.smt import EngineError
from pyvc.replay import PRELUDE

PS = 'pylatexenc.latexnodes._parsingstate.ParsingState'
FINALIZERS = ['_finalize_state_latex_group_delimiters_info', '_finalize_state_latex_math_delim_info',
              '_finalize_state_inmathmode_info']
FIELDS = ['s', 'latex_context', 'in_math_mode', 'math_mode_delimiter', 'latex_group_delimiters',
          'latex_inline_math_delimiters', 'latex_display_math_delimiters', 'enable_double_newline_paragraphs',
          'enable_macros', 'enable_environments', 'enable_comments', 'enable_groups', 'enable_specials',
          'enable_math', 'macro_alpha_chars', 'macro_escape_char', 'comment_start', 'forbidden_characters']


class Shape(Exception):
    pass


def analyse_finalizer(fn):
    """(guard ast, {inherited attr: parent attr}, [recompute statements])"""
    body = [st for st in fn.body if not (isinstance(st, ast.Expr) and isinstance(st.value, ast.Constant))]
    if not body or not isinstance(body[0], ast.If) or body[0].orelse:
        raise Shape('%s does not start with "if <guard>: inherit...; return"' % fn.name)
    first = body[0]
    inh = {}
    stmts = [st for st in first.body if not (isinstance(st, ast.Expr) and isinstance(st.value, ast.Constant))]
    if not stmts or not isinstance(stmts[-1], ast.Return) or stmts[-1].value is not None:
        raise Shape('%s: the inherit branch does not end with a bare return' % fn.name)
    for st in stmts[:-1]:
        ok = (isinstance(st, ast.Assign) and len(st.targets) == 1 and isinstance(st.targets[0], ast.Attribute)
              and isinstance(st.targets[0].value, ast.Name) and st.targets[0].value.id == 'self'
              and isinstance(st.value, ast.Attribute) and isinstance(st.value.value, ast.Name)
              and st.value.value.id == 'parent')
        if not ok:
            raise Shape('%s: inherit branch statement %r is not self._X = parent._Y' % (fn.name, ast.unparse(st)))
        inh[st.targets[0].attr] = st.value.attr
    return first.test, inh, body[1:]


def reads_writes(stmts):
    reads, writes = [], []
    for st in stmts:
        for n in ast.walk(st):
            if isinstance(n, ast.Attribute) and isinstance(n.value, ast.Name) and n.value.id == 'self':
                if isinstance(n.ctx, ast.Store):
                    if n.attr not in writes:
                        writes.append(n.attr)
                elif n.attr not in reads:
                    reads.append(n.attr)
            elif isinstance(n, ast.Name) and n.id in ('parent', 'kwargs'):
                raise Shape('the recompute branch mentions %s' % n.id)
    return reads, writes


MUTATORS = {'append', 'extend', 'insert', 'update', 'pop', 'popitem', 'remove', 'clear', 'add', 'discard', 'setdefault', 'sort',
            'reverse', '__setitem__', '__delitem__', '__iadd__'}


def inplace_updates(stmts, own_tables):
    """syntactic frame of a block: in-place updates (augmented assignment, subscript store / delete, mutator method call) of
    self.<attr> for an attribute that is not one of the block's own tables, or of a local name bound to such an attribute
    (an alias: x = self.f).  The values of the public fields are shared between a state and the states derived from it, so
    such an update alters the receiver of sub_context()."""
    alias = {}
    out = []

    def root(n):
        while isinstance(n, (ast.Subscript, ast.Attribute)) and not (
                isinstance(n, ast.Attribute) and isinstance(n.value, ast.Name) and n.value.id == 'self'):
            n = n.value
        if isinstance(n, ast.Attribute) and isinstance(n.value, ast.Name) and n.value.id == 'self':
            return None if n.attr in own_tables else 'self.' + n.attr
        if isinstance(n, ast.Name) and n.id in alias:
            return '%s (= %s)' % (n.id, alias[n.id])
        return None
    for st in stmts:
        for n in ast.walk(st):
            if isinstance(n, ast.Assign) and len(n.targets) == 1 and isinstance(n.targets[0], ast.Name):
                v = n.value
                if isinstance(v, ast.Attribute) and isinstance(v.value, ast.Name) and v.value.id == 'self' and v.attr not in own_tables:
                    alias[n.targets[0].id] = 'self.' + v.attr
                elif isinstance(v, ast.Name) and v.id in alias:
                    alias[n.targets[0].id] = alias[v.id]
                else:
                    alias.pop(n.targets[0].id, None)
            if isinstance(n, ast.AugAssign):
                r = root(n.target)
                if r and not (isinstance(n.target, ast.Attribute) and False):
                    out.append('%s: augmented assignment to %s' % (ast.unparse(n)[:60], r))
            if isinstance(n, (ast.Assign, ast.Delete)):
                for t in (n.targets if isinstance(n, (ast.Assign, ast.Delete)) else []):
                    if isinstance(t, ast.Subscript) and root(t.value):
                        out.append('%s: item store into %s' % (ast.unparse(n)[:60], root(t.value)))
            if isinstance(n, ast.Call) and isinstance(n.func, ast.Attribute) and n.func.attr in MUTATORS and root(n.func.value):
                out.append('%s: %s() on %s' % (ast.unparse(n)[:60], n.func.attr, root(n.func.value)))
    return out


def register(reg):
    import contracts
    units = {}

    def lemma_guards(it):
        ctx = it.ctx
        Val = z3.DeclareSort('Val')
        p = {f: z3.Const('parent.' + f, Val) for f in FIELDS}
        c = {f: z3.Const('child.' + f, Val) for f in FIELDS}
        inK = {f: z3.Bool("'%s' in kwargs" % f) for f in FIELDS}
        for f in FIELDS:
            ctx.register_input("'%s' in kwargs" % f, 'bool', inK[f])
            ctx.register_input('child.%s differs from parent' % f, 'bool', c[f] != p[f])
            # sub_context's contract: a field that is not in the recorded kwargs has the parent's value
            if f == 'math_mode_delimiter':
                # set_fields() resets the delimiter when math mode is left, so it may also change when
                # only in_math_mode is among the changed keys (this is what sub_context's unit proves)
                ctx.assume(z3.Implies(z3.And(z3.Not(inK[f]), z3.Not(inK['in_math_mode'])), c[f] == p[f]))
            else:
                ctx.assume(z3.Implies(z3.Not(inK[f]), c[f] == p[f]))
        parent_is_none = z3.Bool('parent is None')
        truth = z3.Function('truth', Val, z3.BoolSort())
        # the order in which finalize_state calls the three methods
        fin = resolve_function(it, PS + '.finalize_state')
        order = [n.func.attr for n in ast.walk(fin.node)
                 if isinstance(n, ast.Call) and isinstance(n.func, ast.Attribute) and n.func.attr in FINALIZERS]
        ctx.prove('finalize-guards:finalize_state calls the three table builders, each once',
                  sorted(order) == sorted(FINALIZERS), 'lemma', src='calls found: %r' % (order,))
        E = {}            # cached attr -> (uf, reads)
        fresh_child = {}  # cached attr -> FRESH term over child fields
        fresh_parent = {}
        actual_child = {}
        cached_all = []
        for name in order:
            fn = resolve_function(it, PS + '.' + name).node
            try:
                guard, inh, rest = analyse_finalizer(fn)
                reads, writes = reads_writes(rest)
                # a table read after being built in the same block is internal to the block
                reads = [r for r in reads if r not in writes]
            except Shape as e:
                raise EngineError(str(e))
            ctx.prove('finalize-guards:%s inherits exactly the tables it recomputes' % name,
                      sorted(inh) == sorted(writes), 'lemma',
                      src='inherited %r, recomputed %r' % (sorted(inh), sorted(writes)))
            upd = inplace_updates(rest, set(writes))
            ctx.prove('finalize-guards:%s only assigns its own tables (no in-place update of a field, or of a local alias of one, '
                      'which the state shares with the state it was derived from)' % name, not upd, 'frame',
                      src='in-place updates found: %s' % upd)

            def val_of(attr, table, fields):
                if attr in fields:
                    return fields[attr]
                if attr in table:
                    return table[attr]
                raise EngineError('%s reads self.%s which is neither a field nor a table built earlier' % (name, attr))
            for X in writes:
                uf = z3.Function('E_' + X, *([Val] * len(reads) + [Val])) if reads else None
                E[X] = (uf, reads)
            new_fresh_c, new_fresh_p = {}, {}
            for X in writes:
                uf, rd = E[X]
                new_fresh_c[X] = uf(*[val_of(a, fresh_child, c) for a in rd]) if uf is not None else z3.Const('E_' + X, Val)
                new_fresh_p[X] = uf(*[val_of(a, fresh_parent, p) for a in rd]) if uf is not None else z3.Const('E_' + X, Val)
            # the guard as a formula
            def gterm(n):
                if isinstance(n, ast.BoolOp):
                    parts = [gterm(v) for v in n.values]
                    return z3.And(*parts) if isinstance(n.op, ast.And) else z3.Or(*parts)
                if isinstance(n, ast.UnaryOp) and isinstance(n.op, ast.Not):
                    return z3.Not(gterm(n.operand))
                if isinstance(n, ast.Compare) and len(n.ops) == 1:
                    l, op, r = n.left, n.ops[0], n.comparators[0]
                    if isinstance(l, ast.Name) and l.id == 'parent' and isinstance(r, ast.Constant) and r.value is None:
                        if isinstance(op, ast.IsNot):
                            return z3.Not(parent_is_none)
                        if isinstance(op, ast.Is):
                            return parent_is_none
                    if isinstance(l, ast.Constant) and isinstance(l.value, str) and isinstance(r, ast.Name) and r.id == 'kwargs':
                        key = l.value
                        # a key that is not a field name is never in kwargs (sub_context filters on the fields)
                        t = inK[key] if key in inK else z3.BoolVal(False)
                        return z3.Not(t) if isinstance(op, ast.NotIn) else t
                if isinstance(n, ast.Attribute) and isinstance(n.value, ast.Name) and n.value.id == 'self' and n.attr in c:
                    return truth(c[n.attr])
                raise EngineError('guard of %s has an unsupported part: %s' % (name, ast.unparse(n)))
            g = gterm(guard)
            ctx.prove('finalize-guards:%s never inherits from a missing parent' % name,
                      z3.Implies(g, z3.Not(parent_is_none)), 'lemma')
            # what the real code leaves in self._X
            for X in writes:
                if X in inh:
                    py = inh[X]
                    pv = fresh_parent.get(py, new_fresh_p.get(py))
                    if pv is None:
                        raise EngineError('%s copies parent.%s which no builder establishes' % (name, py))
                    actual_child[X] = z3.If(g, pv, new_fresh_c[X])   # PS_inv(parent): parent._Y == FRESH_Y(parent)
                else:
                    actual_child[X] = new_fresh_c[X]
            fresh_child.update(new_fresh_c)
            fresh_parent.update(new_fresh_p)
            # later builders read the child's ACTUAL earlier tables
            for X in writes:
                cached_all.append(X)
            # re-express FRESH of later tables over actual earlier tables is done through val_of(fresh_child):
            # PS_inv(child) for the earlier tables is what the previous iterations prove.
            for X in writes:
                ctx.prove('finalize-guards:%s: derived self.%s equals the freshly computed table' % (name, X),
                          actual_child[X] == fresh_child[X], 'lemma',
                          src='inherit guard: %s; the recompute branch reads %s' % (ast.unparse(guard), E[X][1]))
        ctx.ghost['cached'] = cached_all
    units['finalize-guards'] = LemmaUnit('finalize-guards', lemma_guards,
                                         functions=[PS + '.' + n for n in FINALIZERS + ['finalize_state']])

    # ---- which private tables the rest of the package reads ------------------------------------------------------
    def lemma_readers(it):
        import os
        import re
        cached = set()
        for name in FINALIZERS:
            fn = resolve_function(it, PS + '.' + name).node
            _g, inh, rest = analyse_finalizer(fn)
            cached |= set(reads_writes(rest)[1])
        bad = []
        root = it.program.root
        for dp, dn, fns in os.walk(os.path.join(root, 'pylatexenc')):
            for f in fns:
                if not f.endswith('.py') or f == '_parsingstate.py':
                    continue
                path = os.path.join(dp, f)
                try:
                    tree = ast.parse(open(path, encoding='utf-8').read())
                except SyntaxError:
                    continue
                for n in ast.walk(tree):
                    if isinstance(n, ast.Attribute) and n.attr.startswith('_') and not n.attr.startswith('__'):
                        base = ast.unparse(n.value)
                        if base.endswith('parsing_state') and n.attr not in cached \
                                and n.attr not in ('_parent_parsing_state_info', '_fields'):
                            bad.append('%s:%d %s.%s' % (os.path.relpath(path, root), n.lineno, base, n.attr))
        it.ctx.prove('readers:tokenizer and parsers read only public fields and the tables covered by PS_inv',
                     not bad, 'frame', src='reads outside %r: %r' % (sorted(cached), bad))
    units['table-readers'] = LemmaUnit('table-readers', lemma_readers)


    # ---- (2) sub_context / __init__ / set_fields / get_fields / _safe_eq, executed symbolically --------------------
    TRUTH = z3.Function('py_truth', z3.IntSort(), z3.BoolSort())

    def absfield(it, name):
        t = z3.Int(name)
        return AbsVal(t, 'field', attrs={'truth': lambda it2, sf: TRUTH(sf.term)})

    def cached_tables(it):
        out = set()
        for name in FINALIZERS:
            fn = resolve_function(it, PS + '.' + name).node
            out |= set(reads_writes(analyse_finalizer(fn)[2])[1])
        return sorted(out)

    for fname in FINALIZERS:
        # at call sites the builders only (re)assign their tables; what they put there is part (1)
        def mk(fname=fname):
            def tables(it):
                fn = resolve_function(it, PS + '.' + fname).node
                return reads_writes(analyse_finalizer(fn)[2])[1]
            return tables
        tb = mk()

        class _C(Contract):
            pass
        c = Contract(PS + '.' + fname, modifies=[], note='call-site abstraction: assigns only its own tables (see part 1)')
        c._tables = tb

        def apply_at_call(it, func, bound, node, c=c):
            it.ctx.collector.assumed.add(c.qualname)
            o = bound['self']
            for t in c._tables(it):
                o.fields[t] = absfield(it, 'table!%d' % it.ctx.next_id())
            return None
        c.apply_at_call = apply_at_call
        reg.add(c)

    CONFIGS = [[]] + [[f] for f in FIELDS] + [['in_math_mode', 'math_mode_delimiter'],
                                               ['latex_inline_math_delimiters', 'latex_display_math_delimiters'],
                                               ['enable_groups', 'latex_group_delimiters', 's']]

    def setup_sub(it):
        ctx = it.ctx
        fields = {f: absfield(it, 'self.' + f) for f in FIELDS}
        for t in cached_tables(it):
            fields[t] = absfield(it, 'self.' + t)
        if ctx.choose(2, 'the receiver is itself a derived state') == 0:
            fields['_parent_parsing_state_info'] = (None, PyDict())
        else:
            gp = {f: absfield(it, 'grandparent.' + f) for f in FIELDS}
            gp['_parent_parsing_state_info'] = (None, PyDict())
            fields['_parent_parsing_state_info'] = (new_obj(it, PS, gp, tag='grandparent'), PyDict())
        self = new_obj(it, PS, fields, tag='self')
        keys = CONFIGS[ctx.choose(len(CONFIGS), 'keys given to sub_context')]
        # a requested value may be None (e.g. math_mode_delimiter=None when a math environment is entered; a delimiter list
        # given as None means the default list)
        kw = PyDict({k: (None if ctx.choose(2, 'the value given for %s is None' % k) == 1 else absfield(it, 'new.' + k)) for k in keys})
        return {'self': self, 'kwargs': kw}

    LIST_DEFAULTS = {'latex_group_delimiters': "[('{', '}')]",
                     'latex_inline_math_delimiters': "[('$', '$'), ('\\\\(', '\\\\)')]",
                     'latex_display_math_delimiters': "[('$$', '$$'), ('\\\\[', '\\\\]')]"}
    NORMAL = "(self.in_math_mode or not self.math_mode_delimiter)"
    ens = [('records-its-parent', 'result._parent_parsing_state_info[0] is self'),
           ('a-new-object', 'result is not self')]
    for f in FIELDS:
        if f == 'math_mode_delimiter':
            REQ = "(kwargs['%s'] if '%s' in kwargs else self.%s)" % (f, f, f)
            ens.append(('field-%s-requested-or-inherited-then-normalised' % f,
                        "implies(not result.in_math_mode and %s, result.%s is None) and "
                        "implies(not (not result.in_math_mode and %s), result.%s is %s)" % (REQ, f, REQ, f, REQ)))
        elif f in LIST_DEFAULTS:
            ens.append(('field-%s-is-the-requested-value-the-default-list-for-None-or-the-inherited-value' % f,
                        "(result.%s == %s) if ('%s' in kwargs and kwargs['%s'] is None) else "
                        "(result.%s is (kwargs['%s'] if '%s' in kwargs else self.%s))" % (f, LIST_DEFAULTS[f], f, f, f, f, f, f)))
        else:
            ens.append(('field-%s-is-the-requested-or-the-inherited-value' % f,
                        "result.%s is (kwargs['%s'] if '%s' in kwargs else self.%s)" % (f, f, f, f)))
        extra = "'in_math_mode' in result._parent_parsing_state_info[1] or " if f == 'math_mode_delimiter' else ''
        ens.append(('field-%s-unchanged-unless-recorded-as-changed' % f,
                    "%s'%s' in result._parent_parsing_state_info[1] or result.%s is self.%s" % (extra, f, f, f)))
    def make_sub_result(it, env):
        """sub_context as seen from a caller: a new state object built from the requested / inherited fields (what the
        unit below proves), with the expected-closing-delimiter table re-derived exactly when one of the four keys it
        depends on is given (the guard proved in part 1)"""
        me, kw = env.vars['self'], env.vars['kwargs']
        for name_, v_ in list(me.fields.items()):
            if isinstance(v_, V.LazyField):
                it.getattr(me, name_)         # decide lazily-chosen inputs once, so that the copy inherits the same value
        f = dict(me.fields)
        given = dict(kw.items)
        for k in given:
            if k not in FIELDS:
                it.raise_builtin('TypeError', 'wd:bind[sub_context(%s=)]' % k)
            f[k] = given[k]
        if not it.truthy(f['in_math_mode']) and f.get('math_mode_delimiter') is not None:
            f['math_mode_delimiter'] = None
        f['_parent_parsing_state_info'] = (me, PyDict(dict(given)))
        if set(given) & {'in_math_mode', 'math_mode_delimiter', 'latex_inline_math_delimiters', 'latex_display_math_delimiters'}:
            table = f.get('_math_delims_info_by_open')
            d = f.get('math_mode_delimiter')
            if not it.truthy(f['in_math_mode']) or d is None:
                f['_math_expecting_close_delim_info'] = None
            elif table is None:
                raise EngineError('sub_context at a call site: the state has no math delimiter table')
            elif it.truthy(it.contains_term(d, table)):
                f['_math_expecting_close_delim_info'] = it.index_value(table, d, None)
            else:
                f['_math_expecting_close_delim_info'] = None
        o = Obj(me.cls, f, tag='sub_context(%s)' % ','.join(sorted(given)), is_input=False)
        o.open = me.open
        return o
    c_sub = reg.add(Contract(
        PS + '.sub_context', setup=setup_sub,
        requires=[('receiver-is-normalised', NORMAL)],
        result_make=make_sub_result,
        ensures=ens, modifies=[]))
    units['sub_context'] = FunctionUnit(c_sub)

    for k in units:
        contracts.REPLAYERS[k] = replay
    return {'C17': units}


NATIVE = PRELUDE + r'''
from pylatexenc.latexnodes import ParsingState, LatexTokenReader, LatexWalkerEndOfStream, LatexWalkerError

TABLES = ["_latex_group_delimchars_by_open", "_latex_group_delimchars_close", "_math_delims_info_startchars",
          "_math_all_delims_by_len", "_math_delims_info_by_open", "_math_delims_close", "_math_expecting_close_delim_info"]

def toks(ps, s):
    tr = LatexTokenReader(s); out = []
    try:
        for _ in range(len(s) + 2):
            t = tr.next_token(ps); out.append((t.tok, t.arg if isinstance(t.arg, str) else repr(t.arg), t.pos, t.pos_end))
    except LatexWalkerEndOfStream:
        pass
    except LatexWalkerError as e:
        out.append(("error", str(type(e).__name__)))
    return out

def norm(v):
    if isinstance(v, list): return sorted(map(repr, v), key=lambda x: (-len(eval(x)[0]) if x.startswith("(") else 0, x))
    return v

CHANGES = [dict(in_math_mode=True, math_mode_delimiter="$"), dict(in_math_mode=True), dict(in_math_mode=False),
           dict(latex_inline_math_delimiters=[("$", "$"), ("!", "!")]), dict(latex_inline_math_delimiters=[("$", "!!")]), dict(latex_display_math_delimiters=[("[[", "]]"), ("$$", "$$")]),
           dict(latex_group_delimiters=[("{", "}"), ("[", "]")]), dict(latex_group_delimiters=[("<", ">")]),
           dict(enable_groups=False), dict(enable_groups=True), dict(enable_comments=False), dict(math_mode_delimiter="!"),
           dict(in_math_mode=True, math_mode_delimiter="[["), dict(math_mode_delimiter=None), dict(in_math_mode=True, math_mode_delimiter=None),
           dict(latex_inline_math_delimiters=None), dict(latex_group_delimiters=None)]
DEFAULT_LISTS = {"latex_group_delimiters": [("{", "}")], "latex_inline_math_delimiters": [("$", "$"), ("\\(", "\\)")],
                 "latex_display_math_delimiters": [("$$", "$$"), ("\\[", "\\]")]}

ALL_FIELDS = ['s', 'latex_context', 'in_math_mode', 'math_mode_delimiter', 'latex_group_delimiters', 'latex_inline_math_delimiters', 'latex_display_math_delimiters', 'enable_double_newline_paragraphs', 'enable_macros', 'enable_environments', 'enable_comments', 'enable_groups', 'enable_specials', 'enable_math', 'macro_alpha_chars', 'macro_escape_char', 'comment_start', 'forbidden_characters']

def apply_model(model, step):
    """the documented effect of sub_context(**step) on the public fields"""
    m = dict(model); m.update(step)
    for k, d in DEFAULT_LISTS.items():
        if m[k] is None: m[k] = list(d)
    if not m["in_math_mode"]: m["math_mode_delimiter"] = None
    return m
INPUTS = ["a $$ b $ c", "[[x]] {y} <z> [w]", "a ! b % c\n", "\\(x\\) $y$ $$z$$"]

def check_chain(chain):
    st = ParsingState(s="")
    model = {k: getattr(st, k) for k in ALL_FIELDS}
    for step in chain:
        parent_fields = st.get_fields(); parent_tables = {t: getattr(st, t) for t in TABLES}
        child = st.sub_context(**step)
        if st.get_fields() != parent_fields or any(getattr(st, t) is not parent_tables[t] for t in TABLES):
            return "sub_context(%r) altered the state it was called on" % (step,)
        model = apply_model(model, step)
        if set(child.get_fields()) != set(ALL_FIELDS):
            return "get_fields() of a derived state has the keys %r, the public fields are %r" % (sorted(child.get_fields()), sorted(ALL_FIELDS))
        got = {k: getattr(child, k) for k in ALL_FIELDS}
        if any(got[k] != model[k] for k in model):
            bad = [k for k in model if got.get(k) != model[k]]
            return "after %r the field(s) %r of the derived state are %r, requested / inherited: %r" % (
                chain, bad, [got.get(k) for k in bad], [model[k] for k in bad])
        st = child
    # the same chain written as one chained delta
    from pylatexenc.latexnodes import ParsingStateDelta, ParsingStateDeltaChained
    ch = ParsingStateDeltaChained([ParsingStateDelta(set_attributes=dict(step)) for step in chain]).get_updated_parsing_state(ParsingState(s=""), None)
    if ch.get_fields() != st.get_fields():
        return "ParsingStateDeltaChained over %r gives fields %r, the sub_context chain gives %r" % (chain, ch.get_fields(), st.get_fields())
    fresh = ParsingState(**st.get_fields())
    for t in TABLES:
        if norm(getattr(st, t)) != norm(getattr(fresh, t)):
            return "after %r the derived state has %s = %r but a fresh state with the same fields has %r" % (
                chain, t, getattr(st, t), getattr(fresh, t))
    for s in INPUTS:
        if toks(st, s) != toks(fresh, s):
            return "after %r, %r tokenizes as %r with the derived state but %r with a fresh one" % (chain, s, toks(st, s), toks(fresh, s))

def search():
    import itertools
    for n in (1, 2, 3):
        for chain in itertools.product(CHANGES, repeat=n):
            m = check_chain(chain)
            if m: return m
'''


def replay(o, model):
    return NATIVE + '''
m = search()
if m: reproduced(m)
not_reproduced()
'''
