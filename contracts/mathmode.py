"""C10 -- each node's math / text mode is the one implied by the enclosing structure: the hand-over contracts.

The mode travels through parsing-state deltas, child-state factories and the tokenizer's delimiter tables.  Each
hand-over point is put under contract on the real code:

  event handler      enter_math_mode(d) / leave_math_mode() return a delta that sets exactly in_math_mode and
                     math_mode_delimiter (True, d) / (False, None)
  deltas             ParsingStateDelta / ...WalkerEvent / EnterMathMode / LeaveMathMode .get_updated_parsing_state and
                     get_updated_parsing_state_from_delta: the state handed on is parsing_state.sub_context(**those attributes)
                     (sub_context's own contract is C17: every other field is inherited), None -> the same state
  math parser        initialize: contents state is in math mode with the opening delimiter recorded, the expected closing
                     delimiter is the table's partner of the opening one; the math NODE keeps the outer state, its
                     displaytype follows the token kind, its delimiters are (open, partner); the contents stop exactly
                     at a token of the same kind whose text is the partner
  arguments / bodies LatexArgumentsParser.parse gives argument j the state updated by ITS delta (so \\text-like arguments
                     leave, \\ensuremath enters math mode), environment bodies get the spec's body delta
  tokenizer          (C11 unit, shared) in math mode the expected closing delimiter is tried before any opening one,
                     otherwise the longest delimiter wins: '$a$$b$' is two inline formulas, '$$a$$' one display formula
  tables             the default walker database: \\text-like macros carry LeaveMathMode, \\ensuremath EnterMathMode,
                     math environments EnterMathMode as body delta
That every node of every document carries the implied mode is the induction over parser invocations on top of these
contracts (nodes are created with the collector's current state: C01 units), stated, not mechanised.
"""
import z3

from pyvc import values as V
from pyvc.values import Obj, PyList, PyDict, AbsVal, Builtin, zint, simp, z_and, z_or, z_not
from pyvc.contracts import (Contract, FunctionUnit, LemmaUnit, LoopContract, sym_int, sym_str, sym_bool, new_obj,
                            resolve_class)
from pyvc.smt import EngineError
from pyvc.interp import PyExc
from pyvc.replay import PRELUDE
from contracts.parsingstate import FIELDS

PS = 'pylatexenc.latexnodes._parsingstate.ParsingState'
DELTA = 'pylatexenc.latexnodes._parsingstatedelta.'
HANDLER = 'pylatexenc.latexnodes._walkerbase.LatexWalkerParsingStateEventHandler'
MATHINFO = 'pylatexenc.latexnodes.parsers._math.LatexMathParserInfo'
W = 'pylatexenc.latexwalker._walker.LatexWalker'
NODES = 'pylatexenc.latexnodes.nodes.'
TOKEN = 'pylatexenc.latexnodes._token.LatexToken'

TRUTH = z3.Function('c10_truth', z3.IntSort(), z3.BoolSort())


class MathDelimTable(object):
    """parsing_state._math_delims_info_by_open: opening delimiter -> {'close_delim': partner, 'tok': kind}; which strings
    are opening delimiters, their partners and kinds are arbitrary (one unknown per syntactically distinct string)"""
    def __init__(self, name):
        self.name = name

    def _memo(self, it, item):
        memo = it.ctx.ghost.setdefault('mathtable:' + self.name, {})
        k = V.str_key(item)
        if k not in memo:
            close = sym_str(it, '%s.close_of[%d]' % (self.name, len(memo)), register=False)
            it.ctx.assume(V.slen(close) >= 1)
            memo[k] = {'has': it.ctx.fresh_bool(self.name + '.has'), 'close': close, 'kind': None}
        return memo[k]

    def pyvc_contains(self, it, item):
        return self._memo(it, item)['has']

    def pyvc_index(self, it, item, node=None):
        m = self._memo(it, item)
        if m['kind'] is None:
            m['kind'] = 'mathmode_inline' if it.ctx.choose(2, 'kind of the delimiter pair') == 0 else 'mathmode_display'
        return PyDict({'close_delim': m['close'], 'tok': m['kind']})


def absfield(it, name):
    t = z3.Int(name)
    return AbsVal(t, 'field', attrs={'truth': lambda it2, sf: TRUTH(sf.term)})


def mk_state(it, name='parsing_state', math=None):
    """a ParsingState satisfying its invariant: in_math_mode arbitrary; the recorded delimiter is None outside math mode"""
    ctx = it.ctx
    f = {k: absfield(it, '%s.%s' % (name, k)) for k in FIELDS}
    inm = (ctx.choose(2, name + ' in math mode') == 1) if math is None else math
    f['in_math_mode'] = inm
    f['math_mode_delimiter'] = None
    table = MathDelimTable(name + '._math_delims_info_by_open')
    f['_math_delims_info_by_open'] = table
    f['_math_expecting_close_delim_info'] = None
    if inm and ctx.choose(2, name + ' opened by a delimiter') == 1:
        d = sym_str(it, name + '.math_mode_delimiter')
        ctx.assume(V.slen(d) >= 1)
        f['math_mode_delimiter'] = d
        if it.truthy(table.pyvc_contains(it, d)):
            f['_math_expecting_close_delim_info'] = table.pyvc_index(it, d)
    f['_parent_parsing_state_info'] = (None, PyDict())
    for t in ('_latex_group_delimchars_by_open', '_latex_group_delimchars_close', '_math_all_delims_by_len',
              '_math_delims_info_startchars', '_math_delims_close'):
        f[t] = absfield(it, '%s.%s' % (name, t))
    o = new_obj(it, PS, f, tag=name)
    return o


def mk_walker(it):
    w = new_obj(it, W, {'s': sym_str(it, 's'), 'tolerant_parsing': sym_bool(it, 'tolerant_parsing'), 'debug_nodes': False},
                tag='latex_walker')
    w.open = True
    return w


def mk_tok(it, kind=None, name='first_token'):
    arg = sym_str(it, name + '.arg')
    it.ctx.assume(V.slen(arg) >= 1)
    pos = sym_int(it, name + '.pos', lo=0)
    k = kind if kind is not None else ['mathmode_inline', 'mathmode_display'][it.ctx.choose(2, name + ' kind')]
    return new_obj(it, TOKEN, {'tok': k, 'arg': arg, 'pos': pos, 'pos_end': simp(pos + zint(V.slen(arg))),
                               'pre_space': sym_str(it, name + '.pre_space'), 'post_space': ''}, tag=name)


TEXTLIKE = ['text', 'textrm', 'textit', 'textbf', 'textmd', 'textsc', 'textsf', 'textsl', 'texttt', 'textup', 'mbox']
MATHENVS = ['equation', 'equation*', 'eqnarray', 'eqnarray*', 'align', 'align*', 'gather', 'gather*', 'flalign', 'flalign*',
            'multline', 'multline*', 'alignat', 'alignat*', 'split']
_ROWS = {}
DUMP = r"""
import json, sys, logging
logging.disable(logging.CRITICAL)
from pylatexenc.latexwalker import get_default_latex_context_db
w = get_default_latex_context_db()
def cn(x): return None if x is None else type(x).__name__
rows = []
for cat in w.categories():
    for kind, specs in (('macro', w.iter_macro_specs([cat])), ('env', w.iter_environment_specs([cat])), ('specials', w.iter_specials_specs([cat]))):
        for sp in specs:
            name = getattr(sp, 'macroname', None) or getattr(sp, 'environmentname', None) or getattr(sp, 'specials_chars', None)
            args = [cn(getattr(a, 'parsing_state_delta', None)) for a in (sp.arguments_spec_list or [])]
            rows.append(dict(kind=kind, name=name, args=args, body=cn(getattr(sp, 'body_parsing_state_delta', None))))
json.dump(rows, sys.stdout)
"""


def walker_rows(root):
    """mode-related declarations of the default walker database, read by importing the tree under check (A-TABLE)"""
    import json, os, subprocess, sys
    if root not in _ROWS:
        r = subprocess.run([sys.executable, '-c', DUMP], capture_output=True, text=True, env=dict(os.environ, PYTHONPATH=root), cwd='/')
        if r.returncode != 0:
            raise EngineError('cannot import the default walker database of the tree under check: ' + r.stderr[-400:])
        _ROWS[root] = json.loads(r.stdout)
    return _ROWS[root]


def register(reg):
    import contracts
    units = {}

    @reg.spec('same_but_mode')
    def same_but_mode(it, new, old):
        """every field except in_math_mode / math_mode_delimiter is the old state's (object identity)"""
        return all(new.fields[k] is old.fields[k] for k in FIELDS if k not in ('in_math_mode', 'math_mode_delimiter'))

    # ---- the event handler ----------------------------------------------------------------------------------------------------------
    def setup_enter(it):
        h = new_obj(it, HANDLER, {}, tag='self')
        d = None if it.ctx.choose(2, 'delimiter given') == 0 else sym_str(it, 'math_mode_delimiter')
        return {'self': h, 'math_mode_delimiter': d, 'trigger_token': None}
    c = Contract(HANDLER + '.enter_math_mode', setup=setup_enter,
                 ensures=[('sets-exactly-the-two-mode-attributes',
                           "len(result.set_attributes) == 2 and 'in_math_mode' in result.set_attributes and 'math_mode_delimiter' in result.set_attributes"),
                          ('enters-math-mode-and-records-the-delimiter',
                           "result.set_attributes['in_math_mode'] is True and "
                           "result.set_attributes['math_mode_delimiter'] is math_mode_delimiter")],
                 modifies=[])
    units['enter_math_mode'] = FunctionUnit(c, inline={DELTA + 'ParsingStateDelta.__init__'})
    c = Contract(HANDLER + '.leave_math_mode', setup=lambda it: {'self': new_obj(it, HANDLER, {}, tag='self'), 'trigger_token': None},
                 ensures=[('sets-exactly-the-two-mode-attributes',
                           "len(result.set_attributes) == 2 and 'in_math_mode' in result.set_attributes and 'math_mode_delimiter' in result.set_attributes"),
                          ('leaves-math-mode-and-clears-the-delimiter',
                           "result.set_attributes['in_math_mode'] is False and result.set_attributes['math_mode_delimiter'] is None")],
                 modifies=[])
    units['leave_math_mode'] = FunctionUnit(c, inline={DELTA + 'ParsingStateDelta.__init__'})

    # ---- deltas -----------------------------------------------------------------------------------------------------------------------
    INL_DELTA = {DELTA + 'ParsingStateDelta.__init__', DELTA + 'ParsingStateDeltaWalkerEvent.__init__',
                 DELTA + 'ParsingStateDeltaEnterMathMode.__init__', DELTA + 'ParsingStateDeltaLeaveMathMode.__init__',
                 DELTA + 'ParsingStateDelta.get_updated_parsing_state', DELTA + 'ParsingStateDeltaWalkerEvent.get_updated_parsing_state',
                 DELTA + 'get_updated_parsing_state_from_delta', HANDLER + '.enter_math_mode', HANDLER + '.leave_math_mode',
                 'pylatexenc.latexnodes._walkerbase.LatexWalkerBase.parsing_state_event_handler',
                 W + '.parsing_state_event_handler'}

    def setup_from_delta(it):
        ctx = it.ctx
        ps = mk_state(it)
        w = mk_walker(it)
        k = ctx.choose(4, 'delta')
        ctx.ghost['delta_kind'] = k
        if k == 0:
            delta = None
        elif k == 1:
            d = sym_str(it, 'delimiter')
            ctx.assume(V.slen(d) >= 1)
            ctx.ghost['delta_delim'] = d
            delta = it.call(resolve_class(it, DELTA + 'ParsingStateDeltaEnterMathMode'), [], {'math_mode_delimiter': d})
        elif k == 2:
            ctx.ghost['delta_delim'] = None
            delta = it.call(resolve_class(it, DELTA + 'ParsingStateDeltaEnterMathMode'), [], {})
        else:
            delta = it.call(resolve_class(it, DELTA + 'ParsingStateDeltaLeaveMathMode'), [], {})
        return {'parsing_state': ps, 'parsing_state_delta': delta, 'latex_walker': w}
    reg.spec('delta_kind')(lambda it: it.ctx.ghost['delta_kind'])
    reg.spec('delta_delim')(lambda it: it.ctx.ghost.get('delta_delim'))
    c = Contract(DELTA + 'get_updated_parsing_state_from_delta', setup=setup_from_delta,
                 ensures=[('internal:no-delta-keeps-the-state', 'implies(delta_kind() == 0, result is parsing_state)'),
                          ('internal:enter-math-mode-hands-on-a-math-state-with-the-delimiter-recorded',
                           'implies(delta_kind() == 1 or delta_kind() == 2, result.in_math_mode is True and '
                           'result.math_mode_delimiter is delta_delim())'),
                          ('internal:leave-math-mode-hands-on-a-text-state',
                           'implies(delta_kind() == 3, result.in_math_mode is False and result.math_mode_delimiter is None)'),
                          ('internal:everything-else-is-inherited', 'same_but_mode(result, parsing_state)'),
                          ('internal:the-given-state-is-not-altered',
                           'parsing_state.in_math_mode is old(parsing_state.in_math_mode) and '
                           'parsing_state.math_mode_delimiter is old(parsing_state.math_mode_delimiter)')],
                 modifies=[])
    units['get_updated_parsing_state_from_delta'] = FunctionUnit(c, inline=INL_DELTA - {DELTA + 'get_updated_parsing_state_from_delta'})

    # ---- ParsingStateDeltaChained: the deltas are applied one after the other, each to the state its predecessor produced ---------
    def setup_chained(it):
        ctx = it.ctx
        ps = mk_state(it)
        n = ctx.choose(4, 'number of chained deltas')         # bounded: chains of at most three entries (stated)
        log = ctx.ghost.setdefault('chain_applications', [])
        deltas = []
        for j in range(n):
            if ctx.choose(2, 'delta %d is None' % j) == 1:
                deltas.append(None)
                continue

            def upd(it2, sf, a, kw, j=j):
                out = mk_state(it2, 'state_after_delta_%d' % j)
                log.append((j, a[0], out))
                return out
            deltas.append(AbsVal(z3.Int('delta%d' % j), 'parsing_state_delta', methods={'get_updated_parsing_state': upd},
                                 attrs={'truth': lambda it3, sf: True}))
        ctx.ghost['chain'] = deltas
        me = new_obj(it, DELTA + 'ParsingStateDeltaChained', {'parsing_state_deltas': PyList(deltas)}, tag='self')
        return {'self': me, 'parsing_state': ps, 'latex_walker': mk_walker(it)}

    @reg.spec('applied_one_after_the_other')
    def applied_one_after_the_other(it, ps, result):
        deltas = it.ctx.ghost['chain']
        log = it.ctx.ghost.get('chain_applications', [])
        want = [j for j, d in enumerate(deltas) if d is not None]
        if [j for j, _i, _o in log] != want:
            return False
        cur = ps
        for (_j, given, out) in log:
            if given is not cur:
                return False
            cur = out
        return result is cur
    c = Contract(DELTA + 'ParsingStateDeltaChained.get_updated_parsing_state', setup=setup_chained,
                 ensures=[('internal:each-delta-is-applied-once-in-order-to-the-state-its-predecessor-produced',
                           'applied_one_after_the_other(parsing_state, result)')], modifies=[])
    units['ParsingStateDeltaChained.get_updated_parsing_state'] = FunctionUnit(c)

    # ---- LatexMathParserInfo ----------------------------------------------------------------------------------------------------------
    def mk_info(it, initialized):
        ctx = it.ctx
        ps = mk_state(it)
        w = mk_walker(it)
        tok = mk_tok(it)
        info = new_obj(it, MATHINFO, {
            'delimited_expression_parser': absfield(it, 'parser'), 'opening_delimiter_tokens': PyList([tok]), 'first_token': tok,
            'group_parsing_state': ps, 'parsing_state': ps, 'delimiters': None, 'latex_walker': w,
            'contents_parsing_state': ps, 'child_parsing_state_delta': None, 'parsed_delimiters': (None, None)}, tag='self')
        return info, ps, w, tok

    def setup_init(it):
        info, ps, w, tok = mk_info(it, False)
        dl = it.ctx.choose(3, 'delimiters constraint')
        if dl == 1:
            info.fields['delimiters'] = tok.fields['arg']
        elif dl == 2:
            cd = sym_str(it, 'given_close')
            info.fields['delimiters'] = (tok.fields['arg'], cd)
        it.ctx.ghost['delims_given'] = dl
        return {'self': info}
    reg.spec('delims_given')(lambda it: it.ctx.ghost['delims_given'])
    c_init = reg.add(Contract(
        MATHINFO + '.initialize', setup=setup_init,
        requires=[('the-first-token-opens-math-mode',
                   "self.first_token.tok in ('mathmode_inline', 'mathmode_display') and "
                   "self.first_token.arg in self.parsing_state._math_delims_info_by_open")],
        ensures=[('contents-are-in-math-mode-opened-by-this-delimiter',
                  'self.contents_parsing_state.in_math_mode is True and '
                  'self.contents_parsing_state.math_mode_delimiter is self.first_token.arg'),
                 ('contents-inherit-everything-else', 'same_but_mode(self.contents_parsing_state, self.parsing_state)'),
                 ('the-math-node-keeps-the-outer-state', 'self.parsing_state is old(self.parsing_state)'),
                 ('kind-and-delimiter-are-the-opening-tokens',
                  'self.math_mode_type == self.first_token.tok and self.math_mode_delimiter is self.first_token.arg'),
                 ('internal:closing-delimiter-is-the-tables-partner-of-the-opening-one',
                  "implies(delims_given() != 2, self.parsed_delimiters[0] == self.first_token.arg and self.parsed_delimiters[1] == "
                  "self.parsing_state._math_delims_info_by_open[self.first_token.arg]['close_delim'])"),
                 ('internal:an-explicit-delimiter-pair-is-kept', 'implies(delims_given() == 2, self.parsed_delimiters is self.delimiters)')],
        modifies=[('self.math_mode_type', 'str'), ('self.math_mode_delimiter', 'str'), ('self.math_parsing_state', None),
                  ('self.contents_parsing_state', None), ('self.parsed_delimiters', None)]))
    units['LatexMathParserInfo.initialize'] = FunctionUnit(
        c_init, inline=INL_DELTA | {MATHINFO + '.get_parsed_delimiters', MATHINFO + '.get_matching_delimiter',
                                    'pylatexenc.latexnodes.parsers._delimited.LatexDelimitedExpressionParserInfo.get_parsed_delimiters'})

    def setup_stop(it):
        info, ps, w, tok = mk_info(it, True)
        info.fields['math_mode_type'] = tok.fields['tok']
        od, cd = sym_str(it, 'open_delim'), sym_str(it, 'close_delim')
        info.fields['parsed_delimiters'] = (od, cd)
        t = new_obj(it, TOKEN, {'tok': ['mathmode_inline', 'mathmode_display', 'char', 'brace_close'][it.ctx.choose(4, 'token kind')],
                                'arg': sym_str(it, 'token.arg'), 'pos': 0, 'pos_end': 1, 'pre_space': '', 'post_space': ''}, tag='token')
        return {'self': info, 'token': t}
    c = Contract(MATHINFO + '.stop_token_condition', setup=setup_stop, result_type='bool',
                 ensures=[('stops-exactly-at-the-partner-delimiter-of-the-same-kind',
                           'result == (token.tok == self.math_mode_type and token.arg == self.parsed_delimiters[1])')],
                 modifies=[])
    units['LatexMathParserInfo.stop_token_condition'] = FunctionUnit(c)

    def setup_mknode(it):
        info, ps, w, tok = mk_info(it, True)
        k = it.ctx.choose(2, 'math mode type')
        info.fields['math_mode_type'] = ['mathmode_inline', 'mathmode_display'][k]
        info.fields['parsed_delimiters'] = (sym_str(it, 'open_delim'), sym_str(it, 'close_delim'))
        inner = mk_state(it, 'contents_state', math=True)
        info.fields['contents_parsing_state'] = inner
        tr = AbsVal(z3.Int('token_reader'), 'reader', methods={'cur_pos': lambda it2, sf, a, kw: z3.Int('reader_pos')})
        it.ctx.assume(z3.Int('reader_pos') >= tok.fields['pos'])
        return {'self': info, 'latex_walker': w, 'token_reader': tr, 'nodelist': absfield(it, 'nodelist'),
                'parsing_state_delta': None}
    c = Contract(MATHINFO + '.make_group_node_and_parsing_state_delta', setup=setup_mknode,
                 ensures=[('a-math-node', 'is_math_node(result[0])'),
                          ('the-node-records-the-outer-state-not-the-contents-state', 'result[0].parsing_state is self.parsing_state'),
                          ('displaytype-follows-the-delimiter-kind',
                           "result[0].displaytype == ('inline' if self.math_mode_type == 'mathmode_inline' else 'display')"),
                          ('delimiters-are-the-parsed-pair', 'result[0].delimiters is self.parsed_delimiters'),
                          ('spans-from-the-opening-delimiter-to-the-reader',
                           'result[0].pos == self.first_token.pos and result[0].pos_end == token_reader.cur_pos()'),
                          ('contents-are-the-given-list', 'result[0].nodelist is nodelist')],
                 modifies=[])
    units['LatexMathParserInfo.make_group_node_and_parsing_state_delta'] = FunctionUnit(c, inline={W + '.make_node'})

    def setup_isopen(it):
        ps = mk_state(it, 'group_parsing_state')
        tok = mk_tok(it, kind=['mathmode_inline', 'mathmode_display', 'char', 'brace_open'][it.ctx.choose(4, 'token kind')])
        dl = it.ctx.choose(3, 'delimiters constraint')
        d = None if dl == 0 else (sym_str(it, 'wanted_open') if dl == 1 else (sym_str(it, 'wanted_open'), sym_str(it, 'wanted_close')))
        return {'cls': resolve_class(it, MATHINFO), 'delimiters': d, 'first_token': tok, 'group_parsing_state': ps,
                'delimited_expression_parser': None, 'latex_walker': None, 'kwargs': PyDict()}
    reg.spec('is_math_node')(lambda it, x: isinstance(x, Obj) and x.cls.name == 'LatexMathNode')
    reg.spec('wanted_open')(lambda it, d: None if d is None else (d if V.is_str(d) else d[0]))
    c = Contract(MATHINFO + '.is_opening_delimiter', setup=setup_isopen, result_type='bool',
                 ensures=[('only-a-math-token-that-opens-a-pair-and-meets-the-constraint',
                           "result == (first_token.tok in ('mathmode_inline', 'mathmode_display') and "
                           "first_token.arg in group_parsing_state._math_delims_info_by_open and "
                           "(delimiters is None or first_token.arg == wanted_open(delimiters)))")],
                 modifies=[])
    units['LatexMathParserInfo.is_opening_delimiter'] = FunctionUnit(c, inline={
        'pylatexenc.latexnodes.parsers._delimited.LatexDelimitedExpressionParserInfo.check_opening_delimiter'})


    # ---- LatexArgumentsParser.parse: argument j is parsed in the state updated by ITS delta ---------------------------------------------
    ARGP = 'pylatexenc.macrospec._argumentsparser.LatexArgumentsParser'
    ARGSPEC = 'pylatexenc.latexnodes._parsedargs.LatexArgumentSpec'
    PARGS = 'pylatexenc.latexnodes._parsedargs.ParsedArguments'

    def mk_delta(it, k):
        if k == 0:
            return None
        cls = 'ParsingStateDeltaEnterMathMode' if k == 1 else 'ParsingStateDeltaLeaveMathMode'
        return it.call(resolve_class(it, DELTA + cls), [], {})

    def setup_args(it):
        ctx = it.ctx
        ps = mk_state(it)
        w = mk_walker(it)
        n = ctx.choose(3, 'number of declared arguments')
        kinds = [ctx.choose(3, 'delta of argument %d' % j) for j in range(n)]
        ctx.ghost['arg_delta_kinds'] = kinds
        specs = [new_obj(it, ARGSPEC, {'parser': absfield(it, 'argparser%d' % j), 'argname': None,
                                       'parsing_state_delta': mk_delta(it, kinds[j])}, tag='arg%d' % j) for j in range(n)]
        calls = ctx.ghost.setdefault('arg_parse_calls', [])

        def parse_content(it2, a, kw):
            node = absfield(it2, 'argnode%d' % len(calls))
            calls.append((a[0], a[1], a[2], node))
            return (node, None)
        w.fields['parse_content'] = Builtin('parse_content', parse_content)
        # the reader as the arguments parser may use it: looking ahead is free (and may see any kind of token, or the end of
        # the input); every call that MOVES it is logged -- only the argument parsers, called through parse_content, read input
        moves = ctx.ghost.setdefault('reader_moves', [])

        def peek(it2, sf, a, kw):
            seen = it2.ctx.ghost.setdefault('peeks', [])
            if len(seen) >= 3:
                return None           # (bounds the look-ahead model: at most three tokens are ever shown)
            k = it2.ctx.choose(4, 'what stands before the argument')
            if k == 0:
                return None
            seen.append(k)
            return mk_tok(it2, kind=['comment', 'char', 'brace_open'][k - 1], name='peeked%d' % it2.ctx.next_id())

        def mover(name):
            def f(it2, sf, a, kw):
                moves.append(name)
                return None
            return f
        tr = AbsVal(z3.Int('token_reader'), 'reader',
                    methods=dict({'peek_token_or_none': peek, 'peek_token': peek, 'cur_pos': lambda it2, sf, a, kw: it2.ctx.fresh_int('cur_pos')},
                                 **{m: mover(m) for m in ('move_past_token', 'move_to_token', 'move_to_pos_chars', 'next_token',
                                                          'skip_space_chars', 'peek_space_chars')}))
        parser = new_obj(it, ARGP, {'arguments_spec_list': PyList(specs)}, tag='self')
        return {'self': parser, 'latex_walker': w, 'token_reader': tr, 'parsing_state': ps, 'kwargs': PyDict()}

    reg.spec('reader_moves')(lambda it: len(it.ctx.ghost.get('reader_moves', [])))

    @reg.spec('arguments_parsed_in_their_states')
    def arguments_parsed_in_their_states(it, parser, ps, tr, result):
        calls = it.ctx.ghost.get('arg_parse_calls', [])
        kinds = it.ctx.ghost['arg_delta_kinds']
        specs = parser.fields['arguments_spec_list'].items
        if len(calls) != len(specs):
            return False
        nodes = result.fields['argnlist'].items
        if len(nodes) != len(specs):
            return False
        for j, (p, r, st, node) in enumerate(calls):
            if p is not specs[j].fields['parser'] or r is not tr or nodes[j] is not node:
                return False
            if kinds[j] == 0:
                if st is not ps:
                    return False
            else:
                if st is ps or not isinstance(st, Obj):
                    return False
                if st.fields['in_math_mode'] is not (kinds[j] == 1) or st.fields['math_mode_delimiter'] is not None:
                    return False
                if not all(st.fields[k] is ps.fields[k] for k in FIELDS if k not in ('in_math_mode', 'math_mode_delimiter')):
                    return False
        return True
    c = Contract(ARGP + '.parse', setup=setup_args,
                 ensures=[('internal:each-argument-is-parsed-by-its-parser-in-the-state-its-delta-yields-in-order',
                           'arguments_parsed_in_their_states(self, parsing_state, token_reader, result[0])'),
                          ('internal:input-is-read-by-the-argument-parsers-only-the-arguments-parser-itself-never-moves-the-reader',
                           'reader_moves() == 0'),
                          ('no-state-change-leaks-out-of-the-arguments', 'result[1] is None')],
                 modifies=[])
    units['LatexArgumentsParser.parse'] = FunctionUnit(c, inline=INL_DELTA | {PARGS + '.__init__'})

    # ---- environment bodies --------------------------------------------------------------------------------------------------------------
    SPECCLS = 'pylatexenc.macrospec._specclasses.'
    ENVCALL = 'pylatexenc.macrospec._macrocallparser.LatexEnvironmentCallParser'

    def setup_body_delta(it):
        ctx = it.ctx
        k = ctx.choose(3, 'body delta of the specification')
        ctx.ghost['body_delta_kind'] = k
        spec = new_obj(it, SPECCLS + 'EnvironmentSpec', {'environmentname': sym_str(it, 'environmentname'),
                                                         'body_parsing_state_delta': mk_delta(it, k)}, tag='self')
        return {'self': spec, 'token': None, 'nodeargd': None, 'arg_parsing_state_delta': None, 'latex_walker': mk_walker(it)}
    c = reg.add(Contract(SPECCLS + 'CallableSpec.make_body_parsing_state_delta', setup=setup_body_delta,
                         ensures=[('the-declared-body-delta-is-handed-on', 'result is self.body_parsing_state_delta')], modifies=[]))
    units['CallableSpec.make_body_parsing_state_delta'] = FunctionUnit(c)

    def setup_mbp(it):
        ctx = it.ctx
        ps = mk_state(it)
        w = mk_walker(it)
        k = ctx.choose(3, 'body delta of the specification')
        ctx.ghost['body_delta_kind'] = k
        delta = mk_delta(it, k)
        body_parser = absfield(it, 'body_parser')
        spec = AbsVal(z3.Int('spec_object'), 'spec', methods={'make_body_parser': lambda it2, sf, a, kw: body_parser})
        cp = new_obj(it, ENVCALL, {'spec_object': spec, 'token_call': None, 'what': 'environment',
                                   'make_body_parsing_state_delta': Builtin('make_body_parsing_state_delta', lambda it2, a, kw: delta)},
                     tag='self')
        ctx.ghost['body_parser'] = body_parser
        return {'self': cp, 'nodeargd': None, 'arg_parsing_state_delta': None, 'parsing_state': ps, 'latex_walker': w}
    reg.spec('body_delta_kind')(lambda it: it.ctx.ghost['body_delta_kind'])
    reg.spec('body_parser')(lambda it: it.ctx.ghost['body_parser'])
    c = Contract(ENVCALL + '.make_body_parser_and_parsing_state', setup=setup_mbp,
                 ensures=[('the-specs-body-parser', 'result[0] is body_parser()'),
                          ('internal:no-delta-keeps-the-state', 'implies(body_delta_kind() == 0, result[1] is parsing_state)'),
                          ('internal:a-math-environment-body-is-in-math-mode',
                           'implies(body_delta_kind() == 1, result[1].in_math_mode is True and same_but_mode(result[1], parsing_state))'),
                          ('internal:a-text-body-inside-math-is-in-text-mode',
                           'implies(body_delta_kind() == 2, result[1].in_math_mode is False and same_but_mode(result[1], parsing_state))')],
                 modifies=[])
    units['LatexEnvironmentCallParser.make_body_parser_and_parsing_state'] = FunctionUnit(c, inline=INL_DELTA)

    def setup_specinit(it):
        k = it.ctx.choose(4, 'is_math_mode / body delta given')
        it.ctx.ghost['specinit_kind'] = k
        kw = PyDict()
        if k == 1:
            kw.items['is_math_mode'] = True
        elif k == 2:
            kw.items['is_math_mode'] = False
        elif k == 3:
            kw.items['body_parsing_state_delta'] = mk_delta(it, 2)
        spec = new_obj(it, SPECCLS + 'EnvironmentSpec', {}, tag='spec')
        return {'spec': spec, 'kw': kw}

    def lemma_spec_init(it):
        """EnvironmentSpec(name, is_math_mode=True) declares the enter-math-mode body delta (real constructor executed)"""
        ctx = it.ctx
        cls = resolve_class(it, SPECCLS + 'EnvironmentSpec')
        for k, kw in ((0, {}), (1, {'is_math_mode': True}), (2, {'is_math_mode': False})):
            spec = it.call(cls, ['someenv'], dict(kw))
            d = spec.fields.get('body_parsing_state_delta')
            if k == 1:
                ok = isinstance(d, Obj) and d.cls.name == 'ParsingStateDeltaEnterMathMode' and \
                    d.fields.get('walker_event_name') == 'enter_math_mode'
            else:
                ok = d is None
            ctx.prove('EnvironmentSpec(is_math_mode=%r): body delta is %s' % (kw.get('is_math_mode'),
                                                                                'enter math mode' if k == 1 else 'absent'), bool(ok), 'post')
    units['EnvironmentSpec.__init__:is_math_mode'] = LemmaUnit('EnvironmentSpec.__init__:is_math_mode', lemma_spec_init,
                                                               functions=[SPECCLS + 'CallableSpec.__init__'])

    # ---- table obligations on the default walker database ------------------------------------------------------------------------------------
    def lemma_tables(it):
        ctx = it.ctx
        rows = walker_rows(it.program.root)
        macros = {r['name']: r for r in rows if r['kind'] == 'macro'}
        envs = {r['name']: r for r in rows if r['kind'] == 'env'}
        ctx.prove('table[walker-db]:non-empty', len(macros) > 50 and len(envs) > 10, 'table')
        bad = [n for n in TEXTLIKE if n not in macros or macros[n]['args'] != ['ParsingStateDeltaLeaveMathMode']]
        ctx.prove('table[walker-db]:the argument of every text-like macro is declared to leave math mode', not bad, 'table',
                  src='offending: %r' % [(n, macros.get(n, {}).get('args')) for n in bad])
        ok = 'ensuremath' in macros and macros['ensuremath']['args'] == ['ParsingStateDeltaEnterMathMode']
        ctx.prove('table[walker-db]:the argument of ensuremath is declared to enter math mode', ok, 'table',
                  src='declared: %r' % (macros.get('ensuremath'),))
        bad = [n for n in MATHENVS if n not in envs or envs[n]['body'] != 'ParsingStateDeltaEnterMathMode']
        ctx.prove('table[walker-db]:the body of every math environment is declared to enter math mode', not bad, 'table',
                  src='offending: %r' % [(n, envs.get(n, {}).get('body')) for n in bad])
        bad = [(r['kind'], r['name']) for r in rows
               if not (r['kind'] == 'macro' and (r['name'] in TEXTLIKE or r['name'] == 'ensuremath'))
               and any(a is not None for a in r['args'])]
        bad += [('env-body', r['name']) for r in rows if r['kind'] == 'env' and r['name'] not in MATHENVS and r['body'] is not None]
        ctx.prove('table[walker-db]:everything else inherits the mode (no other argument or body declares a mode change)', not bad,
                  'table', src='offending: %r' % bad[:8])
    units['walker-db-mode-tables'] = LemmaUnit('walker-db-mode-tables', lemma_tables,
                                               functions=['pylatexenc.latexwalker._defaultspecs'])
    for k in units:
        contracts.REPLAYERS[k] = replay
    contracts.EXTRA_ASSUMPTIONS['C10'] = [
        "sub_context enters through its C17 contract (requested / inherited fields, expected-closing table re-derived exactly when "
        "a key it depends on is given)",
        "which strings are opening delimiters, their partners and kinds are arbitrary (an unknown per syntactically distinct string); "
        "that the real tables are built correctly from the delimiter lists is C17 part 1",
        "the statement for every node of every document is the induction over parser invocations on top of these hand-over "
        "contracts (nodes are created with the collector's current state: C01 units); it is stated, not mechanised"]
    return {'C10': units}


NATIVE = PRELUDE + r'''
import logging
logging.disable(logging.CRITICAL)
from pylatexenc.latexwalker import LatexWalker, get_default_latex_context_db
from pylatexenc.latexnodes.parsers import LatexGeneralNodesParser
from pylatexenc.latexnodes import nodes as N

def walk(node, expect_math, expect_delim, out, path):
    """expect_*: what the enclosing structure implies for this node"""
    if node is None:
        return
    if isinstance(node, (list, N.LatexNodeList)):
        for j, n in enumerate(node):
            walk(n, expect_math, expect_delim, out, path + [j])
        return
    ps = node.parsing_state
    if bool(ps.in_math_mode) != expect_math:
        out.append("%s at %s (pos %s): recorded in_math_mode=%r, the enclosing structure implies %r" % (
            type(node).__name__, path, node.pos, ps.in_math_mode, expect_math))
    if expect_math and expect_delim is not Ellipsis and ps.math_mode_delimiter != expect_delim:
        out.append("%s at %s: recorded math_mode_delimiter=%r, opened by %r" % (type(node).__name__, path, ps.math_mode_delimiter, expect_delim))
    if isinstance(node, N.LatexMathNode):
        pairs = {"$": ("$", "inline"), r"\(": (r"\)", "inline"), "$$": ("$$", "display"), r"\[": (r"\]", "display")}
        od = node.delimiters[0]
        if od not in pairs or node.delimiters[1] != pairs[od][0] or node.displaytype != pairs[od][1]:
            out.append("math node with delimiters %r has displaytype %r" % (node.delimiters, node.displaytype))
        walk(node.nodelist, True, od, out, path + ["math"])
    elif isinstance(node, N.LatexGroupNode):
        walk(node.nodelist, expect_math, expect_delim, out, path + ["group"])
    elif isinstance(node, N.LatexMacroNode):
        args = node.nodeargd.argnlist if node.nodeargd is not None else []
        for j, a in enumerate(args or []):
            if node.macroname in TEXTLIKE:
                walk(a, False, None, out, path + ["arg%d" % j])
            elif node.macroname == "ensuremath":
                walk(a, True, None, out, path + ["arg%d" % j])
            else:
                walk(a, expect_math, expect_delim, out, path + ["arg%d" % j])
    elif isinstance(node, N.LatexEnvironmentNode):
        args = node.nodeargd.argnlist if node.nodeargd is not None else []
        for j, a in enumerate(args or []):
            walk(a, expect_math, expect_delim, out, path + ["arg%d" % j])
        if node.environmentname in MATHENVS:
            walk(node.nodelist, True, None, out, path + ["body"])
        else:
            walk(node.nodelist, expect_math, expect_delim, out, path + ["body"])

TEXTLIKE = {"text", "textrm", "textit", "textbf", "textmd", "textsc", "textsf", "textsl", "texttt", "textup", "mbox"}
MATHENVS = {"equation", "equation*", "eqnarray", "eqnarray*", "align", "align*", "gather", "gather*", "flalign", "flalign*",
            "multline", "multline*", "alignat", "alignat*", "split"}

def state_changing_context():
    """the default context plus a macro whose call changes the parsing state from then on (an after-call delta)"""
    from pylatexenc.macrospec import MacroSpec
    from pylatexenc.latexnodes import ParsingStateDelta
    db = get_default_latex_context_db()
    db.add_context_category("c10", prepend=True, macros=[MacroSpec(
        "nocomments", make_after_parsing_state_delta=lambda parsed_node, latex_walker: ParsingStateDelta(
            set_attributes=dict(enable_comments=False)))])
    return db

def check(doc, db=None):
    try:
        kw = {} if db is None else {"latex_context": db}
        nl, _ = LatexWalker(doc, tolerant_parsing=False, **kw).parse_content(LatexGeneralNodesParser())
    except Exception as e:
        return None      # not a well-formed document
    out = []
    walk(nl, False, None, out, [])
    return ("%r: " % doc + out[0]) if out else None

DOCS = [r"$a$$b$", r"$$a$$", r"a $b \text{c $d$ e} f$ g", r"\(x\) \[y\] $$z$$", r"\ensuremath{a_1} b", r"$\text{\ensuremath{x}}$",
        r"\begin{equation} a \text{b} \end{equation} c", r"\begin{align} x &= \mbox{y $z$} \end{align}", r"{ $a$ } $ {b} $",
        r"$a \(b\) c$", r"\textbf{$x$} \textbf{y}", r"\begin{itemize}\item $a$ \end{itemize}", r"\begin{alignat}{2} a \end{alignat}",
        r"\[ \begin{split} a \end{split} \]", r"$\frac{a}{\text{b}}$", r"\emph{a $b$}", r"$ $ $$ $$"]

def splits():
    nl, _ = LatexWalker(r"$a$$b$").parse_content(LatexGeneralNodesParser())
    ks = [(type(n).__name__, getattr(n, "displaytype", None)) for n in nl]
    if ks != [("LatexMathNode", "inline"), ("LatexMathNode", "inline")]:
        return "'$a$$b$' is parsed as %r, not two inline formulas" % (ks,)
    nl, _ = LatexWalker(r"$$a$$").parse_content(LatexGeneralNodesParser())
    ks = [(type(n).__name__, getattr(n, "displaytype", None)) for n in nl]
    if ks != [("LatexMathNode", "display")]:
        return "'$$a$$' is parsed as %r, not one display formula" % (ks,)
    return None

def search():
    m = splits()
    if m: return m
    for d in DOCS:
        m = check(d)
        if m: return m
    # a state change made inside a formula / group / environment does not carry the inner mode outside
    db = state_changing_context()
    for d in [r"$a \nocomments b$ c $d$", r"\(a \nocomments\) c", r"$$\nocomments$$ c", r"{\nocomments $a$} $b$ c",
              r"\begin{equation}\nocomments a\end{equation} c", r"\nocomments $a$ b", r"$\text{\nocomments a} b$ c"]:
        m = check(d, db)
        if m: return m
    for s in strings(["$", "a", "{", "}", " ", r"\(", r"\)", r"\[", r"\]"], 5):
        m = check(s)
        if m: return m
    return None
'''


def replay(o, model):
    return NATIVE + '''
m = search()
if m: reproduced(m)
not_reproduced()
'''
