"""LatexDelimitedExpressionParser.parse for braced groups and delimiter math (C01 span contract of the parser
interface, C02 structure, C10 mode hand-over): verified against the parser interface contract, given the reader
contracts (C11) and the span contract of parse_content for the contents.

  found       the node starts at the opening delimiter token (at the reader position when leading whitespace is not
              allowed), ends where the reader stands afterwards, and the opening delimiter was consumed; the contents
              were parsed once, by a LatexGeneralNodesParser that stops at the info object's stop condition, in the
              info object's contents state (groups: the group state; math: the math state of C10) and the node records
              the group state (math: the outer state);
  not found   optional: (None, None) and the reader is back where it was; otherwise a LatexWalkerNodesParseError located
              at the token that was found instead, offering that token to resume at and an empty recovery list there.
"""
import z3

from pyvc import values as V
from pyvc.values import Obj, PyList, PyDict, AbsVal, Builtin, CharSet, zint, simp, z_and, z_or, z_not
from pyvc.contracts import (Contract, FunctionUnit, LemmaUnit, LoopContract, sym_int, sym_str, sym_bool, new_obj,
                            resolve_class)
from pyvc.smt import EngineError
from contracts.tokenizer import mk_parsing_state, TR
from contracts.collector import mk_walker_for_parsing, mk_reader_at, W, NODES, EXC, replay as replay_parse
from contracts.mathmode import MathDelimTable

DEL = 'pylatexenc.latexnodes.parsers._delimited.'
DEP = DEL + 'LatexDelimitedExpressionParser'
GINFO = DEL + 'LatexDelimitedGroupParserInfo'
BASEINFO = DEL + 'LatexDelimitedExpressionParserInfo'
MINFO = 'pylatexenc.latexnodes.parsers._math.LatexMathParserInfo'
GNP = 'pylatexenc.latexnodes.parsers._generalnodes.LatexGeneralNodesParser'


def register(reg):
    import contracts
    units = {}

    def mk_state(it, name='parsing_state'):
        ps = mk_parsing_state(it, name, with_context=False)
        ctx = it.ctx
        memo = {}

        def partner(it2, idx):
            k = V.str_key(idx)
            if k not in memo:
                c = sym_str(it2, '%s.close_of_group_delim[%d]' % (name, len(memo)), register=False)
                it2.ctx.assume(V.slen(c) == 1)
                memo[k] = c
            return memo[k]
        cs = ps.fields['_latex_group_delimchars_by_open']
        ps.fields['_latex_group_delimchars_by_open'] = CharSet(cs.pred, cs.tag, valfn=partner)
        ps.fields['_math_delims_info_by_open'] = MathDelimTable(name + '._math_delims_info_by_open')
        ps.fields['math_mode_delimiter'] = None
        ps.fields['in_math_mode'] = False if ctx.choose(2, name + ' in math mode') == 0 else True
        ps.fields['_math_expecting_close_delim_info'] = None
        ps.fields['_parent_parsing_state_info'] = (None, PyDict())
        from contracts.parsingstate import FIELDS
        from contracts.mathmode import absfield
        for f in FIELDS:
            if f not in ps.fields:
                ps.fields[f] = absfield(it, '%s.%s' % (name, f))      # not read by the code under contract here; inherited as it is
        return ps

    def setup(it):
        ctx = it.ctx
        s = sym_str(it, 's')
        w = mk_walker_for_parsing(it, s)
        tr = mk_reader_at(it, s, w.fields['tolerant_parsing'])
        ps = mk_state(it)
        kind = ctx.choose(2, 'group or math parser')
        ctx.ghost['del_kind'] = kind
        dl = ctx.choose(2, 'delimiters constraint')
        delims = None
        if dl == 1:
            delims = sym_str(it, 'delimiters')
            ctx.assume(V.slen(delims) >= 1)
            if kind == 0:
                ctx.assume(V.slen(delims) == 1)       # group delimiters are single characters
        # the parser object as the library's own constructors configure it (group parser / math parser): in particular
        # whether a state change made by the contents is handed on (discard_parsing_state_delta)
        if kind == 0:
            parser = it.call(resolve_class(it, DEL + 'LatexDelimitedGroupParser'), [],
                             {'delimiters': delims, 'optional': sym_bool(it, 'optional'), 'allow_pre_space': sym_bool(it, 'allow_pre_space')})
        else:
            parser = it.call(resolve_class(it, 'pylatexenc.latexnodes.parsers._math.LatexMathParser'), [],
                             {'math_mode_delimiters': delims, 'optional': sym_bool(it, 'optional'),
                              'allow_pre_space': sym_bool(it, 'allow_pre_space')})
        parser.tag = 'self'
        return {'self': parser, 'latex_walker': w, 'token_reader': tr, 'parsing_state': ps, 'kwargs': PyDict()}

    reg.spec('is_math_parser')(lambda it: it.ctx.ghost['del_kind'] == 1)
    reg.spec('the_token')(lambda it: it.ctx.ghost.get('last_token'))

    @reg.spec('contents_parsed_once_in')
    def contents_parsed_once_in(it, ps):
        """parse_content was called exactly once, with a general-nodes parser that must meet its stop condition, and with
        the parsing state `ps` for groups / a math-mode state inheriting from `ps` for math"""
        calls = it.ctx.ghost.get('parse_calls', [])
        if len(calls) != 1:
            return False
        parser, st = calls[0]
        if not (isinstance(parser, Obj) and parser.cls.name == 'LatexGeneralNodesParser'):
            return False
        if parser.fields.get('require_stop_condition_met') is not True or parser.fields.get('stop_token_condition') is None:
            return False
        if it.ctx.ghost['del_kind'] == 0:
            return st is ps
        return isinstance(st, Obj) and st is not ps and st.fields['in_math_mode'] is True and \
            it.truth_term(it.equal_term(st.fields['math_mode_delimiter'], it.ctx.ghost['last_token'].fields['arg'])) is True \
            and st.fields['latex_context'] is ps.fields['latex_context']

    for cls_ in (GINFO, MINFO):
        reg.add(Contract(cls_ + '.get_acceptable_open_delimiter_list',
                         result_make=lambda it, env: PyList([it.fresh_str('acceptable_delimiter')]), modifies=[],
                         note='assumed: a list of strings, used in the error message only'))
    RDP = 'token_reader._pos'
    c = reg.add(Contract(
        DEP + '.parse', setup=setup,
        requires=[('reader-in-range', '0 <= %s and %s <= len(token_reader.s)' % (RDP, RDP)),
                  ('reader-and-walker-share-the-string', 'token_reader.s == latex_walker.s'),
                  ('a-requested-group-delimiter-is-a-group-delimiter-of-the-state',
                   'is_math_parser() or self.delimiters is None or self.delimiters in parsing_state._latex_group_delimchars_by_open')],
        ensures=[('an-absent-optional-construct-consumes-nothing',
                  'implies(result[0] is None, self.optional and result[1] is None and %s == old(%s))' % (RDP, RDP)),
                 ('the-node-starts-at-the-opening-delimiter-token',
                  'implies(result[0] is not None, result[0].pos == the_token().pos and old(%s) <= result[0].pos and '
                  'implies(not self.allow_pre_space, result[0].pos == old(%s)))' % (RDP, RDP)),
                 ('the-node-ends-where-the-reader-stands', 'implies(result[0] is not None, result[0].pos_end == %s)' % RDP),
                 ('the-opening-delimiter-is-consumed',
                  'implies(result[0] is not None, the_token().pos_end <= %s and %s <= len(latex_walker.s))' % (RDP, RDP)),
                 ('the-node-records-the-state-it-was-met-in',
                  'implies(result[0] is not None, result[0].parsing_state is parsing_state)'),
                 ('node-kind-and-delimiters',
                  "implies(result[0] is not None, (is_math_node(result[0]) == is_math_parser()) and "
                  "result[0].delimiters[0] == the_token().arg)"),
                 # a group and a formula are groups for TeX: a parsing-state change made by the contents (which would replace
                 # the enclosing state by the CONTENTS' state, math mode included) is not handed on to what follows
                 ('no-state-change-leaks-out-of-a-group-or-a-formula', 'result[1] is None'),
                 ('internal:the-contents-are-parsed-once-in-the-contents-state-up-to-the-closing-delimiter',
                  'implies(result[0] is not None, contents_parsed_once_in(parsing_state))')],
        raises={EXC + 'LatexWalkerNodesParseError': {'ensures': [
                    ('located-error', 'exc.pos is not None and 0 <= exc.pos and exc.pos <= len(latex_walker.s)'),
                    ('reader-never-moves-backwards', 'old(%s) <= %s and %s <= len(latex_walker.s)' % (RDP, RDP, RDP))]},
                EXC + 'LatexWalkerParseError': {'ensures': [
                    ('located-error', 'exc.pos is not None and 0 <= exc.pos and exc.pos <= len(latex_walker.s)'),
                    ('reader-never-moves-backwards', 'old(%s) <= %s and %s <= len(latex_walker.s)' % (RDP, RDP, RDP))]},
                EXC + 'LatexWalkerEndOfStream': {'ensures': []}},
        modifies=[('token_reader._pos', 'int'), ('latex_walker._line_no_calc', lambda it, hint, cur=None: cur)]))
    INL = {GINFO + '.get_group_parsing_state', BASEINFO + '.get_group_parsing_state', BASEINFO + '.parse_initial',
           GINFO + '.is_opening_delimiter', MINFO + '.is_opening_delimiter', BASEINFO + '.check_opening_delimiter',
           BASEINFO + '.__init__', BASEINFO + '.initialize', MINFO + '.initialize', BASEINFO + '.get_parsed_delimiters',
           GINFO + '.get_matching_delimiter', MINFO + '.get_matching_delimiter', BASEINFO + '.make_content_parser',
           BASEINFO + '.get_open_context_description', BASEINFO + '.make_group_node_and_parsing_state_delta',
           MINFO + '.make_group_node_and_parsing_state_delta', W + '.make_node', W + '.make_nodelist',
           DEL + 'LatexDelimitedExpressionParserOpeningDelimiterNotFound.__init__', GNP + '.__init__',
           'pylatexenc.latexnodes.parsers._base.LatexParserBase.__init__',
           NODES + 'LatexNodeList.__init__', NODES + '_update_posposend_from_nodelist'}
    from contracts.mathmode import DELTA, HANDLER
    INL |= {DELTA + 'ParsingStateDelta.__init__', DELTA + 'ParsingStateDeltaWalkerEvent.__init__',
            DELTA + 'ParsingStateDeltaEnterMathMode.__init__', DELTA + 'ParsingStateDelta.get_updated_parsing_state',
            DELTA + 'ParsingStateDeltaWalkerEvent.get_updated_parsing_state', DELTA + 'get_updated_parsing_state_from_delta',
            HANDLER + '.enter_math_mode', 'pylatexenc.latexnodes._walkerbase.LatexWalkerBase.parsing_state_event_handler',
            W + '.parsing_state_event_handler'}
    units['LatexDelimitedExpressionParser.parse'] = FunctionUnit(c, inline=INL, split_depth=5)

    for k in units:
        contracts.REPLAYERS[k] = replay_parse
    return {'C01': dict(units), 'C02': dict(units), 'C10': dict(units)}
