"""Native replay oracle for C02 (bounded stand-in, never counted as proof): documents are derived from a small grammar
over a custom context that declares macros / an environment with the standard argument letters; the parsed tree is
compared with the derivation it was written from (nesting, kinds, names, delimiters, argument slots present / absent)."""
from pyvc.replay import PRELUDE

NATIVE = PRELUDE + r'''
import logging, itertools
logging.disable(logging.CRITICAL)
from pylatexenc.latexwalker import LatexWalker, get_default_latex_context_db
from pylatexenc.macrospec import MacroSpec, EnvironmentSpec, LatexContextDb
from pylatexenc.latexnodes.parsers import LatexGeneralNodesParser, LatexStandardArgumentParser
from pylatexenc.latexnodes import nodes as N

def context():
    db = get_default_latex_context_db()
    db.add_context_category("c02", prepend=True, macros=[
        MacroSpec("ma", "{"), MacroSpec("mo", "[{"), MacroSpec("ms", "*{"), MacroSpec("mt", ["t+", "{"]),
        MacroSpec("md", ["m", "d<>"]), MacroSpec("mr", ["r()", "{"]), MacroSpec("mso", "*[{"), MacroSpec("mm", "{{"),
        MacroSpec("mz", ""), MacroSpec("moo", "[")],
        environments=[EnvironmentSpec("ea", "[{"), EnvironmentSpec("ez", ""), EnvironmentSpec("eo", "[")])
    return db

def dump(n):
    if n is None:
        return None
    if isinstance(n, (list, N.LatexNodeList)):
        return [dump(x) for x in n]
    if isinstance(n, N.LatexCharsNode):
        return ("chars", n.chars)
    if isinstance(n, N.LatexCommentNode):
        return ("comment", n.comment)
    if isinstance(n, N.LatexGroupNode):
        return ("group", n.delimiters[0] + n.delimiters[1], dump(n.nodelist))
    if isinstance(n, N.LatexMathNode):
        return ("math", n.delimiters[0] + n.delimiters[1], dump(n.nodelist))
    if isinstance(n, N.LatexMacroNode):
        return ("macro", n.macroname, args(n))
    if isinstance(n, N.LatexEnvironmentNode):
        return ("env", n.environmentname, args(n), dump(n.nodelist))
    if isinstance(n, N.LatexSpecialsNode):
        return ("specials", n.specials_chars)
    return ("?", type(n).__name__)

def args(n):
    """argument slots; a slot holding a one-element node list (the t<c> marker) counts as that element"""
    out = []
    for a in (n.nodeargd.argnlist if n.nodeargd is not None else []):
        d = dump(a)
        if isinstance(a, N.LatexNodeList) and len(d) == 1:
            d = d[0]
        out.append(d)
    return out

# ---- derivations: (source, expected structure) ----------------------------------------------------------------
ATOMS = [("a", [("chars", "a")]), ("{b}", [("group", "{}", [("chars", "b")])]), ("$c$", [("math", "$$", [("chars", "c")])]),
         ("[d]", [("chars", "[d]")])]

def merge(items):
    """adjacent chars merge into one chars node"""
    out = []
    for it in items:
        if out and it[0] == "chars" and out[-1][0] == "chars":
            out[-1] = ("chars", out[-1][1] + it[1])
        else:
            out.append(it)
    return out

def brace(inner): return ("group", "{}", inner)

def in_brackets(exp):
    """directly inside a [...] argument the brackets are group delimiters (children get the outer state back)"""
    return [("group", "[]", [("chars", "d")]) if it == ("chars", "[d]") else it for it in exp]

def calls(inner_src, inner_exp, sp):
    """macro / environment calls around an inner piece; sp is the whitespace written between the construct and its arguments"""
    g = "{" + inner_src + "}"
    G = brace(inner_exp)
    yield "\\ma" + sp + g, [("macro", "ma", [G])]
    yield "\\mo" + sp + g, [("macro", "mo", [None, G])]
    yield "\\mo" + sp + "[" + inner_src + "]" + sp + g, [("macro", "mo", [("group", "[]", in_brackets(inner_exp)), G])]
    yield "\\ms" + sp + "*" + sp + g, [("macro", "ms", [("chars", "*"), G])]
    yield "\\ms" + sp + g, [("macro", "ms", [None, G])]
    yield "\\mt" + sp + "+" + sp + g, [("macro", "mt", [("chars", "+"), G])]
    yield "\\mt" + sp + g, [("macro", "mt", [None, G])]
    yield "\\md" + sp + g + sp + "<" + inner_src + ">", [("macro", "md", [G, ("group", "<>", inner_exp)])]
    yield "\\md" + sp + g + "!", [("macro", "md", [G, None]), ("chars", "!")]
    yield "\\mr" + sp + "(" + inner_src + ")" + sp + g, [("macro", "mr", [("group", "()", inner_exp), G])]
    yield "\\mso" + sp + "*" + sp + "[x]" + sp + g, [("macro", "mso", [("chars", "*"), ("group", "[]", [("chars", "x")]), G])]
    yield "\\mso" + sp + g, [("macro", "mso", [None, None, G])]
    yield "\\mm" + sp + g + sp + "{y}", [("macro", "mm", [G, brace([("chars", "y")])])]
    yield "\\begin{ea}" + sp + g + inner_src + "\\end{ea}", [("env", "ea", [None, G], inner_exp)]
    yield "\\begin{ea}" + sp + "[o]" + sp + g + "\\end{ea}", [("env", "ea", [("group", "[]", [("chars", "o")]), G], [])]
    yield "\\begin{ez}" + inner_src + "\\end{ez}", [("env", "ez", [], inner_exp)]
    yield "{" + inner_src + "}", [brace(inner_exp)]
    yield "$" + inner_src.replace("$", "") + "$" if "$" not in inner_src else "{" + inner_src + "}", \
        [("math", "$$", inner_exp)] if "$" not in inner_src else [brace(inner_exp)]

def derivations(depth):
    if depth == 0:
        for a in ATOMS:
            yield a
        return
    for (src, exp) in derivations(depth - 1):
        for sp in ("", " ", "\n"):
            for c in calls(src, exp, sp):
                yield c

def parse(doc, db):
    nl, _ = LatexWalker(doc, latex_context=db, tolerant_parsing=False).parse_content(LatexGeneralNodesParser())
    return dump(nl)

FIXED = [
    (r"a\\ [b] c", [("chars", "a"), ("macro", "\\", [None, None]), ("chars", " [b] c")]),
    (r"a\\[2pt] c", [("chars", "a"), ("macro", "\\", [None, ("group", "[]", [("chars", "2pt")])]), ("chars", " c")]),
    (r"a\\*[2pt]", [("chars", "a"), ("macro", "\\", [("chars", "*"), ("group", "[]", [("chars", "2pt")])])]),
    (r"\mo[x[y]z]{w}", [("macro", "mo", [("group", "[]", [("chars", "x"), ("group", "[]", [("chars", "y")]), ("chars", "z")]),
                                          brace([("chars", "w")])])]),
    (r"\mo[\ma{p [q] r}]{w}", [("macro", "mo", [("group", "[]", [("macro", "ma", [brace([("chars", "p [q] r")])])]), brace([("chars", "w")])])]),
    (r"\mo[$[0,1]$]{w}", [("macro", "mo", [("group", "[]", [("math", "$$", [("chars", "[0,1]")])]), brace([("chars", "w")])])]),
    (r"\mo[{[}]{w}", [("macro", "mo", [("group", "[]", [brace([("chars", "[")])]), brace([("chars", "w")])])]),
    (r"\ms**{x}", [("macro", "ms", [("chars", "*"), ("chars", "*")]), brace([("chars", "x")])]),
    (r"\ma x y", [("macro", "ma", [("chars", "x")]), ("chars", " y")]),
    (r"$a$$b$", [("math", "$$", [("chars", "a")]), ("math", "$$", [("chars", "b")])]),
    (r"$$a$$", [("math", "$$$$", [("chars", "a")])]),
    ("a % c\nb", [("chars", "a "), ("comment", " c"), ("chars", "b")]),
    ("a\n\nb", [("chars", "a"), ("specials", "\n\n"), ("chars", "b")]),
    (r"\begin{ez}\begin{ez}x\end{ez}y\end{ez}", [("env", "ez", [], [("env", "ez", [], [("chars", "x")]), ("chars", "y")])]),
    # a comment where an absent optional argument would stand stays in the tree, after the macro / at the start of the body
    ("\\moo% c\nx", [("macro", "moo", [None]), ("comment", " c"), ("chars", "x")]),
    ("\\begin{eo}% c\nbody\\end{eo}", [("env", "eo", [None], [("comment", " c"), ("chars", "body")])]),
    # whitespace between \\begin / \\end and the braced name does not change the structure
    ("\\begin {ez}x\\end\n {ez}", [("env", "ez", [], [("chars", "x")])]),
    # an environment without a declaration of its own (unknown-environment spec) ends at the \\end of ITS name
    (r"\begin{zzz}x\end{zzz}", [("env", "zzz", [], [("chars", "x")])]),
    (r"a\begin{zzz}\mz\begin{ez}y\end{ez}\end{zzz}b", [("chars", "a"), ("env", "zzz", [], [("macro", "mz", []), ("env", "ez", [], [("chars", "y")])]), ("chars", "b")]),
]

def table():
    """the argument letters, natively"""
    P = LatexStandardArgumentParser
    for aps in (True, False):
        p = P("{", allow_pre_space=aps)
        for spec, cls, chk in [
            ("m", "LatexExpressionParser", lambda q: q.allow_pre_space == aps), ("{", "LatexExpressionParser", lambda q: q.allow_pre_space == aps),
            ("o", "LatexDelimitedGroupParser", lambda q: tuple(q.delimiters) == ("[", "]") and q.optional and q.allow_pre_space == aps),
            ("[", "LatexDelimitedGroupParser", lambda q: tuple(q.delimiters) == ("[", "]") and q.optional and q.allow_pre_space == aps),
            ("s", "LatexOptionalCharsMarkerParser", lambda q: q.chars_list == ["*"] and q.allow_pre_space == aps),
            ("*", "LatexOptionalCharsMarkerParser", lambda q: q.chars_list == ["*"] and q.allow_pre_space == aps),
            ("t+", "LatexOptionalCharsMarkerParser", lambda q: q.chars_list == ["+"] and q.allow_pre_space == aps),
            ("r()", "LatexDelimitedGroupParser", lambda q: tuple(q.delimiters) == ("(", ")") and not q.optional and q.allow_pre_space == aps),
            ("d<>", "LatexDelimitedGroupParser", lambda q: tuple(q.delimiters) == ("<", ">") and q.optional and q.allow_pre_space == aps),
            ("v", "LatexDelimitedVerbatimParser", lambda q: q.delimiters is None),
            ("v||", "LatexDelimitedVerbatimParser", lambda q: tuple(q.delimiters) == ("|", "|")),
            ("e{^_}", "LatexOptionalEmbellishmentArgsParser", lambda q: q.embellishment_chars == "^_")]:
            q = p.get_arg_parser_instance(spec)
            if type(q).__name__ != cls or not chk(q):
                return "argument specification %r with allow_pre_space=%r gives %s with %r" % (
                    spec, aps, type(q).__name__, {k: v for k, v in vars(q).items() if not k.startswith("_")})
    return None

def search():
    m = table()
    if m: return m
    db = context()
    for doc, want in FIXED:
        try:
            got = parse(doc, db)
        except Exception as e:
            return "well-formed document %r raised %s: %s" % (doc, type(e).__name__, e)
        if got != want:
            return "document %r is parsed as %r; it was written as %r" % (doc, got, want)
    for depth in (1, 2):
        for doc, want in derivations(depth):
            want = merge(want)
            try:
                got = parse(doc, db)
            except Exception as e:
                return "well-formed document %r raised %s: %s" % (doc, type(e).__name__, e)
            if got != want:
                return "document %r is parsed as %r; it was written as %r" % (doc, got, want)
    return None
'''


def replay(o, model):
    return NATIVE + '''
m = search()
if m: reproduced(m)
not_reproduced()
'''
