"""C14 -- macrospec/_latexcontextdb.py: LatexContextDb lookups follow category order under every
build history; also the contract of test_for_specials that the tokenizer (C11) relies on.

Abstract view (ids are integers): categories, dictionaries, names and specs are abstract objects;
  has(d, k) / val(d, k)   -- uninterpreted content of dictionary d
  cats                    -- self.category_list (symbolic sequence of category ids, no duplicates)
  D_k(c)                  -- the dictionary self.d[c][k] for kind k in {macros, environments, specials}
Representation invariant DB_inv (the sentence in the code's own comment: "these chainmaps' list of
maps mirror the category_list item for item"):
  for every kind k:  len(maps_k) == len(cats)  and  maps_k[i] == D_k(cats[i])  for all i
LOOK(k, name) = val(D_k(cats[i]), name) for the least i with has(D_k(cats[i]), name), else unknown_k.
"Under every build history" is the induction that DB_inv is established by __init__ and preserved
by every mutator; nothing more is needed.

Assumptions specific to this file (A-DB): dict(...) built from a comprehension over an iterable of
specs is a fresh dictionary of unknown content; collections.ChainMap looks keys up in its `maps`
list in order (library contract, validated by pyvc.selftest); a specials spec is stored under its
own specials_chars (established by the comprehension in add_context_category).
"""
import z3

from pyvc import values as V
from pyvc.values import Obj, PyList, PyDict, AbsVal, Codec, Builtin, StrBase, zint, simp, z_and, z_or, z_not
from pyvc.contracts import Contract, LoopContract, FunctionUnit, LemmaUnit, sym_int, sym_str, sym_bool, new_obj
from pyvc.smt import EngineError, forall_range
from pyvc.interp import PyExc
from pyvc.replay import PRELUDE

DB = 'pylatexenc.macrospec._latexcontextdb.LatexContextDb'
KINDS = ('macros', 'environments', 'specials')

HAS = z3.Function('dict_has', z3.IntSort(), z3.IntSort(), z3.BoolSort())
NONEMPTY = z3.Function('dict_nonempty', z3.IntSort(), z3.BoolSort())
VAL = z3.Function('dict_val', z3.IntSort(), z3.IntSort(), z3.IntSort())
AUTOGEN = z3.Function('is_autogen_name', z3.IntSort(), z3.BoolSort())
# an iterable of specs, seen through the dictionary  dict((x.<its name>, x) for x in iterable)  built from it:
LISTHAS = z3.Function('iterable_defines', z3.IntSort(), z3.IntSort(), z3.BoolSort())     # some spec in it has this name
LISTVAL = z3.Function('iterable_last_def', z3.IntSort(), z3.IntSort(), z3.IntSort())     # the last spec in it with this name
VALUES_OF = z3.Function('dict_values', z3.IntSort(), z3.IntSort())                       # d.values()
NAME_ATTRS = ('macroname', 'environmentname', 'specials_chars')
EMPTY_DICT = z3.Int('EMPTY_DICT')
NONE_SPEC = -1


def has(d, k):
    """d has key k; the distinguished empty dictionary has none"""
    return z3.And(zint(d) != EMPTY_DICT, HAS(zint(d), zint(k)))


# ---------------------------------------------------------------------------------------------
class SymDict(object):
    """a dictionary of unknown content, identified by an integer"""
    def __init__(self, term):
        self.term = term

    def pyvc_contains(self, it, key):
        return has(self.term, name_code(it, key))

    def pyvc_truth(self, it):
        # bool(d): whether the dictionary has any key; nothing else is known about it here (an uninterpreted predicate of d)
        return NONEMPTY(zint(self.term))

    def pyvc_index(self, it, key, src=''):
        if V.is_str(key):
            # test_for_specials looks a key up that it has just obtained from keys(): the spec stored
            # under it carries these characters (A-DB)
            return AbsVal(it.ctx.fresh_int('spec'), 'spec', attrs={'specials_chars': key}, methods=SPEC_METHODS)
        k = name_code(it, key)
        if not it.ctx.spec and not it.ctx.branch(has(self.term, k)):
            it.raise_builtin('KeyError', 'wd:key[%s]' % src)
        return spec_val(it, VAL(zint(self.term), zint(k)), key)

    def pyvc_getattr(self, it, name):
        if name == 'update':
            def upd(it2, a, k):
                o = a[0]
                if isinstance(o, PyDict) and not o.items:
                    return None
                if not isinstance(o, SymDict):
                    raise EngineError('SymDict.update(%r)' % (o,))
                # in-place update: legitimate only on a dictionary object created during this call (ghost 'fresh_dicts'); an
                # update of a dictionary that existed before is recorded and must be excluded by the caller's contract
                it2.ctx.ghost.setdefault('dict_updates', []).append(self.term)
                new = merged_dict(it2, self.term, o.term)
                self.term = new          # in-place update of this dict object
                it2.ctx.ghost.setdefault('fresh_dicts', []).append(new)
                return None
            return Builtin('dict.update', upd)
        if name == 'values':
            def values(it2, a, k):
                # A-DB: every dictionary of a database stores each spec under the spec's own name (that is how
                # add_context_category / extended_with build them), so re-keying d.values() by name gives d's content
                t = VALUES_OF(zint(self.term))
                kk = z3.Int('vk!%d' % it2.ctx.next_id())
                it2.ctx.assume(z3.ForAll([kk], z3.And(LISTHAS(t, kk) == has(self.term, kk),
                                                      LISTVAL(t, kk) == VAL(zint(self.term), kk))))
                return AbsVal(t, 'abslist')
            return Builtin('dict.values', values)
        if name == 'keys':
            return Builtin('dict.keys', lambda it2, a, k: KeysList(it2, self.term))
        raise EngineError('SymDict.%s' % name)


KEYCHARS = z3.Function('specials_key_chars', z3.IntSort(), z3.IntSort(), z3.ArraySort(z3.IntSort(), z3.IntSort()))
KEYLEN = z3.Function('specials_key_len', z3.IntSort(), z3.IntSort(), z3.IntSort())
NKEYS = z3.Function('specials_n_keys', z3.IntSort(), z3.IntSort())


def key_str(dd, j):
    dd, j = zint(dd), zint(j)
    ln = z3.If(KEYLEN(dd, j) >= 0, KEYLEN(dd, j), 0)
    return StrBase('key[%s,%s]' % (dd, j), arr=KEYCHARS(dd, j), length=ln).whole()


def n_keys(dd):
    return z3.If(NKEYS(zint(dd)) >= 0, NKEYS(zint(dd)), 0)


class KeysList(object):
    """d.keys() of a specials dictionary: a sequence of strings of unknown length"""
    def __init__(self, it, dd):
        self.dd = dd

    def pyvc_seq(self, it):
        return (n_keys(self.dd), lambda j: key_str(self.dd, j))

    def pyvc_iter(self, it):
        raise EngineError('iteration over the keys of an abstract dictionary needs the loop contract')


def merged_dict(it, base, overlay):
    """id of the dictionary  {**base, **overlay}"""
    ctx = it.ctx
    nd = ctx.fresh_int('merged')
    k = z3.Int('mk!%d' % ctx.next_id())
    ctx.assume(nd != EMPTY_DICT)
    ctx.assume(z3.ForAll([k], z3.And(
        HAS(nd, k) == z3.Or(has(base, k), has(overlay, k)),
        VAL(nd, k) == z3.If(has(overlay, k), VAL(zint(overlay), k), VAL(zint(base), k)))))
    return nd


def dict_of_iterable(it, t):
    """id of the dictionary  dict((x.<name>, x) for x in <iterable t>)"""
    ctx = it.ctx
    nd = ctx.fresh_int('dictof')
    k = z3.Int('dk!%d' % ctx.next_id())
    ctx.assume(nd != EMPTY_DICT)
    ctx.assume(z3.ForAll([k], z3.And(HAS(nd, k) == LISTHAS(zint(t), k), VAL(nd, k) == LISTVAL(zint(t), k))))
    return nd


def copied_dict(it, src):
    ctx = it.ctx
    nd = ctx.fresh_int('dictcopy')
    k = z3.Int('ck!%d' % ctx.next_id())
    ctx.assume(nd != EMPTY_DICT)
    ctx.assume(z3.ForAll([k], z3.And(HAS(nd, k) == has(src, k), VAL(nd, k) == VAL(zint(src), k))))
    return nd


def name_code(it, key):
    if isinstance(key, AbsVal):
        return key.term
    if V.is_str(key):
        # a string used as a name: its abstract identity (one integer per syntactically distinct string
        # on the path; nothing is assumed about two different strings being different names)
        memo = it.ctx.ghost.setdefault('name_codes', {})
        k = V.str_key(key)
        if k not in memo:
            memo[k] = it.ctx.fresh_int('name')
        return memo[k]
    raise EngineError('dictionary key %r' % (key,))


def get_node_parser(it, self, args, kwargs):
    """spec.get_node_parser(token): a call parser for that token (its node starts at the token), or None"""
    tok = args[0] if args else kwargs.get('token')
    # the library's own spec classes always build a call parser (CallableSpec.get_node_parser); user subclasses
    # returning None are outside the claim (A-DYN)
    empty_ok = it.ctx.fresh_bool('contents_can_be_empty')
    return AbsVal(it.ctx.fresh_int('call_parser'), 'parser',
                  attrs={'span_start': it.getattr(tok, 'pos'), 'kind': 'call_parser', 'token': tok, 'spec': self,
                         'may_eos': False},
                  methods={'contents_can_be_empty': lambda it2, sf, a, k: empty_ok})


SPEC_METHODS = {'get_node_parser': get_node_parser}


def spec_val(it, term, key=None):
    attrs = {}
    if key is not None and V.is_str(key):
        attrs['specials_chars'] = key
    return AbsVal(term, 'spec', attrs=attrs, methods=SPEC_METHODS)


def enc_dict(it, v):
    if isinstance(v, SymDict):
        return v.term
    if isinstance(v, PyDict) and not v.items:
        return EMPTY_DICT
    raise EngineError('cannot store %r in a list of dictionaries' % (v,))


DICT_CODEC = Codec(encode=enc_dict, decode=lambda it, t: SymDict(t), name='dicts')
CAT_CODEC = Codec(encode=lambda it, v: (v.term if isinstance(v, AbsVal) else (name_code(it, v) if V.is_str(v) else None)),
                  decode=lambda it, t: mk_cat(t), name='categories')


def mk_cat(term):
    def startswith(it, self, args, kwargs):
        return AUTOGEN(self.term)
    return AbsVal(term, 'cat', methods={'startswith': startswith})


class CatMap(object):
    """self.d : category -> {'macros': dict, 'environments': dict, 'specials': dict}"""
    def __init__(self, arrs):
        self.arrs = dict(arrs)

    def pyvc_snapshot(self):
        return CatMap(self.arrs)

    def pyvc_index(self, it, key, src=''):
        c = key.term
        return PyDict({k: SymDict(self.arrs[k][c]) for k in KINDS})

    def pyvc_store(self, it, key, val):
        if not isinstance(val, PyDict) or set(val.items) != set(KINDS):
            raise EngineError('unexpected value stored in LatexContextDb.d')
        for k in KINDS:
            self.arrs[k] = z3.Store(self.arrs[k], key.term, enc_dict(it, val.items[k]))


class ChainMapVal(object):
    """collections.ChainMap (A-LIB): key lookup goes through `maps` in order."""
    def __init__(self, maps):
        self.maps = maps         # PyList (Int-coded dictionaries)

    def pyvc_getattr(self, it, name):
        if name == 'maps':
            return self.maps
        if name == 'new_child':
            def new_child(it2, a, k):
                m = PyList(None, self.maps.length, self.maps.arr, 'maps', DICT_CODEC)
                it2.B.sym_list_method(it2, 'insert', m, [0, a[0]], {}, None)
                return ChainMapVal(m)
            return Builtin('ChainMap.new_child', new_child)
        raise EngineError('ChainMap.%s' % name)

    def pyvc_index(self, it, key, src=''):
        ctx = it.ctx
        k = name_code(it, key)
        n, arr = self.maps.length, self.maps.arr
        absent = forall_range(ctx, 0, n, lambda j: z3.Not(has(arr[j], k)), 'cm')
        g = ctx.ghost
        if ctx.branch(absent):
            g['lookup_found'] = False
            it.raise_builtin('KeyError', 'chainmap-miss')
        i = ctx.fresh_int('hit')
        ctx.assume(z3.And(0 <= i, i < n, has(arr[i], k),
                          forall_range(ctx, 0, i, lambda j: z3.Not(has(arr[j], k)), 'cm')))
        g['lookup_found'] = True
        g['lookup_index'] = i
        return spec_val(it, VAL(arr[i], zint(k)), key)


def fresh_maps(it, hint):
    n = it.ctx.fresh_int(hint + '.n')
    it.ctx.assume(n >= 0)
    return PyList(None, n, z3.Array('%s!%d' % (hint, it.ctx.next_id()), z3.IntSort(), z3.IntSort()), hint, DICT_CODEC)


# ---------------------------------------------------------------------------------------------
def mk_db(it, name='self', frozen=None, unknowns=True, assume_inv=False):
    """a LatexContextDb in an arbitrary state satisfying DB_inv"""
    ctx = it.ctx
    n = z3.Int(name + '.ncats')
    ctx.assume(n >= 0)
    ctx.register_input(name + '.ncats', 'int', n)
    cats = PyList(None, n, z3.Array(name + '.cats', z3.IntSort(), z3.IntSort()), 'category_list', CAT_CODEC)
    for j in range(4):
        ctx.register_input('%s.cats[%d]' % (name, j), 'int', cats.arr[j])
    d = CatMap({k: z3.Array('%s.d.%s' % (name, k), z3.IntSort(), z3.IntSort()) for k in KINDS})
    maps = {}
    for k in KINDS:
        m = PyList(None, z3.Int('%s.maps.%s.n' % (name, k)), z3.Array('%s.maps.%s' % (name, k), z3.IntSort(), z3.IntSort()),
                   'maps', DICT_CODEC)
        maps[k] = ChainMapVal(m)
    unk = {}
    for k, f in (('macros', 'unknown_macro_spec'), ('environments', 'unknown_environment_spec'),
                 ('specials', 'unknown_specials_spec')):
        if unknowns:
            unk[f] = None if ctx.choose(2, f + ' set') == 0 else AbsVal(z3.Int('%s.%s' % (name, f)), 'spec', methods=SPEC_METHODS)
        else:
            attrs = {'truth': lambda it2, sf, f=f: z3.Bool('%s.%s.set' % (name, f))}
            if k == 'specials':
                def chars(it2, sf):
                    memo = it2.ctx.ghost.setdefault('unknown_specials_chars', {})
                    if name not in memo:
                        memo[name] = it2.fresh_str('unknown_specials_chars')
                    return memo[name]
                attrs['specials_chars'] = chars
            unk[f] = AbsVal(z3.Int('%s.%s' % (name, f)), 'spec', attrs=attrs, methods=SPEC_METHODS)
    fz = sym_bool(it, name + '.frozen') if frozen is None else frozen
    o = new_obj(it, DB, dict(category_list=cats, d=d, frozen=fz, lookup_chain_maps=PyDict(maps),
                             _autogen_category_counter=sym_int(it, name + '.counter', lo=0), **unk), tag=name)
    if assume_inv:
        from pyvc.interp import Frame
        fr = Frame(it.program.module('pylatexenc.macrospec._latexcontextdb'))
        fr.vars = {'self': o}
        for _n, c in DB_INV:
            ctx.assume(it.spec_truth(c, fr))
    return o


DB_INV = [
    ('categories-distinct',
     'forall(0, len(self.category_list), lambda i: forall(i + 1, len(self.category_list), '
     'lambda j: cat_at(self, i) != cat_at(self, j)))'),
] + [('%s-maps-mirror-category-list' % k,
      "n_maps(self, '%s') == len(self.category_list) and forall(0, len(self.category_list), "
      "lambda i: map_at(self, '%s', i) == D(self, '%s', cat_at(self, i)))" % (k, k, k)) for k in KINDS]


def register(reg):
    import contracts
    units = {}

    # ---- library / abstraction hooks ---------------------------------------------------------------
    @reg.lib('collections.ChainMap')
    def chainmap(it, *dicts):
        from pyvc.interp import StarSym
        if dicts and isinstance(dicts[-1], StarSym):
            rest = dicts[-1].lst
            m = PyList(None, rest.length, rest.arr, 'maps', DICT_CODEC)
            for d in reversed(dicts[:-1]):
                it.B.sym_list_method(it, 'insert', m, [0, d], {}, None)
            return ChainMapVal(m)
        m = PyList(None, 0, z3.K(z3.IntSort(), z3.IntVal(0)), 'maps', DICT_CODEC)
        for d in dicts:
            it.B.list_append(it, m, d)
        if not dicts:
            it.B.list_append(it, m, PyDict())     # ChainMap() starts with one empty dict
        return ChainMapVal(m)

    # spec vocabulary
    reg.spec('cat_at')(lambda it, db, i: db.fields['category_list'].arr[zint(i)])
    reg.spec('n_maps')(lambda it, db, k: db.fields['lookup_chain_maps'].items[k].maps.length)
    reg.spec('map_at')(lambda it, db, k, i: db.fields['lookup_chain_maps'].items[k].maps.arr[zint(i)])
    reg.spec('D')(lambda it, db, k, c: db.fields['d'].arrs[k][zint(c)])
    reg.spec('has_')(lambda it, d, name: has(d, name_code(it, name)))
    reg.spec('val_')(lambda it, d, name: VAL(zint(d), zint(name_code(it, name))))
    reg.spec('code')(lambda it, v: NONE_SPEC if v is None else v.term)
    reg.spec('found')(lambda it: bool(it.ctx.ghost.get('lookup_found')))
    reg.spec('hit')(lambda it: it.ctx.ghost['lookup_index'])

    @reg.spec('db_inv')
    def db_inv(it, db):
        from pyvc.interp import Frame
        m = it.program.module('pylatexenc.macrospec._latexcontextdb')
        fr = Frame(m)
        fr.vars = {'self': db}
        return z_and(*[it.spec_truth(c, fr) for _n, c in DB_INV])

    # comprehension over an abstract list / dict(abstract iterable): the interpreter evaluates the iterable once and
    # offers it to these hooks before iterating
    def comp_abslist(it, node, frame, src):
        import ast as _ast
        if len(node.generators) == 1 and isinstance(src, AbsVal) and src.kind == 'abslist':
            g, e = node.generators[0], node.elt
            if (not g.ifs and isinstance(g.target, _ast.Name) and isinstance(e, _ast.Tuple) and len(e.elts) == 2
                    and isinstance(e.elts[0], _ast.Attribute) and e.elts[0].attr in NAME_ATTRS
                    and isinstance(e.elts[0].value, _ast.Name) and e.elts[0].value.id == g.target.id
                    and isinstance(e.elts[1], _ast.Name) and e.elts[1].id == g.target.id):
                return AbsVal(src.term, 'keyed')       # ((x.name, x) for x in iterable): the iterable, keyed by name
            return AbsVal(it.ctx.fresh_int('comp'), 'abslist')
        return None
    reg.comp_hooks = getattr(reg, 'comp_hooks', [])
    reg.comp_hooks.append(comp_abslist)

    def bi_dict(it, args, kwargs, _orig=None):
        if len(args) == 1 and isinstance(args[0], AbsVal) and args[0].kind == 'keyed':
            t = dict_of_iterable(it, args[0].term)
            it.ctx.ghost.setdefault('fresh_dicts', []).append(t)
            return SymDict(t)
        if len(args) == 1 and isinstance(args[0], AbsVal) and args[0].kind == 'abslist':
            t = it.ctx.fresh_int('newdict')
            it.ctx.ghost.setdefault('fresh_dicts', []).append(t)
            return SymDict(t)
        if len(args) == 1 and isinstance(args[0], CatMap):
            return CatMap(args[0].arrs)
        if len(args) == 1 and isinstance(args[0], SymDict):
            t = copied_dict(it, args[0].term)
            it.ctx.ghost.setdefault('fresh_dicts', []).append(t)
            return SymDict(t)
        return it.B.bi_dict(it, args, kwargs)
    reg.builtin_overrides = getattr(reg, 'builtin_overrides', {})
    reg.builtin_overrides['dict'] = bi_dict

    # ---- __init__ ---------------------------------------------------------------------------------------
    c_init = reg.add(Contract(
        DB + '.__init__', setup=lambda it: {'self': new_obj(it, DB, {}, tag='self'), 'kwargs': PyDict()},
        ensures=[('starts-empty-and-unfrozen', 'len(self.category_list) == 0 and self.frozen == False'),
                 ('no-unknown-specs', 'self.unknown_macro_spec is None and self.unknown_environment_spec is None '
                                      'and self.unknown_specials_spec is None')] + DB_INV,
        modifies=['self.category_list', 'self.d', 'self.frozen', 'self.lookup_chain_maps', 'self.unknown_macro_spec',
                  'self.unknown_environment_spec', 'self.unknown_specials_spec', 'self._autogen_category_counter']))
    units['LatexContextDb.__init__'] = FunctionUnit(c_init)


    # ---- add_context_category (category name given) ---------------------------------------------------------
    def abslist(it, name):
        return AbsVal(z3.Int(name), 'abslist')

    def setup_add(it):
        ctx = it.ctx
        db = mk_db(it)
        cat = mk_cat(z3.Int('category'))
        ctx.register_input('category', 'int', cat.term)
        mode = ctx.choose(5, 'placement')
        prepend = sym_bool(it, 'prepend') if mode == 4 else (mode == 1)
        ib = mk_cat(z3.Int('insert_before')) if mode in (2, 4) else None
        ia = mk_cat(z3.Int('insert_after')) if mode in (3, 4) else None
        for nm, v in (('insert_before', ib), ('insert_after', ia)):
            if v is not None:
                ctx.register_input(nm, 'int', v.term)
        return {'self': db, 'category': cat, 'macros': abslist(it, 'macros'), 'environments': abslist(it, 'environments'),
                'specials': abslist(it, 'specials'), 'prepend': prepend, 'insert_before': ib, 'insert_after': ia}

    @reg.spec('is_insert')
    def is_insert(it, new, old, p, c):
        """new == old with c inserted at position p"""
        ctx = it.ctx
        p = zint(p)
        return z_and(new.length == old.length + 1, 0 <= p, p <= old.length, new.arr[p] == c.term,
                     forall_range(ctx, 0, p, lambda j: new.arr[j] == old.arr[j], 'ij'),
                     forall_range(ctx, p, old.length, lambda j: new.arr[j + 1] == old.arr[j], 'ij'))

    @reg.spec('first_index')
    def first_index(it, lst, x):
        """index of the first occurrence of x in lst (x is assumed to occur)"""
        ctx = it.ctx
        memo = ctx.ghost.setdefault('first_index', {})
        k = (lst.arr.get_id(), str(lst.length), str(x.term))
        if k not in memo:
            r = ctx.fresh_int('first_index')
            ctx.assume(z3.Implies(
                z3.Not(forall_range(ctx, 0, lst.length, lambda j: lst.arr[j] != x.term, 'fi')),
                z3.And(0 <= r, r < lst.length, lst.arr[r] == x.term,
                       forall_range(ctx, 0, r, lambda j: lst.arr[j] != x.term, 'fi'))))
            memo[k] = r
        return memo[k]

    @reg.spec('same_list')
    def same_list(it, a, b):
        return z_and(a.length == b.length, forall_range(it.ctx, 0, a.length, lambda j: a.arr[j] == b.arr[j], 'sl'))

    @reg.spec('same_maps')
    def same_maps(it, db, old_maps):
        out = []
        for k in KINDS:
            out.append(same_list(it, db.fields['lookup_chain_maps'].items[k].maps, old_maps.items[k].maps))
        return z_and(*out)

    class _MapsSnap(object):
        pass

    def snap_maps(it, vars_):
        db = vars_.get('self') if 'self' in vars_ else None

    OLD = 'old(self.category_list)'
    POSITION = ("(0 if prepend else "
                "((first_index(%s, insert_before) if insert_before in %s else 0) if insert_before else "
                "((first_index(%s, insert_after) + 1 if insert_after in %s else len(%s)) if insert_after else "
                "len(%s))))" % (OLD, OLD, OLD, OLD, OLD, OLD))
    NEWCAT = 'new_cat(self, %s, category)' % POSITION
    UNCHANGED = [('category-list-unchanged', 'same_list(self.category_list, %s)' % OLD),
                 ('frozen-flag-unchanged', 'self.frozen == old(self.frozen)'),
                 ('definitions-unchanged', 'same_D(self, old(self.d))'),
                 ('chain-maps-unchanged', 'maps_unchanged(self, OLDMAPS)')]

    @reg.spec('new_cat')
    def new_cat(it, db, pos, category):
        """the category added by the call: the one given, or the (automatically named) one now at the insert position"""
        return category if category is not None else mk_cat(db.fields['category_list'].arr[zint(pos)])

    @reg.spec('dict_of')
    def dict_of(it, d, lst):
        """dictionary d == dict((x.<name>, x) for x in lst)"""
        k = z3.Int('do!%d' % it.ctx.next_id())
        d = zint(d)
        if isinstance(lst, AbsVal) and lst.kind == 'abslist':
            return z3.ForAll([k], z3.And(has(d, k) == LISTHAS(zint(lst.term), k),
                                         z3.Implies(has(d, k), VAL(d, k) == LISTVAL(zint(lst.term), k))))
        if lst is None or lst == () or (isinstance(lst, PyList) and lst.items is not None and len(lst.items) == 0):
            return z3.ForAll([k], z3.Not(has(d, k)))
        raise EngineError('dict_of(%r)' % (lst,))

    def snap_oldmaps(it, vars_):
        vars_.update(OLDMAPS=PyDict({k: PyList(None, vars_['self'].fields['lookup_chain_maps'].items[k].maps.length,
                                                vars_['self'].fields['lookup_chain_maps'].items[k].maps.arr, 'maps', DICT_CODEC)
                                     for k in KINDS}))

    # what a call (seen through its contract) does to the representation: all three parts are replaced by unknown ones
    def havoc_cats(it, hint, cur):
        n = it.ctx.fresh_int('ncats')
        it.ctx.assume(n >= 0)
        return PyList(None, n, z3.Array('cats!%d' % it.ctx.next_id(), z3.IntSort(), z3.IntSort()), 'category_list', CAT_CODEC)
    havoc_cats.wants_current = True

    def havoc_d(it, hint, cur):
        return CatMap({k: z3.Array('d.%s!%d' % (k, it.ctx.next_id()), z3.IntSort(), z3.IntSort()) for k in KINDS})
    havoc_d.wants_current = True

    def havoc_maps(it, hint, cur):
        return PyDict({k: ChainMapVal(fresh_maps(it, 'maps.' + k)) for k in KINDS})
    havoc_maps.wants_current = True
    REPR = [('self.category_list', havoc_cats), ('self.d', havoc_d), ('self.lookup_chain_maps', havoc_maps)]

    ADD_ENSURES = [
        ('inserted-at-the-documented-position', 'is_insert(self.category_list, %s, %s, %s)' % (OLD, POSITION, NEWCAT)),
        ('was-not-frozen', 'not old(self.frozen)'),
        ('was-a-new-name', 'not (%s in %s)' % (NEWCAT, OLD)),
        ('an-internal-name-only-when-none-is-given', 'implies(category is None, is_auto(%s))' % NEWCAT),
        ('other-categories-keep-their-definitions', 'same_D(self, old(self.d), %s)' % NEWCAT),
    ] + [('the-new-category-defines-the-given-%s' % k, "dict_of(D(self, '%s', code(%s)), %s)" % (k, NEWCAT, k)) for k in KINDS] + [
        ('frozen-flag-unchanged', 'self.frozen == old(self.frozen)'),
        ('unknown-specs-unchanged', 'self.unknown_macro_spec is old(self.unknown_macro_spec) and '
                                    'self.unknown_environment_spec is old(self.unknown_environment_spec) and '
                                    'self.unknown_specials_spec is old(self.unknown_specials_spec)'),
    ] + DB_INV
    reg.spec('is_auto')(lambda it, c: AUTOGEN(zint(c.term)))
    MORE_THAN_ONE = '((1 if prepend else 0) + (1 if insert_before else 0) + (1 if insert_after else 0)) > 1'

    def setup_add_any(it):
        v = setup_add(it)
        if it.ctx.choose(2, 'category given') == 0:
            v['category'] = None
        return v

    # the worker (since the fix of filtered_context()): any name is accepted, None makes an internal one
    c_add_worker = reg.add(Contract(
        DB + '._add_context_category', setup=setup_add_any, requires=DB_INV, pre_state=snap_oldmaps,
        ensures=ADD_ENSURES,
        raises={'RuntimeError': {'when': 'old(self.frozen)', 'ensures': UNCHANGED},
                'ValueError': {'when': 'category is not None and category in %s' % OLD, 'ensures': UNCHANGED},
                'TypeError': {'when': MORE_THAN_ONE, 'ensures': UNCHANGED}},
        modifies=REPR + ['self._autogen_category_counter']))
    units['_add_context_category'] = FunctionUnit(c_add_worker)

    # the public method: additionally refuses names with the prefix reserved for internal categories
    c_add = reg.add(Contract(
        DB + '.add_context_category', setup=setup_add_any, requires=DB_INV, pre_state=snap_oldmaps,
        ensures=ADD_ENSURES + [('a-given-name-is-not-a-reserved-one', 'implies(category is not None, not is_auto(category))')],
        raises={'RuntimeError': {'when': 'old(self.frozen)', 'ensures': UNCHANGED},
                'ValueError': {'when': 'category is not None and (is_auto(category) or category in %s)' % OLD,
                               'ensures': UNCHANGED},
                'TypeError': {'when': MORE_THAN_ONE, 'ensures': UNCHANGED}},
        modifies=REPR + ['self._autogen_category_counter']))
    units['add_context_category'] = FunctionUnit(c_add)

    # ---- frozen flag / unknown specs / categories ---------------------------------------------------------------
    def setter(meth, field, arg):
        def setup(it):
            return {'self': mk_db(it), arg: AbsVal(z3.Int('newspec'), 'spec')}
        c = reg.add(Contract(
            DB + '.' + meth, setup=setup, requires=DB_INV,
            ensures=[('stores-the-spec', 'self.%s is %s' % (field, arg)), ('was-not-frozen', 'not old(self.frozen)')] + DB_INV,
            raises={'RuntimeError': {'when': 'old(self.frozen)',
                                     'ensures': [('unknown-spec-unchanged', 'self.%s is old(self.%s)' % (field, field))]}},
            modifies=['self.' + field]))
        units[meth] = FunctionUnit(c)
    setter('set_unknown_macro_spec', 'unknown_macro_spec', 'macrospec')
    setter('set_unknown_environment_spec', 'unknown_environment_spec', 'environmentspec')
    setter('set_unknown_specials_spec', 'unknown_specials_spec', 'specialsspec')

    c_freeze = reg.add(Contract(DB + '.freeze', setup=lambda it: {'self': mk_db(it)}, requires=DB_INV,
                                ensures=[('frozen', 'self.frozen == True')] + DB_INV, modifies=['self.frozen']))
    units['freeze'] = FunctionUnit(c_freeze)

    c_cats = reg.add(Contract(DB + '.categories', setup=lambda it: {'self': mk_db(it)}, requires=DB_INV,
                              ensures=[('a-copy-of-the-category-order', 'same_list(result, self.category_list) and '
                                                                        'result is not self.category_list')],
                              modifies=[]))
    units['categories'] = FunctionUnit(c_cats)

    # ---- lookups ---------------------------------------------------------------------------------------------------
    def lookup(meth, kind, arg, unk):
        def setup(it):
            nm = AbsVal(z3.Int('name'), 'name')
            it.ctx.register_input('name', 'int', nm.term)
            return {'self': mk_db(it), arg: nm, 'raise_if_not_found': sym_bool(it, 'raise_if_not_found')}

        def make_result(it, env):
            # used where the contract is assumed (e.g. by the tokenizer): some spec, or the unknown spec
            if it.ctx.branch(it.truth_term(env.vars['fnd'])):
                attrs = {'specials_chars': it.fresh_str('stored_specials_chars')} if kind == 'specials' else {}
                return AbsVal(it.ctx.fresh_int('spec'), 'spec', attrs=attrs, methods=SPEC_METHODS)
            u = env.vars['self'].fields[unk]
            if isinstance(u, AbsVal) and 'truth' in u.attrs:
                # a database whose unknown-spec is "set or not" (one abstract value with an unknown truth value): not set means None
                if not it.ctx.branch(it.truth_term(u)):
                    return None
            return u
        DD = "D(self, '%s', cat_at(self, %%s))" % kind
        c = reg.add(Contract(
            DB + '.' + meth, setup=setup, requires=DB_INV,
            ghost={'fnd': ('bool', 'found()'), 'hitidx': ('int', 'hit() if found() else 0')},
            result_make=make_result,
            ensures=[
                ('first-category-in-order-that-defines-the-name',
                 'implies(fnd, 0 <= hitidx and hitidx < len(self.category_list) and has_(%s, %s) and '
                 'forall(0, hitidx, lambda j: not has_(%s, %s)) and code(result) == val_(%s, %s))'
                 % (DD % 'hitidx', arg, DD % 'j', arg, DD % 'hitidx', arg)),
                ('otherwise-the-unknown-spec',
                 'implies(not fnd, forall(0, len(self.category_list), lambda j: not has_(%s, %s)) and '
                 'result is self.%s and not raise_if_not_found)' % (DD % 'j', arg, unk)),
            ],
            raises={'KeyError': {'when': 'raise_if_not_found',
                                 'ensures': [('only-when-no-category-defines-it',
                                              'forall(0, len(self.category_list), lambda j: not has_(%s, %s))'
                                              % (DD % 'j', arg))]}},
            modifies=[]))
        units[meth] = FunctionUnit(c)
    lookup('get_macro_spec', 'macros', 'macroname', 'unknown_macro_spec')
    lookup('get_environment_spec', 'environments', 'environmentname', 'unknown_environment_spec')


    lookup('get_specials_spec', 'specials', 'specials_chars', 'unknown_specials_spec')

    # ---- test_for_specials: longest match over all categories ---------------------------------------------------
    def setup_tfs(it):
        s = sym_str(it, 's')
        pos = sym_int(it, 'pos', lo=0)
        return {'self': mk_db(it, unknowns=False), 's': s, 'pos': pos, 'parsing_state': None}

    def mk_best(it, hint):
        if it.ctx.choose(2, 'best match so far') == 0:
            return None
        return AbsVal(it.ctx.fresh_int('best'), 'spec', attrs={'specials_chars': it.fresh_str('best_chars')}, methods=SPEC_METHODS)

    reg.spec('DS')(lambda it, db, i: db.fields['d'].arrs['specials'][db.fields['category_list'].arr[zint(i)]])
    reg.spec('key_at')(lambda it, db, i, j: key_str(db.fields['d'].arrs['specials'][db.fields['category_list'].arr[zint(i)]], j))
    reg.spec('nkeys')(lambda it, db, i: n_keys(db.fields['d'].arrs['specials'][db.fields['category_list'].arr[zint(i)]]))

    BEST = [('best-length-nonnegative', 'best_match_len >= 0'),
            ('no-best-iff-length-zero', '(best_match_s is None) == (best_match_len == 0)'),
            ('best-matches-here', 'best_match_s is None or (s.startswith(best_match_s.specials_chars, pos) and '
                                  'len(best_match_s.specials_chars) == best_match_len)')]
    SEEN = ('forall(0, %s, lambda i: forall(0, nkeys(self, i), lambda j: '
            'implies(s.startswith(key_at(self, i, j), pos), len(key_at(self, i, j)) <= best_match_len)))')
    c_tfs = reg.add(Contract(
        DB + '.test_for_specials', setup=setup_tfs,
        result_make=lambda it, env: mk_best(it, 'result'),
        ensures=[
            ('result-matches-at-pos', 'result is None or (s.startswith(result.specials_chars, pos) and '
                                      'len(result.specials_chars) >= 1)'),
            ('none-means-no-specials-here',
             'implies(result is None, forall(0, len(self.category_list), lambda i: forall(0, nkeys(self, i), '
             'lambda j: not (len(key_at(self, i, j)) >= 1 and s.startswith(key_at(self, i, j), pos)))))'),
            ('longest-match-over-all-categories',
             'implies(result is not None, forall(0, len(self.category_list), lambda i: forall(0, nkeys(self, i), '
             'lambda j: implies(s.startswith(key_at(self, i, j), pos), '
             'len(key_at(self, i, j)) <= len(result.specials_chars)))))'),
        ],
        modifies=[]))
    reg.add_loop(LoopContract(
        DB + '.test_for_specials', 0, index='ci', havoc={'best_match_s': mk_best},
        invariant=BEST + [('earlier-categories-are-no-longer', SEEN % 'ci')]))
    reg.add_loop(LoopContract(
        DB + '.test_for_specials', 1, index='ki', havoc={'best_match_s': mk_best},
        invariant=BEST + [('earlier-categories-are-no-longer', SEEN % 'ci'),
                          ('earlier-keys-of-this-category-are-no-longer',
                           'forall(0, ki, lambda j: implies(s.startswith(key_at(self, ci, j), pos), '
                           'len(key_at(self, ci, j)) <= best_match_len))')]))
    units['test_for_specials'] = FunctionUnit(c_tfs)


    # ---- extended_with: copy-on-derive -----------------------------------------------------------------------------
    reg.add(Contract(
        DB + '._get_new_autogen_category',
        result_make=lambda it, env: (it.ctx.fresh_int('counter'), mk_cat(it.ctx.fresh_int('autocat'))),
        ensures=[('fresh-auto-name', 'not (result[1] in self.category_list) and result[1].startswith("x")')],
        modifies=['self._autogen_category_counter'],
        note='call-site abstraction of the unit _get_new_autogen_category below (names are abstract integers at call sites)'))

    # ... and verified here: the name handed back is not in use and carries the internal prefix; the database is not touched
    c_autogen = Contract(
        DB + '._get_new_autogen_category', setup=lambda it: {'self': mk_db(it)}, requires=DB_INV,
        ensures=[('the-name-is-not-in-use', 'not (result[1] in self.category_list)'),
                 ('the-name-carries-the-internal-prefix', "result[1].startswith('__lctxdb_cat_')")],
        modifies=[])
    reg.add_loop(LoopContract(DB + '._get_new_autogen_category', 0, invariant=[('no-invariant-needed-the-exit-test-is-the-postcondition', 'True')]))
    units['_get_new_autogen_category'] = FunctionUnit(c_autogen)

    def setup_ext(it):
        ctx = it.ctx
        db = mk_db(it, unknowns=False)
        cat = None if ctx.choose(2, 'category given') == 0 else mk_cat(z3.Int('category'))

        def maybe(nm):
            return None if ctx.choose(2, nm + ' given') == 0 else abslist(it, nm)
        return {'self': db, 'category': cat, 'macros': abslist(it, 'macros'), 'environments': maybe('environments'),
                'specials': abslist(it, 'specials'), 'create_class': None, 'kwargs': PyDict()}

    RINV = [(n, c.replace('self', 'result')) for n, c in DB_INV]
    OLDC = 'old(self.category_list)'

    @reg.spec('same_D')
    def same_D(it, a, b_catmap, except_cat=None):
        """D_k(a, c) == D_k(b, c) for every kind k and every category c (other than except_cat)"""
        out = []
        c = z3.Int('sd!%d' % it.ctx.next_id())
        for k in KINDS:
            body = a.fields['d'].arrs[k][c] == b_catmap.arrs[k][c]
            if except_cat is not None:
                body = z3.Or(c == zint(except_cat.term if isinstance(except_cat, AbsVal) else except_cat), body)
            out.append(z3.ForAll([c], body))
        return z_and(*out)

    @reg.spec('maps_unchanged')
    def maps_unchanged(it, db, old_maps):
        return z_and(*[same_list(it, db.fields['lookup_chain_maps'].items[k].maps, old_maps.items[k]) for k in KINDS])

    @reg.spec('merged_first')
    def merged_first(it, res, db_old_d, c0):
        """the leading auto category of the result defines what it defined before plus the new specs"""
        out = []
        k = z3.Int('mf!%d' % it.ctx.next_id())
        for kind in KINDS:
            nd = res.fields['d'].arrs[kind][zint(c0)]
            od = db_old_d.arrs[kind][zint(c0)]
            out.append(z3.ForAll([k], z3.Implies(has(od, k), has(nd, k))))
        return z_and(*out)

    @reg.spec('only_new_dictionaries_updated')
    def only_new_dictionaries_updated(it):
        """every dictionary updated in place was created (or copied) during this call: none that the parent database, its
        category dictionaries or its chain maps hold is touched"""
        fresh = [str(t) for t in it.ctx.ghost.get('fresh_dicts', [])]
        return all(str(t) in fresh for t in it.ctx.ghost.get('dict_updates', []))

    c_ext = reg.add(Contract(
        DB + '.extended_with', setup=setup_ext, requires=DB_INV,
        pre_state=lambda it, vars_: vars_.update(
            OLDMAPS=PyDict({k: PyList(None, vars_['self'].fields['lookup_chain_maps'].items[k].maps.length,
                                      vars_['self'].fields['lookup_chain_maps'].items[k].maps.arr, 'maps', DICT_CODEC)
                            for k in KINDS})),
        ensures=[
            ('a-new-frozen-object', 'result is not self and result.frozen == True'),
            ('parent-category-order-unchanged', 'same_list(self.category_list, %s)' % OLDC),
            ('parent-definitions-unchanged', 'same_D(self, old(self.d))'),
            ('parent-chain-maps-unchanged', 'maps_unchanged(self, OLDMAPS)'),
            ('parent-still-frozen', 'self.frozen == old(self.frozen)'),
            ('internal:no-dictionary-of-the-parent-is-updated-in-place', 'only_new_dictionaries_updated()'),
            ('category-order-of-the-result',
             'same_list(result.category_list, %s) if (category is None and len(%s) > 0 and '
             'cat_is_auto(%s, 0)) else (len(result.category_list) == len(%s) + 1 and '
             'forall(0, len(%s), lambda j: cat_at(result, j + 1) == cat_at(self, j)))' % (OLDC, OLDC, OLDC, OLDC, OLDC)),
            ('other-categories-keep-their-definitions',
             'same_D(result, old(self.d), cat_at(result, 0))'),
            ('merged-category-keeps-its-old-definitions',
             'implies(category is None and len(%s) > 0 and cat_is_auto(%s, 0), '
             'merged_first(result, old(self.d), cat_at(self, 0)))' % (OLDC, OLDC)),
        ] + RINV,
        raises={'ValueError': {'when': 'category is not None and category in %s' % OLDC, 'ensures': []},
                'RuntimeError': {'when': 'not old(self.frozen)', 'ensures': []}},
        modifies=['self._autogen_category_counter']))
    reg.spec('cat_is_auto')(lambda it, lst, i: AUTOGEN(lst.arr[zint(i)]))
    units['extended_with'] = FunctionUnit(c_ext, inline={DB + '.__init__'})

    # ---- filtered_context: copy-on-derive, category order = the kept sub-sequence --------------------------------
    # keep_categories / exclude_categories: containers of names of which only membership and emptiness are used
    INSET = z3.Function('name_in_container', z3.IntSort(), z3.IntSort(), z3.BoolSort())
    KB = z3.Function('kept_before', z3.IntSort(), z3.IntSort())     # K(j): how many of cats[0:j] the filter keeps
    SRCF = z3.Function('kept_source', z3.IntSort(), z3.IntSort())   # the index in cats of the p-th kept category

    class NameSet(object):
        def __init__(self, ident, nonempty):
            self.ident, self.nonempty = ident, nonempty

        def pyvc_truth(self, it):
            return self.nonempty

        def pyvc_contains(self, it, key):
            return z3.And(V.zbool(self.nonempty), INSET(self.ident, zint(key.term)))

    def kept_term(it, j):
        g = it.ctx.ghost['filter']
        c = g['cats'].arr[zint(j)]
        keep, excl = g['keep'], g['excl']
        return z3.And(z3.Or(z3.Not(V.zbool(keep.nonempty)), INSET(keep.ident, c)),
                      z3.Not(z3.And(V.zbool(excl.nonempty), INSET(excl.ident, c))))
    reg.spec('kept')(lambda it, j: kept_term(it, j))
    @reg.spec('kept_before')
    def kept_before(it, j):
        # K is defined by recursion; each mention unfolds the definition once (an instance of the defining equation)
        t = zint(j)
        it.ctx.assume(z3.Implies(t > 0, KB(t) == KB(t - 1) + z3.If(kept_term(it, t - 1), 1, 0)))
        return KB(t)
    reg.spec('kept_source')(lambda it, p: SRCF(zint(p)))
    reg.spec('keeps_kind')(lambda it, kind: kind in it.ctx.ghost['filter']['kinds'])

    def filter_axioms(it):
        """K(0) = 0 (the recursion K(j+1) = K(j) + [kept(j)] is unfolded where K is mentioned), the definition of K's inverse on
        kept indices, and the consequences of the recursion that the proof uses (K >= 0; K increases strictly across a kept index);
        those, and that the inverse is well defined, are proved from the recursion by induction in the lemma unit
        'filter-count-lemmas'.  Triggers are given explicitly so that instantiation stays finite."""
        j, a, b = z3.Ints('fj fa fb')
        kept = lambda x: kept_term(it, x)
        return [KB(0) == 0,
                z3.ForAll([j], z3.Implies(j >= 0, KB(j) >= 0), patterns=[KB(j)]),
                z3.ForAll([j], z3.Implies(z3.And(j >= 0, kept(j)), SRCF(KB(j)) == j), patterns=[KB(j)]),
                z3.ForAll([a, b], z3.Implies(z3.And(0 <= a, a < b, kept(a)), KB(a) < KB(b)),
                          patterns=[z3.MultiPattern(KB(a), KB(b))])]

    SUBSETS = [[], ['macros'], ['environments'], ['specials'], ['macros', 'environments'], ['macros', 'specials'],
               ['environments', 'specials'], ['macros', 'environments', 'specials']]

    def setup_filter(it, axioms=True):
        ctx = it.ctx
        db = mk_db(it, unknowns=False)
        keep = NameSet(z3.Int('keep_categories'), sym_bool(it, 'keep_categories.nonempty'))
        excl = NameSet(z3.Int('exclude_categories'), sym_bool(it, 'exclude_categories.nonempty'))
        which = SUBSETS[ctx.choose(len(SUBSETS), 'keep_which')]
        ctx.ghost['filter'] = {'cats': db.fields['category_list'], 'keep': keep, 'excl': excl,
                               'kinds': list(which) if which else list(KINDS)}
        if axioms:
            for ax in filter_axioms(it):
                ctx.assume(ax)
        return {'self': db, 'keep_categories': keep, 'exclude_categories': excl,
                'keep_which': PyList([w for w in which]), 'create_class': None}

    def lemma_filter_counts(it):
        """induction steps for the two consequences of K's recursion assumed in filter_axioms"""
        ctx = it.ctx
        setup_filter(it, axioms=False)
        j = z3.Int('fj')
        kept = lambda x: kept_term(it, x)
        ctx.assume(KB(0) == 0)
        ctx.assume(z3.ForAll([j], z3.Implies(j >= 0, KB(j + 1) == KB(j) + z3.If(kept(j), 1, 0))))
        a, b = ctx.fresh_int('a'), ctx.fresh_int('b')
        ctx.assume(z3.And(0 <= a, a <= b))
        # non-negative, by induction (base K(0) == 0; step)
        ctx.prove('filter-count:non-negative:step', z3.Implies(KB(a) >= 0, KB(a + 1) >= 0), 'lemma')
        # monotone, by induction on b (base b == a; step b -> b + 1)
        ctx.prove('filter-count:monotone:base', KB(a) <= KB(a), 'lemma')
        ctx.prove('filter-count:monotone:step', z3.Implies(KB(a) <= KB(b), KB(a) <= KB(b + 1)), 'lemma')
        # strictly increasing across a kept index: K(a) < K(a + 1) <= K(b) from the recursion and monotonicity
        mono = z3.ForAll([z3.Int('fa'), z3.Int('fb')], z3.Implies(z3.And(0 <= z3.Int('fa'), z3.Int('fa') <= z3.Int('fb')),
                                                                  KB(z3.Int('fa')) <= KB(z3.Int('fb'))))
        ctx.assume(mono)
        ctx.prove('filter-count:strict-across-a-kept-index', z3.Implies(z3.And(a < b, kept(a)), KB(a) < KB(b)), 'lemma')
        # the inverse is well defined: K is injective on kept indices
        ctx.prove('filter-count:inverse-well-defined',
                  z3.Implies(z3.And(a < b, kept(a), kept(b)), KB(a) != KB(b)), 'lemma')
    units['filter-count-lemmas'] = LemmaUnit('filter-count-lemmas', lemma_filter_counts, functions=[DB + '.filtered_context'])

    @reg.spec('same_content')
    def same_content(it, d1, d2):
        k = z3.Int('sc!%d' % it.ctx.next_id())
        return z3.ForAll([k], z3.And(has(d1, k) == has(d2, k), z3.Implies(has(d1, k), VAL(zint(d1), k) == VAL(zint(d2), k))))

    @reg.spec('no_keys')
    def no_keys(it, d):
        k = z3.Int('nk!%d' % it.ctx.next_id())
        return z3.ForAll([k], z3.Not(has(d, k)))

    def FILTERED(nc, upto):
        """the view of the derived database `nc` after the first `upto` categories of the parent have been looked at"""
        out = [
            ('length-is-the-number-of-kept-categories', 'len(%s.category_list) == kept_before(%s)' % (nc, upto)),
            ('kept-categories-in-the-order-of-the-parent',
             'forall(0, %s, lambda j: implies(kept(j), cat_at(%s, kept_before(j)) == cat_at(self, j)))' % (upto, nc)),
            ('nothing-but-kept-categories',
             'forall(0, len(%s.category_list), lambda p: 0 <= kept_source(p) and kept_source(p) < %s and kept(kept_source(p)) '
             'and kept_before(kept_source(p)) == p and cat_at(%s, p) == cat_at(self, kept_source(p)))' % (nc, upto, nc)),
        ]
        for k in KINDS:
            out.append(('kept-categories-keep-their-%s-if-that-kind-is-kept' % k,
                        "forall(0, %s, lambda j: implies(kept(j), "
                        "same_content(D(%s, '%s', cat_at(self, j)), D(self, '%s', cat_at(self, j))) if keeps_kind('%s') "
                        "else no_keys(D(%s, '%s', cat_at(self, j)))))" % (upto, nc, k, k, k, nc, k)))
        out.append(('unknown-specs-carried-over',
                    '%s.unknown_macro_spec is self.unknown_macro_spec and %s.unknown_environment_spec is '
                    'self.unknown_environment_spec and %s.unknown_specials_spec is self.unknown_specials_spec' % (nc, nc, nc)))
        out.append(('unfrozen', '%s.frozen == False' % nc))
        return out + [(n, c.replace('self', nc)) for n, c in DB_INV]

    PARENT_SAME = [('parent-category-order-unchanged', 'same_list(self.category_list, %s)' % OLDC),
                   ('parent-definitions-unchanged', 'same_D(self, old(self.d))'),
                   ('parent-chain-maps-unchanged', 'maps_unchanged(self, OLDMAPS)'),
                   ('parent-frozen-flag-unchanged', 'self.frozen == old(self.frozen)')]
    c_filt = reg.add(Contract(
        DB + '.filtered_context', setup=setup_filter, requires=DB_INV, pre_state=snap_oldmaps,
        ensures=[('a-new-object', 'result is not self')] + PARENT_SAME
                + [('internal:no-dictionary-of-the-parent-is-updated-in-place', 'only_new_dictionaries_updated()')]
                + FILTERED('result', 'len(self.category_list)'),
        raises={},          # filtering never fails, whatever names (internal ones included) the parent holds
        modifies=[]))
    reg.add_loop(LoopContract(
        DB + '.filtered_context', 0, index='fi',
        havoc={'new_context.category_list': lambda it, hint: havoc_cats(it, hint, None),
               'new_context.d': lambda it, hint: havoc_d(it, hint, None),
               'new_context.lookup_chain_maps': lambda it, hint: havoc_maps(it, hint, None)},
        havoc_fields=['new_context.category_list', 'new_context.d', 'new_context.lookup_chain_maps',
                      'new_context._autogen_category_counter'],
        invariant=[('the-derived-object-is-not-the-parent', 'new_context is not self')] + PARENT_SAME + FILTERED('new_context', 'fi')))
    units['filtered_context'] = FunctionUnit(c_filt, inline={DB + '.__init__'})

    for k in units:
        contracts.REPLAYERS[k] = replay
    return {'C14': units}


NATIVE = PRELUDE + r'''
from pylatexenc.macrospec import LatexContextDb, MacroSpec, EnvironmentSpec, SpecialsSpec

def look(db, kind, name):
    """the property's definition: first category, in reported order, that defines the name"""
    for c in db.categories():
        if name in db.d[c][kind]:
            return db.d[c][kind][name]
    return {"macros": db.unknown_macro_spec, "environments": db.unknown_environment_spec,
            "specials": db.unknown_specials_spec}[kind]

def check_db(db, what):
    for name in ("a", "b", "c", "zz"):
        if db.get_macro_spec(name) is not look(db, "macros", name):
            return "%s: get_macro_spec(%r) is not the definition of the first category in %r" % (what, name, db.categories())
        if db.get_environment_spec(name) is not look(db, "environments", name):
            return "%s: get_environment_spec(%r) wrong for category order %r" % (what, name, db.categories())
    for name in ("~", "``", "`"):
        if db.get_specials_spec(name) is not look(db, "specials", name):
            return "%s: get_specials_spec(%r) wrong for category order %r" % (what, name, db.categories())
    for s in ("``x", "`x", "~", "x", ""):
        got = db.test_for_specials(s, 0)
        best = None
        for c in db.categories():
            for k, v in db.d[c]["specials"].items():
                if k and s.startswith(k) and (best is None or len(k) > len(best.specials_chars)):
                    best = v
        if (got is None) != (best is None) or (got is not None and (len(got.specials_chars) != len(best.specials_chars)
                                                                    or not s.startswith(got.specials_chars) or not got.specials_chars)):
            return "%s: test_for_specials(%r) returned %r, longest match is %r" % (what, s, got, best)

def cat(i):
    return dict(macros=[MacroSpec(n, "{") for n in "abc"[i % 3:]], environments=[EnvironmentSpec(n) for n in "abc"[:1 + i % 3]],
                specials=[SpecialsSpec(x) for x in (["~", "`"], ["``"], ["`", "~"])[i % 3]])

def build(seq, anchor):
    db = LatexContextDb()
    names = []
    for i, op in enumerate(seq):
        nm = "C%d" % i
        ref = names[min(anchor, len(names) - 1)] if names else "nope"
        kw = {"append": {}, "prepend": {"prepend": True}, "before": {"insert_before": ref},
              "after": {"insert_after": ref}}[op]
        db.add_context_category(nm, **dict(cat(i), **kw))
        names = db.categories()
    return db

def histories():
    import itertools
    ops = ["append", "prepend", "before", "after"]
    for n in range(1, 5):
        for seq in itertools.product(ops, repeat=n):
            for anchor in range(2):
                yield build(seq, anchor), "history %r (anchor %d)" % (seq, anchor)

def search():
    for db, what in histories():
        m = check_db(db, what)
        if m: return m
        db.set_unknown_macro_spec(MacroSpec(""))
        db.freeze()
        try:
            db.add_context_category("X")
            return what + ": a frozen database accepted add_context_category"
        except RuntimeError:
            pass
        before = [(n, db.get_macro_spec(n)) for n in "abc"]
        e = db.extended_with(macros=[MacroSpec("a")])
        f = db.filtered_context(exclude_categories=["C0"])
        e2 = e.extended_with(macros=[MacroSpec("b")], specials=[SpecialsSpec("``")])
        f2 = f.filtered_context(keep_which=["macros"])
        derived = [(e, "extended"), (f, "filtered"), (e2, "extended twice"), (f2, "filtered twice")]
        # composition of derivations: filter after extend (the extension made an internally named category), extend after filter
        try:
            ef = e2.filtered_context(exclude_categories=["C1"])
            f.freeze()
            fe = f.extended_with(macros=[MacroSpec("c")])
        except Exception as ex:
            return what + ": filtering an extended database / extending a filtered one raised %r" % (ex,)
        # filtering keeps the PARENT's category order, whatever the order of the names asked for
        kf = db.filtered_context(keep_categories=list(reversed(db.categories())) + ["no-such-category"])
        if kf.categories() != db.categories():
            return what + ": filtered_context(keep_categories=<reversed order>) of %r has the categories %r" % (db.categories(), kf.categories())
        derived.append((kf, "filtered with keep_categories"))
        if ef.categories() != [c for c in e2.categories() if c != "C1"]:
            return what + ": filtered_context(exclude C1) of categories %r gives %r" % (e2.categories(), ef.categories())
        derived += [(ef, "extended twice, then filtered"), (fe, "filtered, then extended")]
        for x, w in derived:
            m = check_db(x, what + " then " + w)
            if m: return m
        if before != [(n, db.get_macro_spec(n)) for n in "abc"]:
            return what + ": deriving a database changed the answers of the original"
'''


def replay(o, model):
    return NATIVE + '''
m = search()
if m: reproduced(m)
not_reproduced()
'''
