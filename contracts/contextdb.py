"""C14 -- macrospec/_latexcontextdb.py: LatexContextDb lookups follow category order under every
build history; also the contract of test_for_specials that the tokenizer (C11) relies on.

Abstract view (ids are integers): categories, dictionaries, names and specs are abstract objects;
  has(d, k) / val(d, k)   -- uninterpreted content of dictionary d
  cats                    -- self.category_list (symbolic sequence of category ids, no duplicates)
  D_k(c)                  -- the dictionary self.d[c][k] for kind k in {macros, environments, specials}
Representation invariant DB_inv (the sentence in the code's own comment: "these chainmaps' list of
maps mirror the category_list item for item"):
  for every kind k:  len(maps_k) == len(cats)  and  maps_k[i] == D_k(cats[i])  for all i
LOOK(k, name) = val(D_k(cats[i]), name) for the least i with has(D_k(cats[i]), name), else unknown_k.
"Under every build history" is the induction that DB_inv is established by __init__ and preserved
by every mutator; nothing more is needed.

Assumptions specific to this file (A-DB): dict(...) built from a comprehension over an iterable of
specs is a fresh dictionary of unknown content; collections.ChainMap looks keys up in its `maps`
list in order (library contract, validated by pyvc.selftest); a specials spec is stored under its
own specials_chars (established by the comprehension in add_context_category).
"""
import z3

from pyvc import values as V
from pyvc.values import Obj, PyList, PyDict, AbsVal, Codec, Builtin, StrBase, zint, simp, z_and, z_or, z_not
from pyvc.contracts import Contract, LoopContract, FunctionUnit, LemmaUnit, sym_int, sym_str, sym_bool, new_obj
from pyvc.smt import EngineError, forall_range
from pyvc.interp import PyExc
from pyvc.replay import PRELUDE

DB = 'pylatexenc.macrospec._latexcontextdb.LatexContextDb'
KINDS = ('macros', 'environments', 'specials')

HAS = z3.Function('dict_has', z3.IntSort(), z3.IntSort(), z3.BoolSort())
VAL = z3.Function('dict_val', z3.IntSort(), z3.IntSort(), z3.IntSort())
AUTOGEN = z3.Function('is_autogen_name', z3.IntSort(), z3.BoolSort())
EMPTY_DICT = z3.Int('EMPTY_DICT')
NONE_SPEC = -1


def has(d, k):
    """d has key k; the distinguished empty dictionary has none"""
    return z3.And(zint(d) != EMPTY_DICT, HAS(zint(d), zint(k)))


# ---------------------------------------------------------------------------------------------
class SymDict(object):
    """a dictionary of unknown content, identified by an integer"""
    def __init__(self, term):
        self.term = term

    def pyvc_contains(self, it, key):
        return has(self.term, name_code(it, key))

    def pyvc_index(self, it, key, src=''):
        if V.is_str(key):
            # test_for_specials looks a key up that it has just obtained from keys(): the spec stored
            # under it carries these characters (A-DB)
            return AbsVal(it.ctx.fresh_int('spec'), 'spec', attrs={'specials_chars': key}, methods=SPEC_METHODS)
        k = name_code(it, key)
        if not it.ctx.spec and not it.ctx.branch(has(self.term, k)):
            it.raise_builtin('KeyError', 'wd:key[%s]' % src)
        return spec_val(it, VAL(zint(self.term), zint(k)), key)

    def pyvc_getattr(self, it, name):
        if name == 'update':
            def upd(it2, a, k):
                o = a[0]
                if isinstance(o, PyDict) and not o.items:
                    return None
                if not isinstance(o, SymDict):
                    raise EngineError('SymDict.update(%r)' % (o,))
                # in-place update: legitimate only on a dictionary object created during this call (ghost 'fresh_dicts'); an
                # update of a dictionary that existed before is recorded and must be excluded by the caller's contract
                it2.ctx.ghost.setdefault('dict_updates', []).append(self.term)
                new = merged_dict(it2, self.term, o.term)
                self.term = new          # in-place update of this dict object
                it2.ctx.ghost.setdefault('fresh_dicts', []).append(new)
                return None
            return Builtin('dict.update', upd)
        if name == 'values':
            return Builtin('dict.values', lambda it2, a, k: AbsVal(it2.ctx.fresh_int('values'), 'abslist'))
        if name == 'keys':
            return Builtin('dict.keys', lambda it2, a, k: KeysList(it2, self.term))
        raise EngineError('SymDict.%s' % name)


KEYCHARS = z3.Function('specials_key_chars', z3.IntSort(), z3.IntSort(), z3.ArraySort(z3.IntSort(), z3.IntSort()))
KEYLEN = z3.Function('specials_key_len', z3.IntSort(), z3.IntSort(), z3.IntSort())
NKEYS = z3.Function('specials_n_keys', z3.IntSort(), z3.IntSort())


def key_str(dd, j):
    dd, j = zint(dd), zint(j)
    ln = z3.If(KEYLEN(dd, j) >= 0, KEYLEN(dd, j), 0)
    return StrBase('key[%s,%s]' % (dd, j), arr=KEYCHARS(dd, j), length=ln).whole()


def n_keys(dd):
    return z3.If(NKEYS(zint(dd)) >= 0, NKEYS(zint(dd)), 0)


class KeysList(object):
    """d.keys() of a specials dictionary: a sequence of strings of unknown length"""
    def __init__(self, it, dd):
        self.dd = dd

    def pyvc_seq(self, it):
        return (n_keys(self.dd), lambda j: key_str(self.dd, j))

    def pyvc_iter(self, it):
        raise EngineError('iteration over the keys of an abstract dictionary needs the loop contract')


def merged_dict(it, base, overlay):
    """id of the dictionary  {**base, **overlay}"""
    ctx = it.ctx
    nd = ctx.fresh_int('merged')
    k = z3.Int('mk!%d' % ctx.next_id())
    ctx.assume(nd != EMPTY_DICT)
    ctx.assume(z3.ForAll([k], z3.And(
        HAS(nd, k) == z3.Or(has(base, k), has(overlay, k)),
        VAL(nd, k) == z3.If(has(overlay, k), VAL(zint(overlay), k), VAL(zint(base), k)))))
    return nd


def copied_dict(it, src):
    ctx = it.ctx
    nd = ctx.fresh_int('dictcopy')
    k = z3.Int('ck!%d' % ctx.next_id())
    ctx.assume(nd != EMPTY_DICT)
    ctx.assume(z3.ForAll([k], z3.And(HAS(nd, k) == has(src, k), VAL(nd, k) == VAL(zint(src), k))))
    return nd


def name_code(it, key):
    if isinstance(key, AbsVal):
        return key.term
    if V.is_str(key):
        # a string used as a name: its abstract identity (one integer per syntactically distinct string
        # on the path; nothing is assumed about two different strings being different names)
        memo = it.ctx.ghost.setdefault('name_codes', {})
        k = V.str_key(key)
        if k not in memo:
            memo[k] = it.ctx.fresh_int('name')
        return memo[k]
    raise EngineError('dictionary key %r' % (key,))


def get_node_parser(it, self, args, kwargs):
    """spec.get_node_parser(token): a call parser for that token (its node starts at the token), or None"""
    tok = args[0] if args else kwargs.get('token')
    # the library's own spec classes always build a call parser (CallableSpec.get_node_parser); user subclasses
    # returning None are outside the claim (A-DYN)
    empty_ok = it.ctx.fresh_bool('contents_can_be_empty')
    return AbsVal(it.ctx.fresh_int('call_parser'), 'parser',
                  attrs={'span_start': it.getattr(tok, 'pos'), 'kind': 'call_parser', 'token': tok, 'spec': self,
                         'may_eos': False},
                  methods={'contents_can_be_empty': lambda it2, sf, a, k: empty_ok})


SPEC_METHODS = {'get_node_parser': get_node_parser}


def spec_val(it, term, key=None):
    attrs = {}
    if key is not None and V.is_str(key):
        attrs['specials_chars'] = key
    return AbsVal(term, 'spec', attrs=attrs, methods=SPEC_METHODS)


def enc_dict(it, v):
    if isinstance(v, SymDict):
        return v.term
    if isinstance(v, PyDict) and not v.items:
        return EMPTY_DICT
    raise EngineError('cannot store %r in a list of dictionaries' % (v,))


DICT_CODEC = Codec(encode=enc_dict, decode=lambda it, t: SymDict(t), name='dicts')
CAT_CODEC = Codec(encode=lambda it, v: (v.term if isinstance(v, AbsVal) else None), decode=lambda it, t: mk_cat(t), name='categories')


def mk_cat(term):
    def startswith(it, self, args, kwargs):
        return AUTOGEN(self.term)
    return AbsVal(term, 'cat', methods={'startswith': startswith})


class CatMap(object):
    """self.d : category -> {'macros': dict, 'environments': dict, 'specials': dict}"""
    def __init__(self, arrs):
        self.arrs = dict(arrs)

    def pyvc_snapshot(self):
        return CatMap(self.arrs)

    def pyvc_index(self, it, key, src=''):
        c = key.term
        return PyDict({k: SymDict(self.arrs[k][c]) for k in KINDS})

    def pyvc_store(self, it, key, val):
        if not isinstance(val, PyDict) or set(val.items) != set(KINDS):
            raise EngineError('unexpected value stored in LatexContextDb.d')
        for k in KINDS:
            self.arrs[k] = z3.Store(self.arrs[k], key.term, enc_dict(it, val.items[k]))


class ChainMapVal(object):
    """collections.ChainMap (A-LIB): key lookup goes through `maps` in order."""
    def __init__(self, maps):
        self.maps = maps         # PyList (Int-coded dictionaries)

    def pyvc_getattr(self, it, name):
        if name == 'maps':
            return self.maps
        if name == 'new_child':
            def new_child(it2, a, k):
                m = PyList(None, self.maps.length, self.maps.arr, 'maps', DICT_CODEC)
                it2.B.sym_list_method(it2, 'insert', m, [0, a[0]], {}, None)
                return ChainMapVal(m)
            return Builtin('ChainMap.new_child', new_child)
        raise EngineError('ChainMap.%s' % name)

    def pyvc_index(self, it, key, src=''):
        ctx = it.ctx
        k = name_code(it, key)
        n, arr = self.maps.length, self.maps.arr
        absent = forall_range(ctx, 0, n, lambda j: z3.Not(has(arr[j], k)), 'cm')
        g = ctx.ghost
        if ctx.branch(absent):
            g['lookup_found'] = False
            it.raise_builtin('KeyError', 'chainmap-miss')
        i = ctx.fresh_int('hit')
        ctx.assume(z3.And(0 <= i, i < n, has(arr[i], k),
                          forall_range(ctx, 0, i, lambda j: z3.Not(has(arr[j], k)), 'cm')))
        g['lookup_found'] = True
        g['lookup_index'] = i
        return spec_val(it, VAL(arr[i], zint(k)), key)


def fresh_maps(it, hint):
    n = it.ctx.fresh_int(hint + '.n')
    it.ctx.assume(n >= 0)
    return PyList(None, n, z3.Array('%s!%d' % (hint, it.ctx.next_id()), z3.IntSort(), z3.IntSort()), hint, DICT_CODEC)


# ---------------------------------------------------------------------------------------------
def mk_db(it, name='self', frozen=None, unknowns=True, assume_inv=False):
    """a LatexContextDb in an arbitrary state satisfying DB_inv"""
    ctx = it.ctx
    n = z3.Int(name + '.ncats')
    ctx.assume(n >= 0)
    ctx.register_input(name + '.ncats', 'int', n)
    cats = PyList(None, n, z3.Array(name + '.cats', z3.IntSort(), z3.IntSort()), 'category_list', CAT_CODEC)
    for j in range(4):
        ctx.register_input('%s.cats[%d]' % (name, j), 'int', cats.arr[j])
    d = CatMap({k: z3.Array('%s.d.%s' % (name, k), z3.IntSort(), z3.IntSort()) for k in KINDS})
    maps = {}
    for k in KINDS:
        m = PyList(None, z3.Int('%s.maps.%s.n' % (name, k)), z3.Array('%s.maps.%s' % (name, k), z3.IntSort(), z3.IntSort()),
                   'maps', DICT_CODEC)
        maps[k] = ChainMapVal(m)
    unk = {}
    for k, f in (('macros', 'unknown_macro_spec'), ('environments', 'unknown_environment_spec'),
                 ('specials', 'unknown_specials_spec')):
        if unknowns:
            unk[f] = None if ctx.choose(2, f + ' set') == 0 else AbsVal(z3.Int('%s.%s' % (name, f)), 'spec', methods=SPEC_METHODS)
        else:
            attrs = {'truth': lambda it2, sf, f=f: z3.Bool('%s.%s.set' % (name, f))}
            if k == 'specials':
                def chars(it2, sf):
                    memo = it2.ctx.ghost.setdefault('unknown_specials_chars', {})
                    if name not in memo:
                        memo[name] = it2.fresh_str('unknown_specials_chars')
                    return memo[name]
                attrs['specials_chars'] = chars
            unk[f] = AbsVal(z3.Int('%s.%s' % (name, f)), 'spec', attrs=attrs, methods=SPEC_METHODS)
    fz = sym_bool(it, name + '.frozen') if frozen is None else frozen
    o = new_obj(it, DB, dict(category_list=cats, d=d, frozen=fz, lookup_chain_maps=PyDict(maps),
                             _autogen_category_counter=sym_int(it, name + '.counter', lo=0), **unk), tag=name)
    if assume_inv:
        from pyvc.interp import Frame
        fr = Frame(it.program.module('pylatexenc.macrospec._latexcontextdb'))
        fr.vars = {'self': o}
        for _n, c in DB_INV:
            ctx.assume(it.spec_truth(c, fr))
    return o


DB_INV = [
    ('categories-distinct',
     'forall(0, len(self.category_list), lambda i: forall(i + 1, len(self.category_list), '
     'lambda j: cat_at(self, i) != cat_at(self, j)))'),
] + [('%s-maps-mirror-category-list' % k,
      "n_maps(self, '%s') == len(self.category_list) and forall(0, len(self.category_list), "
      "lambda i: map_at(self, '%s', i) == D(self, '%s', cat_at(self, i)))" % (k, k, k)) for k in KINDS]


def register(reg):
    import contracts
    units = {}

    # ---- library / abstraction hooks ---------------------------------------------------------------
    @reg.lib('collections.ChainMap')
    def chainmap(it, *dicts):
        from pyvc.interp import StarSym
        if dicts and isinstance(dicts[-1], StarSym):
            rest = dicts[-1].lst
            m = PyList(None, rest.length, rest.arr, 'maps', DICT_CODEC)
            for d in reversed(dicts[:-1]):
                it.B.sym_list_method(it, 'insert', m, [0, d], {}, None)
            return ChainMapVal(m)
        m = PyList(None, 0, z3.K(z3.IntSort(), z3.IntVal(0)), 'maps', DICT_CODEC)
        for d in dicts:
            it.B.list_append(it, m, d)
        if not dicts:
            it.B.list_append(it, m, PyDict())     # ChainMap() starts with one empty dict
        return ChainMapVal(m)

    # spec vocabulary
    reg.spec('cat_at')(lambda it, db, i: db.fields['category_list'].arr[zint(i)])
    reg.spec('n_maps')(lambda it, db, k: db.fields['lookup_chain_maps'].items[k].maps.length)
    reg.spec('map_at')(lambda it, db, k, i: db.fields['lookup_chain_maps'].items[k].maps.arr[zint(i)])
    reg.spec('D')(lambda it, db, k, c: db.fields['d'].arrs[k][zint(c)])
    reg.spec('has_')(lambda it, d, name: has(d, name_code(it, name)))
    reg.spec('val_')(lambda it, d, name: VAL(zint(d), zint(name_code(it, name))))
    reg.spec('code')(lambda it, v: NONE_SPEC if v is None else v.term)
    reg.spec('found')(lambda it: bool(it.ctx.ghost.get('lookup_found')))
    reg.spec('hit')(lambda it: it.ctx.ghost['lookup_index'])

    @reg.spec('db_inv')
    def db_inv(it, db):
        from pyvc.interp import Frame
        m = it.program.module('pylatexenc.macrospec._latexcontextdb')
        fr = Frame(m)
        fr.vars = {'self': db}
        return z_and(*[it.spec_truth(c, fr) for _n, c in DB_INV])

    # comprehension over an abstract list / dict(abstract iterable): the interpreter evaluates the iterable once and
    # offers it to these hooks before iterating
    def comp_abslist(it, node, frame, src):
        if len(node.generators) == 1 and isinstance(src, AbsVal) and src.kind == 'abslist':
            return AbsVal(it.ctx.fresh_int('comp'), 'abslist')
        return None
    reg.comp_hooks = getattr(reg, 'comp_hooks', [])
    reg.comp_hooks.append(comp_abslist)

    def bi_dict(it, args, kwargs, _orig=None):
        if len(args) == 1 and isinstance(args[0], AbsVal) and args[0].kind == 'abslist':
            t = it.ctx.fresh_int('newdict')
            it.ctx.ghost.setdefault('fresh_dicts', []).append(t)
            return SymDict(t)
        if len(args) == 1 and isinstance(args[0], CatMap):
            return CatMap(args[0].arrs)
        if len(args) == 1 and isinstance(args[0], SymDict):
            t = copied_dict(it, args[0].term)
            it.ctx.ghost.setdefault('fresh_dicts', []).append(t)
            return SymDict(t)
        return it.B.bi_dict(it, args, kwargs)
    reg.builtin_overrides = getattr(reg, 'builtin_overrides', {})
    reg.builtin_overrides['dict'] = bi_dict

    # ---- __init__ ---------------------------------------------------------------------------------------
    c_init = reg.add(Contract(
        DB + '.__init__', setup=lambda it: {'self': new_obj(it, DB, {}, tag='self'), 'kwargs': PyDict()},
        ensures=[('starts-empty-and-unfrozen', 'len(self.category_list) == 0 and self.frozen == False'),
                 ('no-unknown-specs', 'self.unknown_macro_spec is None and self.unknown_environment_spec is None '
                                      'and self.unknown_specials_spec is None')] + DB_INV,
        modifies=['self.category_list', 'self.d', 'self.frozen', 'self.lookup_chain_maps', 'self.unknown_macro_spec',
                  'self.unknown_environment_spec', 'self.unknown_specials_spec', 'self._autogen_category_counter']))
    units['LatexContextDb.__init__'] = FunctionUnit(c_init)


    # ---- add_context_category (category name given) ---------------------------------------------------------
    def abslist(it, name):
        return AbsVal(z3.Int(name), 'abslist')

    def setup_add(it):
        ctx = it.ctx
        db = mk_db(it)
        cat = mk_cat(z3.Int('category'))
        ctx.register_input('category', 'int', cat.term)
        mode = ctx.choose(5, 'placement')
        prepend = sym_bool(it, 'prepend') if mode == 4 else (mode == 1)
        ib = mk_cat(z3.Int('insert_before')) if mode in (2, 4) else None
        ia = mk_cat(z3.Int('insert_after')) if mode in (3, 4) else None
        for nm, v in (('insert_before', ib), ('insert_after', ia)):
            if v is not None:
                ctx.register_input(nm, 'int', v.term)
        return {'self': db, 'category': cat, 'macros': abslist(it, 'macros'), 'environments': abslist(it, 'environments'),
                'specials': abslist(it, 'specials'), 'prepend': prepend, 'insert_before': ib, 'insert_after': ia}

    @reg.spec('is_insert')
    def is_insert(it, new, old, p, c):
        """new == old with c inserted at position p"""
        ctx = it.ctx
        p = zint(p)
        return z_and(new.length == old.length + 1, 0 <= p, p <= old.length, new.arr[p] == c.term,
                     forall_range(ctx, 0, p, lambda j: new.arr[j] == old.arr[j], 'ij'),
                     forall_range(ctx, p, old.length, lambda j: new.arr[j + 1] == old.arr[j], 'ij'))

    @reg.spec('first_index')
    def first_index(it, lst, x):
        """index of the first occurrence of x in lst (x is assumed to occur)"""
        ctx = it.ctx
        memo = ctx.ghost.setdefault('first_index', {})
        k = (lst.arr.get_id(), str(lst.length), str(x.term))
        if k not in memo:
            r = ctx.fresh_int('first_index')
            ctx.assume(z3.Implies(
                z3.Not(forall_range(ctx, 0, lst.length, lambda j: lst.arr[j] != x.term, 'fi')),
                z3.And(0 <= r, r < lst.length, lst.arr[r] == x.term,
                       forall_range(ctx, 0, r, lambda j: lst.arr[j] != x.term, 'fi'))))
            memo[k] = r
        return memo[k]

    @reg.spec('same_list')
    def same_list(it, a, b):
        return z_and(a.length == b.length, forall_range(it.ctx, 0, a.length, lambda j: a.arr[j] == b.arr[j], 'sl'))

    @reg.spec('same_maps')
    def same_maps(it, db, old_maps):
        out = []
        for k in KINDS:
            out.append(same_list(it, db.fields['lookup_chain_maps'].items[k].maps, old_maps.items[k].maps))
        return z_and(*out)

    class _MapsSnap(object):
        pass

    def snap_maps(it, vars_):
        db = vars_.get('self') if 'self' in vars_ else None

    OLD = 'old(self.category_list)'
    POSITION = ("(0 if prepend else "
                "((first_index(%s, insert_before) if insert_before in %s else 0) if insert_before is not None else "
                "((first_index(%s, insert_after) + 1 if insert_after in %s else len(%s)) if insert_after is not None else "
                "len(%s))))" % (OLD, OLD, OLD, OLD, OLD, OLD))
    UNCHANGED = [('category-list-unchanged', 'same_list(self.category_list, %s)' % OLD),
                 ('frozen-flag-unchanged', 'self.frozen == old(self.frozen)')]
    c_add = reg.add(Contract(
        DB + '.add_context_category', setup=setup_add,
        requires=DB_INV,
        ensures=[('inserted-at-the-documented-position',
                  'is_insert(self.category_list, %s, %s, category)' % (OLD, POSITION)),
                 ('was-not-frozen', 'not old(self.frozen)'),
                 ('was-a-new-name', 'not (category in %s)' % OLD)] + DB_INV,
        raises={'RuntimeError': {'when': 'old(self.frozen)', 'ensures': UNCHANGED},
                'ValueError': {'ensures': UNCHANGED},
                'TypeError': {'ensures': UNCHANGED}},
        modifies=['self.d', 'self._autogen_category_counter']))
    units['add_context_category'] = FunctionUnit(c_add)

    # ---- frozen flag / unknown specs / categories ---------------------------------------------------------------
    def setter(meth, field, arg):
        def setup(it):
            return {'self': mk_db(it), arg: AbsVal(z3.Int('newspec'), 'spec')}
        c = reg.add(Contract(
            DB + '.' + meth, setup=setup, requires=DB_INV,
            ensures=[('stores-the-spec', 'self.%s is %s' % (field, arg)), ('was-not-frozen', 'not old(self.frozen)')] + DB_INV,
            raises={'RuntimeError': {'when': 'old(self.frozen)',
                                     'ensures': [('unknown-spec-unchanged', 'self.%s is old(self.%s)' % (field, field))]}},
            modifies=['self.' + field]))
        units[meth] = FunctionUnit(c)
    setter('set_unknown_macro_spec', 'unknown_macro_spec', 'macrospec')
    setter('set_unknown_environment_spec', 'unknown_environment_spec', 'environmentspec')
    setter('set_unknown_specials_spec', 'unknown_specials_spec', 'specialsspec')

    c_freeze = reg.add(Contract(DB + '.freeze', setup=lambda it: {'self': mk_db(it)}, requires=DB_INV,
                                ensures=[('frozen', 'self.frozen == True')] + DB_INV, modifies=['self.frozen']))
    units['freeze'] = FunctionUnit(c_freeze)

    c_cats = reg.add(Contract(DB + '.categories', setup=lambda it: {'self': mk_db(it)}, requires=DB_INV,
                              ensures=[('a-copy-of-the-category-order', 'same_list(result, self.category_list) and '
                                                                        'result is not self.category_list')],
                              modifies=[]))
    units['categories'] = FunctionUnit(c_cats)

    # ---- lookups ---------------------------------------------------------------------------------------------------
    def lookup(meth, kind, arg, unk):
        def setup(it):
            nm = AbsVal(z3.Int('name'), 'name')
            it.ctx.register_input('name', 'int', nm.term)
            return {'self': mk_db(it), arg: nm, 'raise_if_not_found': sym_bool(it, 'raise_if_not_found')}

        def make_result(it, env):
            # used where the contract is assumed (e.g. by the tokenizer): some spec, or the unknown spec
            if it.ctx.branch(it.truth_term(env.vars['fnd'])):
                attrs = {'specials_chars': it.fresh_str('stored_specials_chars')} if kind == 'specials' else {}
                return AbsVal(it.ctx.fresh_int('spec'), 'spec', attrs=attrs, methods=SPEC_METHODS)
            return env.vars['self'].fields[unk]
        DD = "D(self, '%s', cat_at(self, %%s))" % kind
        c = reg.add(Contract(
            DB + '.' + meth, setup=setup, requires=DB_INV,
            ghost={'fnd': ('bool', 'found()'), 'hitidx': ('int', 'hit() if found() else 0')},
            result_make=make_result,
            ensures=[
                ('first-category-in-order-that-defines-the-name',
                 'implies(fnd, 0 <= hitidx and hitidx < len(self.category_list) and has_(%s, %s) and '
                 'forall(0, hitidx, lambda j: not has_(%s, %s)) and code(result) == val_(%s, %s))'
                 % (DD % 'hitidx', arg, DD % 'j', arg, DD % 'hitidx', arg)),
                ('otherwise-the-unknown-spec',
                 'implies(not fnd, forall(0, len(self.category_list), lambda j: not has_(%s, %s)) and '
                 'result is self.%s and not raise_if_not_found)' % (DD % 'j', arg, unk)),
            ],
            raises={'KeyError': {'when': 'raise_if_not_found',
                                 'ensures': [('only-when-no-category-defines-it',
                                              'forall(0, len(self.category_list), lambda j: not has_(%s, %s))'
                                              % (DD % 'j', arg))]}},
            modifies=[]))
        units[meth] = FunctionUnit(c)
    lookup('get_macro_spec', 'macros', 'macroname', 'unknown_macro_spec')
    lookup('get_environment_spec', 'environments', 'environmentname', 'unknown_environment_spec')


    lookup('get_specials_spec', 'specials', 'specials_chars', 'unknown_specials_spec')

    # ---- test_for_specials: longest match over all categories ---------------------------------------------------
    def setup_tfs(it):
        s = sym_str(it, 's')
        pos = sym_int(it, 'pos', lo=0)
        return {'self': mk_db(it, unknowns=False), 's': s, 'pos': pos, 'parsing_state': None}

    def mk_best(it, hint):
        if it.ctx.choose(2, 'best match so far') == 0:
            return None
        return AbsVal(it.ctx.fresh_int('best'), 'spec', attrs={'specials_chars': it.fresh_str('best_chars')}, methods=SPEC_METHODS)

    reg.spec('DS')(lambda it, db, i: db.fields['d'].arrs['specials'][db.fields['category_list'].arr[zint(i)]])
    reg.spec('key_at')(lambda it, db, i, j: key_str(db.fields['d'].arrs['specials'][db.fields['category_list'].arr[zint(i)]], j))
    reg.spec('nkeys')(lambda it, db, i: n_keys(db.fields['d'].arrs['specials'][db.fields['category_list'].arr[zint(i)]]))

    BEST = [('best-length-nonnegative', 'best_match_len >= 0'),
            ('no-best-iff-length-zero', '(best_match_s is None) == (best_match_len == 0)'),
            ('best-matches-here', 'best_match_s is None or (s.startswith(best_match_s.specials_chars, pos) and '
                                  'len(best_match_s.specials_chars) == best_match_len)')]
    SEEN = ('forall(0, %s, lambda i: forall(0, nkeys(self, i), lambda j: '
            'implies(s.startswith(key_at(self, i, j), pos), len(key_at(self, i, j)) <= best_match_len)))')
    c_tfs = reg.add(Contract(
        DB + '.test_for_specials', setup=setup_tfs,
        result_make=lambda it, env: mk_best(it, 'result'),
        ensures=[
            ('result-matches-at-pos', 'result is None or (s.startswith(result.specials_chars, pos) and '
                                      'len(result.specials_chars) >= 1)'),
            ('none-means-no-specials-here',
             'implies(result is None, forall(0, len(self.category_list), lambda i: forall(0, nkeys(self, i), '
             'lambda j: not (len(key_at(self, i, j)) >= 1 and s.startswith(key_at(self, i, j), pos)))))'),
            ('longest-match-over-all-categories',
             'implies(result is not None, forall(0, len(self.category_list), lambda i: forall(0, nkeys(self, i), '
             'lambda j: implies(s.startswith(key_at(self, i, j), pos), '
             'len(key_at(self, i, j)) <= len(result.specials_chars)))))'),
        ],
        modifies=[]))
    reg.add_loop(LoopContract(
        DB + '.test_for_specials', 0, index='ci', havoc={'best_match_s': mk_best},
        invariant=BEST + [('earlier-categories-are-no-longer', SEEN % 'ci')]))
    reg.add_loop(LoopContract(
        DB + '.test_for_specials', 1, index='ki', havoc={'best_match_s': mk_best},
        invariant=BEST + [('earlier-categories-are-no-longer', SEEN % 'ci'),
                          ('earlier-keys-of-this-category-are-no-longer',
                           'forall(0, ki, lambda j: implies(s.startswith(key_at(self, ci, j), pos), '
                           'len(key_at(self, ci, j)) <= best_match_len))')]))
    units['test_for_specials'] = FunctionUnit(c_tfs)


    # ---- extended_with: copy-on-derive -----------------------------------------------------------------------------
    reg.add(Contract(
        DB + '._get_new_autogen_category',
        result_make=lambda it, env: (it.ctx.fresh_int('counter'), mk_cat(it.ctx.fresh_int('autocat'))),
        ensures=[('fresh-auto-name', 'not (result[1] in self.category_list) and result[1].startswith("x")')],
        modifies=['self._autogen_category_counter'],
        note='assumed: builds "__lctxdb_cat_<n>" strings in a loop until the name is unused (not verified)'))

    def setup_ext(it):
        ctx = it.ctx
        db = mk_db(it, unknowns=False)
        cat = None if ctx.choose(2, 'category given') == 0 else mk_cat(z3.Int('category'))

        def maybe(nm):
            return None if ctx.choose(2, nm + ' given') == 0 else abslist(it, nm)
        return {'self': db, 'category': cat, 'macros': abslist(it, 'macros'), 'environments': maybe('environments'),
                'specials': abslist(it, 'specials'), 'create_class': None, 'kwargs': PyDict()}

    RINV = [(n, c.replace('self', 'result')) for n, c in DB_INV]
    OLDC = 'old(self.category_list)'

    @reg.spec('same_D')
    def same_D(it, a, b_catmap, except_cat=None):
        """D_k(a, c) == D_k(b, c) for every kind k and every category c (other than except_cat)"""
        out = []
        c = z3.Int('sd!%d' % it.ctx.next_id())
        for k in KINDS:
            body = a.fields['d'].arrs[k][c] == b_catmap.arrs[k][c]
            if except_cat is not None:
                body = z3.Or(c == zint(except_cat), body)
            out.append(z3.ForAll([c], body))
        return z_and(*out)

    @reg.spec('maps_unchanged')
    def maps_unchanged(it, db, old_maps):
        return z_and(*[same_list(it, db.fields['lookup_chain_maps'].items[k].maps, old_maps.items[k]) for k in KINDS])

    @reg.spec('merged_first')
    def merged_first(it, res, db_old_d, c0):
        """the leading auto category of the result defines what it defined before plus the new specs"""
        out = []
        k = z3.Int('mf!%d' % it.ctx.next_id())
        for kind in KINDS:
            nd = res.fields['d'].arrs[kind][zint(c0)]
            od = db_old_d.arrs[kind][zint(c0)]
            out.append(z3.ForAll([k], z3.Implies(has(od, k), has(nd, k))))
        return z_and(*out)

    @reg.spec('only_new_dictionaries_updated')
    def only_new_dictionaries_updated(it):
        """every dictionary updated in place was created (or copied) during this call: none that the parent database, its
        category dictionaries or its chain maps hold is touched"""
        fresh = [str(t) for t in it.ctx.ghost.get('fresh_dicts', [])]
        return all(str(t) in fresh for t in it.ctx.ghost.get('dict_updates', []))

    c_ext = reg.add(Contract(
        DB + '.extended_with', setup=setup_ext, requires=DB_INV,
        pre_state=lambda it, vars_: vars_.update(
            OLDMAPS=PyDict({k: PyList(None, vars_['self'].fields['lookup_chain_maps'].items[k].maps.length,
                                      vars_['self'].fields['lookup_chain_maps'].items[k].maps.arr, 'maps', DICT_CODEC)
                            for k in KINDS})),
        ensures=[
            ('a-new-frozen-object', 'result is not self and result.frozen == True'),
            ('parent-category-order-unchanged', 'same_list(self.category_list, %s)' % OLDC),
            ('parent-definitions-unchanged', 'same_D(self, old(self.d))'),
            ('parent-chain-maps-unchanged', 'maps_unchanged(self, OLDMAPS)'),
            ('parent-still-frozen', 'self.frozen == old(self.frozen)'),
            ('internal:no-dictionary-of-the-parent-is-updated-in-place', 'only_new_dictionaries_updated()'),
            ('category-order-of-the-result',
             'same_list(result.category_list, %s) if (category is None and len(%s) > 0 and '
             'cat_is_auto(%s, 0)) else (len(result.category_list) == len(%s) + 1 and '
             'forall(0, len(%s), lambda j: cat_at(result, j + 1) == cat_at(self, j)))' % (OLDC, OLDC, OLDC, OLDC, OLDC)),
            ('other-categories-keep-their-definitions',
             'same_D(result, old(self.d), cat_at(result, 0))'),
            ('merged-category-keeps-its-old-definitions',
             'implies(category is None and len(%s) > 0 and cat_is_auto(%s, 0), '
             'merged_first(result, old(self.d), cat_at(self, 0)))' % (OLDC, OLDC)),
        ] + RINV,
        raises={'ValueError': {'when': 'category is not None and category in %s' % OLDC, 'ensures': []},
                'RuntimeError': {'when': 'not old(self.frozen)', 'ensures': []}},
        modifies=['self._autogen_category_counter']))
    reg.spec('cat_is_auto')(lambda it, lst, i: AUTOGEN(lst.arr[zint(i)]))
    units['extended_with'] = FunctionUnit(c_ext, inline={DB + '.__init__'})

    for k in units:
        contracts.REPLAYERS[k] = replay
    return {'C14': units}


NATIVE = PRELUDE + r'''
from pylatexenc.macrospec import LatexContextDb, MacroSpec, EnvironmentSpec, SpecialsSpec

def look(db, kind, name):
    """the property's definition: first category, in reported order, that defines the name"""
    for c in db.categories():
        if name in db.d[c][kind]:
            return db.d[c][kind][name]
    return {"macros": db.unknown_macro_spec, "environments": db.unknown_environment_spec,
            "specials": db.unknown_specials_spec}[kind]

def check_db(db, what):
    for name in ("a", "b", "c", "zz"):
        if db.get_macro_spec(name) is not look(db, "macros", name):
            return "%s: get_macro_spec(%r) is not the definition of the first category in %r" % (what, name, db.categories())
        if db.get_environment_spec(name) is not look(db, "environments", name):
            return "%s: get_environment_spec(%r) wrong for category order %r" % (what, name, db.categories())
    for name in ("~", "``", "`"):
        if db.get_specials_spec(name) is not look(db, "specials", name):
            return "%s: get_specials_spec(%r) wrong for category order %r" % (what, name, db.categories())
    for s in ("``x", "`x", "~", "x", ""):
        got = db.test_for_specials(s, 0)
        best = None
        for c in db.categories():
            for k, v in db.d[c]["specials"].items():
                if k and s.startswith(k) and (best is None or len(k) > len(best.specials_chars)):
                    best = v
        if (got is None) != (best is None) or (got is not None and (len(got.specials_chars) != len(best.specials_chars)
                                                                    or not s.startswith(got.specials_chars) or not got.specials_chars)):
            return "%s: test_for_specials(%r) returned %r, longest match is %r" % (what, s, got, best)

def cat(i):
    return dict(macros=[MacroSpec(n, "{") for n in "abc"[i % 3:]], environments=[EnvironmentSpec(n) for n in "abc"[:1 + i % 3]],
                specials=[SpecialsSpec(x) for x in (["~", "`"], ["``"], ["`", "~"])[i % 3]])

def build(seq, anchor):
    db = LatexContextDb()
    names = []
    for i, op in enumerate(seq):
        nm = "C%d" % i
        ref = names[min(anchor, len(names) - 1)] if names else "nope"
        kw = {"append": {}, "prepend": {"prepend": True}, "before": {"insert_before": ref},
              "after": {"insert_after": ref}}[op]
        db.add_context_category(nm, **dict(cat(i), **kw))
        names = db.categories()
    return db

def histories():
    import itertools
    ops = ["append", "prepend", "before", "after"]
    for n in range(1, 5):
        for seq in itertools.product(ops, repeat=n):
            for anchor in range(2):
                yield build(seq, anchor), "history %r (anchor %d)" % (seq, anchor)

def search():
    for db, what in histories():
        m = check_db(db, what)
        if m: return m
        db.set_unknown_macro_spec(MacroSpec(""))
        db.freeze()
        try:
            db.add_context_category("X")
            return what + ": a frozen database accepted add_context_category"
        except RuntimeError:
            pass
        before = [(n, db.get_macro_spec(n)) for n in "abc"]
        e = db.extended_with(macros=[MacroSpec("a")])
        f = db.filtered_context(exclude_categories=["C0"])
        e2 = e.extended_with(macros=[MacroSpec("b")], specials=[SpecialsSpec("``")])
        f2 = f.filtered_context(keep_which=["macros"])
        for x, w in ((e, "extended"), (f, "filtered"), (e2, "extended twice"), (f2, "filtered twice")):
            m = check_db(x, what + " then " + w)
            if m: return m
        if before != [(n, db.get_macro_spec(n)) for n in "abc"]:
            return what + ": deriving a database changed the answers of the original"
'''


def replay(o, model):
    return NATIVE + '''
m = search()
if m: reproduced(m)
not_reproduced()
'''
