"""C11 (and the token layer of C01/C05/C06/C10) -- latexnodes/_tokenreader.py.

All parsing-state switches are symbolic at once: the enable_* flags are free booleans,
the delimiter tables are symbolic (sets of characters as predicates, the math delimiter
list as a symbolic-length sequence of non-empty symbolic strings), the escape character
is an arbitrary single character, the context database is absent or present.
"""
import z3

from pyvc import values as V
from pyvc.values import (Obj, PyDict, PyList, CharSet, StrBase, SStr, is_str, zint, simp,
                         z_and, z_or, z_not)
from pyvc.contracts import (Contract, LoopContract, FunctionUnit, LemmaUnit, sym_int, sym_str,
                            sym_bool, new_obj, resolve_class)
from pyvc.smt import EngineError, forall_range
from pyvc.replay import PRELUDE, model_str, model_int

TR = 'pylatexenc.latexnodes._tokenreader.LatexTokenReader'
TRB = 'pylatexenc.latexnodes._tokenreaderbase.LatexTokenReaderBase'
TOK = 'pylatexenc.latexnodes._token.LatexToken'
PS = 'pylatexenc.latexnodes._parsingstate.ParsingState'
CTXDB = 'pylatexenc.macrospec._latexcontextdb.LatexContextDb'
SPECIALS = 'pylatexenc.macrospec._specclasses.SpecialsSpec'
TPE = 'pylatexenc.latexnodes._exctypes.LatexWalkerTokenParseError'
EOS = 'pylatexenc.latexnodes._exctypes.LatexWalkerEndOfStream'


# ---------------------------------------------------------------------------
# symbolic parsing state
# ---------------------------------------------------------------------------
class SymStrPairList(object):
    """parsing_state._math_all_delims_by_len: a sequence of (delimiter, token kind) pairs of
    unknown length; delimiters are arbitrary NON-EMPTY strings, sorted by non-increasing
    length (this is the table contract established by ParsingState, see C17/C10)."""

    def __init__(self, it, name):
        self.name = name
        self.n = z3.Int(name + '.n')
        self.chars = z3.Array(name + '.chars', z3.IntSort(), z3.ArraySort(z3.IntSort(), z3.IntSort()))
        self.lens = z3.Array(name + '.lens', z3.IntSort(), z3.IntSort())
        self.tchars = z3.Array(name + '.tchars', z3.IntSort(), z3.ArraySort(z3.IntSort(), z3.IntSort()))
        self.tlens = z3.Array(name + '.tlens', z3.IntSort(), z3.IntSort())
        self.it = it
        self.axioms_done = False

    def axioms(self):
        """the table contract, asserted when the table is first looked at"""
        if self.axioms_done:
            return
        self.axioms_done = True
        ctx = self.it.ctx
        name = self.name
        ctx.assume(self.n >= 0)
        ctx.assume(forall_range(ctx, 0, self.n, lambda i: z3.And(self.lens[i] >= 1, self.tlens[i] >= 0), 'dl'))
        # token kinds in the table are exactly the two literals the real table is built from
        ctx.assume(forall_range(ctx, 0, self.n, lambda i: V.zbool(z_or(
            V.seq_eq(ctx, self._tok(i), 'mathmode_inline'), V.seq_eq(ctx, self._tok(i), 'mathmode_display'))), 'dl'))
        ctx.assume(forall_range(ctx, 0, self.n, lambda i: forall_range(
            ctx, i, self.n, lambda k: self.lens[i] >= self.lens[k], 'dk'), 'dl'))
        ctx.register_input(name + '.n', 'int', self.n)
        for j in range(3):
            ctx.register_input('%s[%d]' % (name, j), 'str', (self.chars[j], self.lens[j]))

    def delim(self, i):
        self.axioms()
        i = zint(i)
        return StrBase('%s[%s]' % (self.name, i), arr=self.chars[i], length=self.lens[i]).whole()

    def tok(self, i):
        self.axioms()
        return self._tok(i)

    def _tok(self, i):
        i = zint(i)
        return StrBase('%s.tok[%s]' % (self.name, i), arr=self.tchars[i], length=self.tlens[i]).whole()

    def pyvc_seq(self, it):
        self.axioms()
        return (self.n, lambda i: (self.delim(i), self.tok(i)))

    def pyvc_len(self, it):
        self.axioms()
        return self.n

    def pyvc_iter(self, it):
        raise EngineError('iteration over the symbolic math delimiter table needs the loop contract')


class StrSetAbs(object):
    """a set/dict keyed by strings of which only membership is used: unknown membership per (syntactically
    distinct) string"""
    def __init__(self, name):
        self.name = name

    def pyvc_contains(self, it, item):
        memo = it.ctx.ghost.setdefault('strset:' + self.name, {})
        k = V.str_key(item) if is_str(item) else repr(item)
        if k not in memo:
            memo[k] = it.ctx.fresh_bool(self.name + '.has')
        return memo[k]


def charset(it, name):
    f = z3.Function(name, z3.IntSort(), z3.BoolSort())
    return CharSet(lambda code: f(zint(code)), name)


def mk_specials_spec(it, hint):
    chars = it.fresh_str(hint + '.specials_chars')
    it.ctx.assume(zint(V.slen(chars)) >= 1)
    from contracts.contextdb import SPEC_METHODS
    return V.AbsVal(it.ctx.fresh_int(hint), 'spec', attrs={'specials_chars': chars}, methods=SPEC_METHODS)


def mk_parsing_state(it, name='parsing_state', with_context=None, db_inv=False):
    """A ParsingState satisfying PS_inv with every switch symbolic."""
    ctx = it.ctx
    f = {}
    for flag in ('enable_double_newline_paragraphs', 'enable_macros', 'enable_environments',
                 'enable_comments', 'enable_groups', 'enable_specials', 'enable_math', 'in_math_mode'):
        f[flag] = sym_bool(it, '%s.%s' % (name, flag))
    esc = sym_str(it, name + '.macro_escape_char')
    ctx.assume(zint(V.slen(esc)) == 1)
    f['macro_escape_char'] = esc
    cs = sym_str(it, name + '.comment_start')
    ctx.assume(zint(V.slen(cs)) >= 1)
    f['comment_start'] = cs
    f['macro_alpha_chars'] = charset(it, name + '.macro_alpha_chars')
    f['forbidden_characters'] = charset(it, name + '.forbidden_characters')
    f['_math_delims_info_startchars'] = charset(it, name + '._math_delims_info_startchars')
    f['_latex_group_delimchars_by_open'] = charset(it, name + '._latex_group_delimchars_by_open')
    f['_latex_group_delimchars_close'] = charset(it, name + '._latex_group_delimchars_close')
    f['_math_all_delims_by_len'] = SymStrPairList(it, name + '._math_all_delims_by_len')
    f['_math_delims_info_by_open'] = StrSetAbs(name + '._math_delims_info_by_open')
    # expected closing delimiter: None, or {'close_delim': non-empty str, 'tok': kind}; decided when first read
    def expect(it2):
        c = it2.ctx
        if c.choose(2, 'expecting close delim') == 0:
            return None
        cd = sym_str(it2, name + '.expect.close_delim')
        c.assume(zint(V.slen(cd)) >= 1)
        tk = 'mathmode_inline' if c.choose(2, 'expected close kind') == 0 else 'mathmode_display'
        return PyDict({'close_delim': cd, 'tok': tk})
    f['_math_expecting_close_delim_info'] = V.LazyField(expect)

    def context(it2):
        if it2.ctx.choose(2, 'latex_context present') == 0:
            return None
        from contracts.contextdb import mk_db
        return mk_db(it2, name=name + '.latex_context', unknowns=False, assume_inv=db_inv)
    if with_context is None:
        f['latex_context'] = V.LazyField(context)
    elif with_context:
        from contracts.contextdb import mk_db
        f['latex_context'] = mk_db(it, name=name + '.latex_context', unknowns=False, assume_inv=db_inv)
    else:
        f['latex_context'] = None
    o = new_obj(it, PS, f, tag=name)
    o.open = True
    return o


def mk_reader(it, name='self'):
    s = sym_str(it, 's')
    pos = sym_int(it, '_pos')
    it.ctx.assume(z3.And(pos >= 0, pos <= zint(V.slen(s))))
    return new_obj(it, TR, {'s': s, '_pos': pos, 'tolerant_parsing': sym_bool(it, 'tolerant_parsing')}, tag=name)


def mk_token(it, tok, arg, pos, pos_end, pre_space, post_space=''):
    fields = PyList(['tok', 'arg', 'pos', 'pos_end', 'pre_space'])
    o = new_obj(it, TOK, {'tok': tok, 'arg': arg, 'pos': pos, 'pos_end': pos_end, 'pre_space': pre_space,
                          'post_space': post_space, '_fields': fields}, tag='token', is_input=False)
    return o


def dict_env(env, **kw):
    class E(object):
        pass
    e = E()
    e.vars = dict(env.vars)
    e.vars.update(kw)
    return e


def all_space(it, x):
    return V.str_all(it.ctx, x, lambda c: V.char_pred('isspace', c), memo='isspace')


# ---------------------------------------------------------------------------
def register(reg):
    import contracts
    units = {}

    reg.spec('all_space')(lambda it, x: all_space(it, x))
    reg.spec('is_obj')(lambda it, x: isinstance(x, (Obj, V.AbsVal)))
    reg.spec('newlines')(lambda it, x: it.B.str_count(it, x, '\n'))
    reg.spec('delim_at')(lambda it, ps, i: ps.fields['_math_all_delims_by_len'].delim(i))
    reg.spec('tok_at')(lambda it, ps, i: ps.fields['_math_all_delims_by_len'].tok(i))
    reg.spec('n_delims')(lambda it, ps: ps.fields['_math_all_delims_by_len'].pyvc_len(it))

    # ---------------- environment-name regular expression (A-LIB) -------------------------------
    class SymMatch(object):
        def __init__(self, it, subj):
            ctx = it.ctx
            n = V.slen(subj)
            self.subj = subj
            self.a = ctx.fresh_int('rx_open')      # index of '{'
            self.e = ctx.fresh_int('rx_end')       # match end (one past '}')
            a, e = self.a, self.e
            ctx.assume(z3.And(a >= 0, a + 3 <= e, e <= zint(n)))
            ctx.assume(all_space(it, V.sslice(ctx, subj, 0, a)))
            ctx.assume(zint(V.char_at(subj, a)) == ord('{'))
            ctx.assume(zint(V.char_at(subj, e - 1)) == ord('}'))

        def pyvc_getattr(self, it, name):
            from pyvc.values import Builtin
            if name == 'end':
                return Builtin('match.end', lambda it2, a, k: self.e)
            if name == 'start':
                return Builtin('match.start', lambda it2, a, k: 0)
            if name == 'group':
                def grp(it2, a, k):
                    if a and a[0] == 'environmentname':
                        return V.sslice(it2.ctx, self.subj, simp(self.a + 1), simp(self.e - 1))
                    raise EngineError('match.group(%r)' % (a,))
                return Builtin('match.group', grp)
            raise EngineError('match.%s' % name)

    def regex_hook(it, rv, name, args, kwargs):
        if name == 'match' and isinstance(rv.pattern, str) and 'environmentname' in rv.pattern \
                and rv.pattern.startswith(r'\s*\{') and rv.pattern.endswith(r'\}'):
            if it.ctx.choose(2, 'environment name regex matches') == 1:
                return None
            return SymMatch(it, args[0])
        return NotImplemented
    reg.regex_hook = regex_hook

    # The model above is tied to the REAL pattern: the pattern text is read from the class body of LatexTokenReader on every run,
    # compiled, and compared with the documented reading of it -- optional whitespace, '{', a non-empty name over the allowed
    # characters, '}' -- on every string up to length 5 over {space, newline, '{', '}', 'a', '*', '%'} (a bounded validator of an
    # assumed library contract, like the ones of pyvc.selftest; a pattern rewritten into an equivalent one passes)
    def lemma_envname_pattern(it):
        import ast as _ast, itertools, os, re as _re
        path = os.path.join(it.program.root, 'pylatexenc/latexnodes/_tokenreader.py')
        pat = None
        for n in _ast.walk(_ast.parse(open(path, encoding='utf-8').read())):
            if isinstance(n, _ast.Assign) and any(isinstance(t, _ast.Name) and t.id == 'rx_environment_name' for t in n.targets) \
                    and isinstance(n.value, _ast.Call) and n.value.args and isinstance(n.value.args[0], _ast.Constant):
                pat = n.value.args[0].value
        it.ctx.prove('environment-name-pattern: LatexTokenReader.rx_environment_name is a compiled literal pattern', isinstance(pat, str), 'table')
        if not isinstance(pat, str):
            return
        rx = _re.compile(pat)
        allowed = set('abcdefghijklmnopqrstuvwxyzABCDEFGHIJKLMNOPQRSTUVWXYZ0123456789*._ :/!^()[]-')

        def reference(s):
            i = 0
            while i < len(s) and s[i].isspace():
                i += 1
            if i >= len(s) or s[i] != '{':
                return None
            j = i + 1
            while j < len(s) and s[j] in allowed:
                j += 1
            if j == i + 1 or j >= len(s) or s[j] != '}':
                return None
            return (j + 1, s[i + 1:j])
        bad = []
        for n in range(0, 6):
            for t in itertools.product(' \n{}a*%', repeat=n):
                s_ = ''.join(t)
                m = rx.match(s_)
                got = None if m is None else (m.end(), m.groupdict().get('environmentname'))
                if got != reference(s_):
                    bad.append((s_, got, reference(s_)))
                    break
            if bad:
                break
        it.ctx.prove('environment-name-pattern: the real pattern reads optional whitespace, an opening brace, a non-empty name of '
                     'allowed characters and a closing brace (all strings up to length 5 over 7 characters)', not bad, 'table',
                     src='first difference (string, real pattern, documented reading): %r' % (bad[:1],))
    units['environment-name-pattern'] = LemmaUnit('environment-name-pattern', lemma_envname_pattern,
                                                  functions=[TR + '.impl_read_environment'])

    # ---------------- impl_peek_space_chars --------------------------------------------------------
    def setup_space(it):
        s = sym_str(it, 's')
        pos = sym_int(it, 'pos')
        return {'self': mk_reader_plain(it), 's': s, 'pos': pos, 'parsing_state': None}

    def mk_reader_plain(it):
        return new_obj(it, TR, {'s': it.fresh_str('self_s'), '_pos': it.ctx.fresh_int('self_pos'),
                                'tolerant_parsing': it.ctx.fresh_bool('tol')}, tag='self')

    c_space = reg.add(Contract(
        TR + '.impl_peek_space_chars', setup=setup_space,
        requires=[('pos-in-range', '0 <= pos and pos <= len(s)')],
        ghost={'r': ('int', 'result[2]')},
        result_expr='(s[pos:r], pos, r)',
        ensures=[('end-in-range', 'pos <= r and r <= len(s)'),
                 ('only-whitespace', 'forall(pos, r, lambda k: s[k].isspace())'),
                 ('maximal', 'r == len(s) or not s[r].isspace()')],
        modifies=[]))
    reg.add_loop(LoopContract(
        TR + '.impl_peek_space_chars', 0,
        invariant=[('p2-in-range', 'pos <= p2 and p2 <= len(s)'),
                   ('only-whitespace', 'forall(pos, p2, lambda k: s[k].isspace())')],
        define={'space': 's[pos:p2]'},
        variant='len(s) - p2'))
    units['impl_peek_space_chars'] = FunctionUnit(c_space)

    # ---------------- impl_read_macro ------------------------------------------------------------------
    def setup_macro(it):
        s = sym_str(it, 's')
        pos = sym_int(it, 'pos')
        p0 = sym_int(it, 'p0')
        it.ctx.assume(z3.And(p0 >= 0, p0 <= pos))
        ps = mk_parsing_state(it, with_context=False)
        return {'self': mk_reader_plain(it), 's': s, 'pos': pos, 'parsing_state': ps,
                'pre_space': V.sslice(it.ctx, s, p0, pos)}

    def make_macro_token(it, env):
        v = env.vars
        n = it.ctx.fresh_int('macro_namelen')
        e = it.ctx.fresh_int('macro_end')
        s, pos = v['s'], v['pos']
        return mk_token(it, 'macro', V.sslice(it.ctx, s, simp(pos + 1), simp(pos + 1 + n)), pos, e, v['pre_space'],
                        V.sslice(it.ctx, s, simp(pos + 1 + n), e))

    def make_tpe(it, env, placeholder=None):
        cls = resolve_class(it, TPE)
        v = env.vars
        if placeholder is None:
            pe = it.ctx.fresh_int('recovery_pos_end')
            placeholder = mk_token(it, 'char', it.fresh_str('recovery_arg'), v['pos'], pe, v['pre_space'])
        o = Obj(cls, {'recovery_token_placeholder': placeholder,
                      'recovery_token_at_pos': it.ctx.fresh_int('recovery_at'),
                      's': v.get('s'), 'pos': it.ctx.fresh_int('errpos'), 'msg': it.fresh_str('msg'),
                      'lineno': None, 'colno': None, 'error_type_info': PyDict({}), 'open_contexts': PyList([]),
                      'input_source': None, 'args': ()}, tag='exc')
        return o

    RECOVERY = [
        ('recovery-token-starts-at-pos', 'exc.recovery_token_placeholder.pos == pos'),
        ('recovery-token-advances',
         'exc.recovery_token_placeholder.pos < exc.recovery_token_placeholder.pos_end '
         'and exc.recovery_token_placeholder.pos_end <= len(s)'),
        ('resume-at-recovery-token-end', 'exc.recovery_token_at_pos == exc.recovery_token_placeholder.pos_end'),
        ('recovery-token-keeps-pre-space', 'exc.recovery_token_placeholder.pre_space == pre_space'),
        ('recovery-token-content-is-source',
         'exc.recovery_token_placeholder.arg == s[pos:exc.recovery_token_placeholder.pos_end]'),
        ('error-pos-in-input', 'exc.pos is not None and 0 <= exc.pos and exc.pos <= len(s)'),
    ]

    MACRO_POST = [
        ('kind-pos-prespace', "result.tok == 'macro' and result.pos == pos and result.pre_space == pre_space"),
        ('name-nonempty', 'len(result.arg) >= 1'),
        ('name-is-source', 'result.arg == s[pos+1 : pos+1+len(result.arg)]'),
        ('post-space-is-source', 'result.post_space == s[pos+1+len(result.arg) : result.pos_end]'),
        ('end-in-range', 'pos + 1 + len(result.arg) <= result.pos_end and result.pos_end <= len(s)'),
        ('post-space-is-whitespace', 'all_space(result.post_space)'),
        ('post-space-has-no-paragraph-break', 'newlines(result.post_space) < 2'),
        ('non-alpha-name-is-one-char',
         'implies(not (s[pos+1] in parsing_state.macro_alpha_chars), len(result.arg) == 1 and result.post_space == "")'),
        ('alpha-name-is-maximal',
         'implies(s[pos+1] in parsing_state.macro_alpha_chars, '
         'forall(pos+1, pos+1+len(result.arg), lambda q: s[q] in parsing_state.macro_alpha_chars) and '
         '(pos+1+len(result.arg) == len(s) or not (s[pos+1+len(result.arg)] in parsing_state.macro_alpha_chars)))'),
    ]
    c_macro = reg.add(Contract(
        TR + '.impl_read_macro', setup=setup_macro,
        requires=[('pos-in-range', '0 <= pos and pos < len(s)'),
                  ('at-escape-char', 's[pos] == parsing_state.macro_escape_char'),
                  ('pre-space-is-source', 'pre_space == s[pos-len(pre_space):pos] and len(pre_space) <= pos')],
        result_make=make_macro_token,
        ensures=MACRO_POST,
        raises={TPE: {'when': 'pos + 1 >= len(s)', 'make': make_tpe, 'ensures': RECOVERY}},
        modifies=[]))
    reg.add_loop(LoopContract(
        TR + '.impl_read_macro', 0,
        invariant=[('posi-in-range', 'pos + 2 <= posi and posi <= len(s)'),
                   ('name-chars-alpha', 'forall(pos+1, posi, lambda q: s[q] in parsing_state.macro_alpha_chars)')],
        define={'macro': 's[pos+1:posi]'},
        variant='len(s) - posi'))
    units['impl_read_macro'] = FunctionUnit(c_macro)


    def recovery(S):
        return [(n, c.replace('len(s)', 'len(%s)' % S).replace(' s[', ' %s[' % S)) for n, c in RECOVERY]

    PRE_SPACE_REQ = ('pre-space-is-source', 'pre_space == s[pos-len(pre_space):pos] and len(pre_space) <= pos')

    # ---------------- impl_read_comment ----------------------------------------------------------------
    def make_comment_token(it, env):
        v = env.vars
        s, pos = v['s'], v['pos']
        L = V.slen(v['parsing_state'].fields['comment_start'])
        n = it.ctx.fresh_int('comment_len')
        e = it.ctx.fresh_int('comment_end')
        it.ctx.assume(n >= 0)
        a = simp(zint(pos) + zint(L))
        return mk_token(it, 'comment', V.sslice(it.ctx, s, a, simp(a + n)), pos, e, v['pre_space'],
                        V.sslice(it.ctx, s, simp(a + n), e))

    CS = 'len(parsing_state.comment_start)'
    c_comment = reg.add(Contract(
        TR + '.impl_read_comment', setup=setup_macro,
        requires=[('pos-in-range', '0 <= pos and pos < len(s)'),
                  ('at-comment-start', 's.startswith(parsing_state.comment_start, pos)'), PRE_SPACE_REQ],
        result_make=make_comment_token,
        ensures=[
            ('kind-pos-prespace', "result.tok == 'comment' and result.pos == pos and result.pre_space == pre_space"),
            ('text-is-source', 'result.arg == s[pos+%s : pos+%s+len(result.arg)]' % (CS, CS)),
            ('post-space-is-source', 'result.post_space == s[pos+%s+len(result.arg) : result.pos_end]' % CS),
            ('end-in-range', 'pos + %s + len(result.arg) <= result.pos_end and result.pos_end <= len(s)' % CS),
            ('text-has-no-newline', "forall(pos+%s, pos+%s+len(result.arg), lambda q: s[q] != '\\n')" % (CS, CS)),
            ('text-ends-at-newline-or-eof',
             "pos+%s+len(result.arg) == len(s) or s[pos+%s+len(result.arg)] == '\\n'" % (CS, CS)),
            ('post-space-is-whitespace', 'all_space(result.post_space)'),
            ('post-space-has-no-paragraph-break', 'newlines(result.post_space) < 2'),
        ],
        modifies=[]))
    units['impl_read_comment'] = FunctionUnit(c_comment)

    # ---------------- impl_char_token --------------------------------------------------------------------
    def setup_char(it):
        self = mk_reader(it)
        s = self.fields['s']
        pos = sym_int(it, 'pos')
        p0 = sym_int(it, 'p0')
        it.ctx.assume(z3.And(p0 >= 0, p0 <= pos, pos < zint(V.slen(s))))
        ps = mk_parsing_state(it, with_context=False)
        return {'self': self, 'c': V.sslice(it.ctx, s, pos, simp(pos + 1)), 'pos': pos, 'pos_end': simp(pos + 1),
                'parsing_state': ps, 'pre_space': V.sslice(it.ctx, s, p0, pos)}

    def make_char_token(it, env):
        v = env.vars
        return mk_token(it, 'char', v['c'], v['pos'], v['pos_end'], v['pre_space'])

    c_char = reg.add(Contract(
        TR + '.impl_char_token', setup=setup_char,
        requires=[('span-in-range', '0 <= pos and pos < pos_end and pos_end <= len(self.s)'),
                  ('c-is-source', 'c == self.s[pos:pos_end] and len(c) == 1')],
        result_make=make_char_token,
        ensures=[('char-token', "result.tok == 'char' and result.arg == c and result.pos == pos and "
                                "result.pos_end == pos_end and result.pre_space == pre_space"),
                 ('not-forbidden', 'not (c in parsing_state.forbidden_characters)')],
        raises={TPE: {'when': 'c in parsing_state.forbidden_characters',
                      'make': lambda it, env: make_tpe(it, dict_env(env, s=env.vars['self'].fields['s'])),
                      'ensures': recovery('self.s')}},
        modifies=[]))
    units['impl_char_token'] = FunctionUnit(c_char)

    # ---------------- impl_maybe_read_math_mode_delimiter ------------------------------------------------------
    def make_delim_token(it, env):
        if it.ctx.choose(2, 'math delimiter or None') == 1:
            return None
        v = env.vars
        arg = it.fresh_str('delim')
        it.ctx.assume(zint(V.slen(arg)) >= 1)
        return mk_token(it, it.fresh_str('delim_tok'), arg, v['pos'], simp(zint(v['pos']) + zint(V.slen(arg))),
                        v['pre_space'])

    EXP = 'parsing_state._math_expecting_close_delim_info'
    EXPECT_HIT = ('(parsing_state.in_math_mode and %s is not None and '
                  "s.startswith(%s['close_delim'], pos))" % (EXP, EXP))
    c_math = reg.add(Contract(
        TR + '.impl_maybe_read_math_mode_delimiter', setup=setup_macro,
        requires=[('pos-in-range', '0 <= pos and pos <= len(s)')],
        result_make=make_delim_token,
        ensures=[
            ('token-span', 'result is None or (result.pos == pos and result.pre_space == pre_space and '
                           'len(result.arg) >= 1 and result.pos_end == pos + len(result.arg))'),
            ('token-is-source', 'result is None or s.startswith(result.arg, pos)'),
            ('token-kind', "result is None or result.tok == 'mathmode_inline' or result.tok == 'mathmode_display'"),
            ('expected-closing-delimiter-first',
             "implies(%s, result is not None and result.arg == %s['close_delim'] and result.tok == %s['tok'])"
             % (EXPECT_HIT, EXP, EXP)),
            ('none-means-no-delimiter-here',
             'implies(result is None, forall(0, n_delims(parsing_state), '
             'lambda i: not s.startswith(delim_at(parsing_state, i), pos)))'),
            ('longest-delimiter-wins',
             'implies(result is not None and not %s, forall(0, n_delims(parsing_state), '
             'lambda i: implies(s.startswith(delim_at(parsing_state, i), pos), '
             'len(delim_at(parsing_state, i)) <= len(result.arg))))' % EXPECT_HIT),
        ],
        modifies=[]))
    reg.add_loop(LoopContract(
        TR + '.impl_maybe_read_math_mode_delimiter', 0, index='j',
        invariant=[('no-earlier-match', 'forall(0, j, lambda q: not s.startswith(delim_at(parsing_state, q), pos))')]))
    units['impl_maybe_read_math_mode_delimiter'] = FunctionUnit(c_math)

    # ---------------- impl_read_environment -----------------------------------------------------------------------
    def setup_env(it):
        self = mk_reader(it)
        s = self.fields['s']
        pos = sym_int(it, 'pos')
        p0 = sym_int(it, 'p0')
        it.ctx.assume(z3.And(p0 >= 0, p0 <= pos))
        ps = mk_parsing_state(it, with_context=False)
        be = 'begin' if it.ctx.choose(2, 'begin/end') == 0 else 'end'
        return {'self': self, 's': s, 'pos': pos, 'parsing_state': ps, 'beginend': be,
                'pre_space': V.sslice(it.ctx, s, p0, pos)}

    def make_env_token(it, env):
        v = env.vars
        s, pos, be = v['s'], v['pos'], v['beginend']
        a = it.ctx.fresh_int('envname_start')
        e = it.ctx.fresh_int('env_end')
        it.ctx.assume(z3.And(zint(pos) + 1 + len(be) + 1 <= a, a + 1 <= e - 1))
        return mk_token(it, be + '_environment', V.sslice(it.ctx, s, a, simp(e - 1)), pos, e, v['pre_space'])

    BE = '(pos + 1 + len(beginend))'
    c_env = reg.add(Contract(
        TR + '.impl_read_environment', setup=setup_env,
        requires=[('same-string', 's == self.s'), ('pos-in-range', '0 <= pos and pos < len(s)'),
                  ('beginend', "beginend == 'begin' or beginend == 'end'"),
                  ('at-escape-char', 's[pos] == parsing_state.macro_escape_char'),
                  ('at-beginend', 's.startswith(beginend, pos+1)'), PRE_SPACE_REQ],
        result_make=make_env_token,
        ensures=[
            ('kind-pos-prespace', "result.tok == beginend + '_environment' and result.pos == pos and "
                                  "result.pre_space == pre_space"),
            ('end-in-range', '%s + 3 <= result.pos_end and result.pos_end <= len(s)' % BE),
            ('name-nonempty', 'len(result.arg) >= 1'),
            ('name-is-source-before-closing-brace',
             "result.arg == s[result.pos_end-1-len(result.arg) : result.pos_end-1] and s[result.pos_end-1] == '}'"),
            ('name-follows-open-brace', "%s <= result.pos_end-2-len(result.arg) and "
                                        "s[result.pos_end-2-len(result.arg)] == '{'" % BE),
            ('only-whitespace-before-brace',
             'forall(%s, result.pos_end-2-len(result.arg), lambda q: s[q].isspace())' % BE),
        ],
        raises={TPE: {'make': make_tpe, 'ensures': RECOVERY}},
        modifies=[]))
    units['impl_read_environment'] = FunctionUnit(c_env)


    # ---------------- impl_peek_token / peek_token / next_token ------------------------------------------------
    def setup_reader(it):
        return {'self': mk_reader(it), 'parsing_state': mk_parsing_state(it)}

    def make_any_token(it, env):
        """a token as described by TOKEN_POST (used where peek_token is assumed)"""
        v = env.vars
        rd = v['self']
        # the reader position at the call (modifies clauses are havoced before the result is made)
        p0 = v.get('__old__', {}).get('self._pos', rd.fields['_pos'])
        s = rd.fields['s']
        ctx = it.ctx
        # reading is a function of (s, position, parsing state) (lemma:reads): a token read again from the same position
        # under the same parsing state object is the same token
        memo = ctx.ghost.setdefault('token_memo', [])
        for (rd_, ps_, pos_, tok_) in memo:
            if rd_ is rd and ps_ is v.get('parsing_state') and \
                    (str(simp(zint(pos_))) == str(simp(zint(p0))) or ctx.provable(zint(pos_) == zint(p0))):
                cp = Obj(tok_.cls, dict(tok_.fields), tag=tok_.tag, is_input=False)     # an equal token, not the same object
                ctx.ghost['last_token'] = cp
                return cp
        t_ = _make_any_token(it, env, rd, p0, s)
        memo.append((rd, v.get('parsing_state'), p0, t_))
        return t_

    def _make_any_token(it, env, rd, p0, s):
        v = env.vars
        ctx = it.ctx
        a = ctx.fresh_int('tok_pos')
        e = ctx.fresh_int('tok_end')
        ctx.assume(z3.And(zint(p0) <= a, a < e, e <= zint(V.slen(s))))
        kind = ctx.choose(3, 'token kind class')
        if kind == 0:      # macro / comment: has post_space
            tokname = 'macro' if ctx.choose(2, 'macro or comment') == 0 else 'comment'
            n = ctx.fresh_int('arglen')
            off = 1 if tokname == 'macro' else V.slen(v['parsing_state'].fields['comment_start'])
            ctx.assume(z3.And(n >= (1 if tokname == 'macro' else 0), a + zint(off) + n <= e))
            b = simp(a + zint(off))
            t = mk_token(it, tokname, V.sslice(ctx, s, b, simp(b + n)), a, e, V.sslice(ctx, s, p0, a),
                         V.sslice(ctx, s, simp(b + n), e))
            ctx.ghost['last_token'] = t
            return t
        if kind == 1:      # char
            t = mk_token(it, 'char', V.sslice(ctx, s, a, e), a, e, V.sslice(ctx, s, p0, a))
            ctx.ghost['last_token'] = t
            return t
        # everything else: braces, math delimiters, specials, environments
        OTHER = ['specials', 'brace_open', 'brace_close', 'mathmode_inline', 'mathmode_display', 'begin_environment',
                 'end_environment']
        tk = OTHER[ctx.choose(len(OTHER), 'other token kind')]
        if tk == 'specials':
            arg = mk_specials_spec(it, 'sspec')
        else:
            arg = it.fresh_str('tokarg')
        t = mk_token(it, tk, arg, a, e, V.sslice(ctx, s, p0, a))
        ctx.ghost['last_token'] = t
        return t

    P0 = 'old(self._pos)'
    TOKEN_POST = [
        ('no-gap', 'result.pre_space == self.s[%s : result.pos]' % P0),
        ('pre-space-is-whitespace', 'all_space(result.pre_space)'),
        ('advances-in-range', '%s <= result.pos and result.pos < result.pos_end and result.pos_end <= len(self.s)' % P0),
        ('char-token-content', "implies(result.tok == 'char', result.arg == self.s[result.pos:result.pos_end])"),
        ('macro-token-content',
         "implies(result.tok == 'macro', self.s[result.pos] == parsing_state.macro_escape_char and len(result.arg) >= 1 "
         "and result.arg == self.s[result.pos+1 : result.pos+1+len(result.arg)] "
         "and result.post_space == self.s[result.pos+1+len(result.arg) : result.pos_end] "
         "and result.pos+1+len(result.arg) <= result.pos_end)"),
        ('comment-token-content',
         "implies(result.tok == 'comment', self.s.startswith(parsing_state.comment_start, result.pos) "
         "and result.arg == self.s[result.pos+%s : result.pos+%s+len(result.arg)] "
         "and result.post_space == self.s[result.pos+%s+len(result.arg) : result.pos_end] "
         "and result.pos+%s+len(result.arg) <= result.pos_end)" % (CS, CS, CS, CS)),
        ('post-space-is-whitespace',
         "implies(result.tok == 'macro' or result.tok == 'comment', all_space(result.post_space) and "
         "newlines(result.post_space) < 2)"),
        ('brace-token-content',
         "implies(result.tok == 'brace_open' or result.tok == 'brace_close', "
         "result.arg == self.s[result.pos:result.pos_end] and result.pos_end == result.pos + 1)"),
        ('math-delimiter-token-content',
         "implies(result.tok == 'mathmode_inline' or result.tok == 'mathmode_display', "
         "result.arg == self.s[result.pos:result.pos_end])"),
        ('specials-token-content',
         "implies(is_obj(result.arg), result.tok == 'specials' and (result.arg.specials_chars == '\\n\\n' or "
         "result.arg.specials_chars == self.s[result.pos:result.pos_end]))"),
        ('known-token-kind',
         "result.tok == 'char' or result.tok == 'macro' or result.tok == 'comment' or result.tok == 'specials' or "
         "result.tok == 'brace_open' or result.tok == 'brace_close' or result.tok == 'mathmode_inline' or "
         "result.tok == 'mathmode_display' or result.tok == 'begin_environment' or result.tok == 'end_environment'"),
        ('specials-token-carries-its-spec', "implies(result.tok == 'specials', is_obj(result.arg))"),
        ('environment-token-content',
         "implies(result.tok == 'begin_environment' or result.tok == 'end_environment', "
         "self.s[result.pos] == parsing_state.macro_escape_char and "
         "result.arg == self.s[result.pos_end-1-len(result.arg) : result.pos_end-1] and self.s[result.pos_end-1] == '}')"),
    ]
    PAR = [
        ('paragraph-token-shape',
         "implies(result.tok == 'char' and newlines(result.arg) >= 2 and all_space(result.arg), "
         "self.s[result.pos] == '\\n' and self.s[result.pos_end-1] == '\\n')"),
    ]
    EOS_POST = [
        ('only-whitespace-left', 'all_space(self.s[%s:len(self.s)])' % P0),
        ('final-space-is-rest-of-input', 'exc.final_space == self.s[%s:len(self.s)]' % P0),
        ('no-paragraph-break-left',
         'not (parsing_state.enable_double_newline_paragraphs and newlines(self.s[%s:len(self.s)]) >= 2)' % P0),
    ]
    TPE_POST = [
        ('recovery-token-no-gap',
         'exc.recovery_token_placeholder.pre_space == self.s[%s : exc.recovery_token_placeholder.pos]' % P0),
        ('recovery-token-pre-space-is-whitespace', 'all_space(exc.recovery_token_placeholder.pre_space)'),
        ('recovery-token-advances',
         '%s <= exc.recovery_token_placeholder.pos and exc.recovery_token_placeholder.pos < '
         'exc.recovery_token_placeholder.pos_end and exc.recovery_token_placeholder.pos_end <= len(self.s)' % P0),
        ('resume-at-recovery-token-end', 'exc.recovery_token_at_pos == exc.recovery_token_placeholder.pos_end'),
        ('recovery-token-content-is-source',
         'exc.recovery_token_placeholder.arg == self.s[exc.recovery_token_placeholder.pos:'
         'exc.recovery_token_placeholder.pos_end]'),
        ('error-pos-in-input', 'exc.pos is not None and 0 <= exc.pos and exc.pos <= len(self.s)'),
    ]

    def make_tpe_reader(it, env):
        v = env.vars
        rd = v['self']
        s, p0 = rd.fields['s'], rd.fields['_pos']
        a = it.ctx.fresh_int('rec_pos')
        e = it.ctx.fresh_int('rec_end')
        ph = mk_token(it, 'char', it.fresh_str('rec_arg'), a, e, it.fresh_str('rec_pre'))
        return make_tpe(it, dict_env(env, s=s, pos=a, pre_space=''), placeholder=ph)

    def make_eos(it, env):
        cls = resolve_class(it, EOS)
        return Obj(cls, {'final_space': it.fresh_str('final_space'), 'args': ()}, tag='exc')

    READER_REQ = [('reader-position-in-range', '0 <= self._pos and self._pos <= len(self.s)'),
                  ('context-database-invariant',
                   'parsing_state.latex_context is None or db_inv(parsing_state.latex_context)')]

    c_impl_peek = reg.add(Contract(
        TR + '.impl_peek_token', setup=setup_reader, requires=READER_REQ,
        result_make=make_any_token,
        ensures=TOKEN_POST + PAR,
        raises={EOS: {'make': make_eos, 'ensures': EOS_POST},
                TPE: {'make': make_tpe_reader, 'ensures': TPE_POST}},
        modifies=[]))
    units['impl_peek_token'] = FunctionUnit(c_impl_peek, max_paths=20000, split_depth=5)

    c_peek = reg.add(Contract(
        TR + '.peek_token', setup=setup_reader, requires=READER_REQ,
        result_make=make_any_token,
        ensures=TOKEN_POST + [('peek-does-not-move', 'self._pos == %s' % P0)],
        raises={EOS: {'make': make_eos, 'ensures': EOS_POST + [('peek-does-not-move', 'self._pos == %s' % P0)]},
                TPE: {'when': 'not self.tolerant_parsing', 'make': make_tpe_reader,
                      'ensures': TPE_POST + [('peek-does-not-move', 'self._pos == %s' % P0)]}},
        modifies=[]))
    units['peek_token'] = FunctionUnit(c_peek)

    c_next = reg.add(Contract(
        TRB + '.next_token', setup=setup_reader, requires=READER_REQ,
        result_make=make_any_token,
        ensures=TOKEN_POST + [('position-after-token', 'self._pos == result.pos_end')],
        raises={EOS: {'make': make_eos, 'ensures': EOS_POST + [('position-unchanged', 'self._pos == %s' % P0)]},
                TPE: {'when': 'not self.tolerant_parsing', 'make': make_tpe_reader,
                      'ensures': TPE_POST + [('position-unchanged', 'self._pos == %s' % P0)]}},
        modifies=['self._pos']))
    units['next_token'] = FunctionUnit(c_next)

    def setup_move(it):
        rd = mk_reader(it)
        s = rd.fields['s']
        a, e, p = sym_int(it, 'tok.pos'), sym_int(it, 'tok.pos_end'), sym_int(it, 'tok.pre_start')
        it.ctx.assume(z3.And(0 <= p, p <= a, a <= e, e <= zint(V.slen(s))))
        n = sym_int(it, 'tok.arglen')
        it.ctx.assume(z3.And(n >= 0, a + 1 + n <= e))
        kind = ['macro', 'comment', 'char'][it.ctx.choose(3, 'token kind (macros and comments carry post_space)')]
        macro = kind != 'char'
        tok = mk_token(it, kind, V.sslice(it.ctx, s, a + 1, a + 1 + n) if macro else
                       V.sslice(it.ctx, s, a, e), a, e, V.sslice(it.ctx, s, p, a),
                       V.sslice(it.ctx, s, a + 1 + n, e) if macro else '')
        return {'self': rd, 'tok': tok}

    c_mt = reg.add(Contract(
        TR + '.move_to_token', setup=lambda it: dict(setup_move(it), rewind_pre_space=sym_bool(it, 'rewind_pre_space')),
        ensures=[('position-at-token',
                  'self._pos == (tok.pos - len(tok.pre_space) if rewind_pre_space else tok.pos)')],
        modifies=['self._pos']))
    units['move_to_token'] = FunctionUnit(c_mt)
    c_mp = reg.add(Contract(
        TR + '.move_past_token',
        setup=lambda it: dict(setup_move(it), fastforward_post_space=sym_bool(it, 'fastforward_post_space')),
        ensures=[('position-after-token',
                  'self._pos == (tok.pos_end if fastforward_post_space else tok.pos_end - len(tok.post_space))')],
        modifies=['self._pos']))
    units['move_past_token'] = FunctionUnit(c_mp)

    c_pn = reg.add(Contract(
        TRB + '.peek_token_or_none', setup=setup_reader, requires=READER_REQ,
        result_make=lambda it, env: (None if it.ctx.choose(2, 'token or None') else make_any_token(it, env)),
        ensures=[('none-iff-only-whitespace-left',
                  'implies(result is None, all_space(self.s[%s:len(self.s)]))' % P0),
                 ('peek-does-not-move', 'self._pos == %s' % P0)]
                + [(n, 'implies(result is not None, %s)' % c) for n, c in TOKEN_POST[:3]],
        raises={TPE: {'when': 'not self.tolerant_parsing', 'make': make_tpe_reader, 'ensures': TPE_POST}},
        modifies=[]))
    units['peek_token_or_none'] = FunctionUnit(c_pn)


    # ---------------- lemmas assembling C11 from the contracts ---------------------------------------------
    def lemma_tile(it):
        """L tile / bound (DESIGN C11): one read extends the reproduced prefix and strictly advances."""
        ctx = it.ctx
        s = sym_str(it, 's')
        n = V.slen(s)
        p_start, p = sym_int(it, 'p_start'), sym_int(it, 'p')
        a, e = sym_int(it, 't.pos'), sym_int(it, 't.pos_end')
        ctx.assume(z3.And(0 <= p_start, p_start <= p, p <= zint(n)))
        prefix = V.sslice(ctx, s, p_start, p)             # what the reads so far reproduced
        # contract of next_token: no-gap, advances-in-range, position-after-token
        pre_space = V.sslice(ctx, s, p, a)
        ctx.assume(z3.And(p <= a, a < e, e <= zint(n)))
        new_pos = e
        joined = V.sconcat(V.sconcat(prefix, pre_space), V.sslice(ctx, s, a, e))
        ctx.prove('lemma:tile:step: prefix + pre_space + s[pos:pos_end] == s[p_start:new position]',
                  it.equal_term(joined, V.sslice(ctx, s, p_start, new_pos)), 'lemma')
        ctx.prove('lemma:bound: len(s) - position decreases by at least 1 per read and stays >= 0',
                  z3.And(zint(n) - new_pos < zint(n) - p, zint(n) - new_pos >= 0), 'lemma')
        # end of stream: final_space == s[p:len(s)]
        final = V.sslice(ctx, s, p, n)
        ctx.prove('lemma:tile:end: prefix + final_space == s[p_start:len(s)]',
                  it.equal_term(V.sconcat(prefix, final), V.sslice(ctx, s, p_start, n)), 'lemma')
        # going back and reading again: move_to_token(t) puts the reader at t.pos - len(t.pre_space) == p
        ctx.prove('lemma:reread: move_to_token(t) restores the position the token was read from',
                  simp(a - zint(V.slen(pre_space))) == p, 'lemma')
    units['lemma:tile-and-bound'] = LemmaUnit('lemma:tile-and-bound', lemma_tile)

    def lemma_reads(it):
        """K7: the token-producing methods read only self.s, self._pos, the parsing state and their own
        arguments, and call only each other / token constructors -- so with the (proved) empty frame a
        repeated peek or a re-read yields an equal token."""
        import ast
        allowed_self = {'s', '_pos', 'tolerant_parsing', 'make_token', 'impl_peek_token', 'impl_peek_space_chars',
                        'impl_maybe_read_math_mode_delimiter', 'impl_read_macro', 'impl_read_environment',
                        'impl_read_comment', 'impl_char_token', 'parse_latex_environment_name',
                        'rx_environment_name', 'move_to_pos_chars', '_advance_to_pos'}
        allowed_globals = {'logger', 'LatexWalkerEndOfStream', 'LatexWalkerTokenParseError', 'LatexToken',
                           'len', 'ord', 'KeyError', 'ValueError', 'getattr', 'True', 'False', 'None', 're'}
        from pyvc.contracts import resolve_function
        for fn in ('impl_peek_token', 'impl_peek_space_chars', 'impl_maybe_read_math_mode_delimiter',
                   'impl_read_macro', 'impl_read_environment', 'impl_read_comment', 'impl_char_token',
                   'parse_latex_environment_name', 'peek_token'):
            f = resolve_function(it, TR + '.' + fn)
            params = {a.arg for a in f.node.args.args} | {a.arg for a in f.node.args.kwonlyargs}
            local, _ = __import__('pyvc.interp', fromlist=['assigned_names']).assigned_names(f.node.body)
            bad = []
            for n in ast.walk(f.node):
                if isinstance(n, ast.Attribute) and isinstance(n.value, ast.Name) and n.value.id == 'self':
                    if n.attr not in allowed_self:
                        bad.append('self.' + n.attr)
                elif isinstance(n, ast.Name) and isinstance(n.ctx, ast.Load):
                    if n.id not in params and n.id not in local and n.id not in allowed_globals:
                        bad.append(n.id)
                elif isinstance(n, (ast.Global, ast.Nonlocal)):
                    bad.append('global')
            it.ctx.prove('lemma:reads:%s reads only its arguments, self.s/_pos and the parsing state' % fn,
                         not bad, 'frame', src='offending reads: %s' % sorted(set(bad)))
    units['lemma:reads'] = LemmaUnit('lemma:reads', lemma_reads, functions=[TR + '.impl_peek_token'])

    contracts.REPLAYERS.update({k: replay_tokens for k in units})
    return {'C11': units}


# ---------------------------------------------------------------------------
NATIVE = PRELUDE + r'''
from pylatexenc.latexnodes import LatexTokenReader, ParsingState, LatexWalkerEndOfStream, LatexWalkerTokenParseError
from pylatexenc.macrospec import LatexContextDb, SpecialsSpec
import signal
def _alarm(*a): raise TimeoutError("tokenizing did not terminate")
signal.signal(signal.SIGALRM, _alarm)

def check_tokens(s, tolerant, **pskw):
    """C11 on one string: lossless, advancing, peek == next, re-read equal."""
    ps = ParsingState(s=s, **pskw)
    tr = LatexTokenReader(s, tolerant_parsing=tolerant)
    out = ""
    n = 0
    signal.alarm(5)
    try:
        while True:
            p0 = tr.cur_pos()
            try:
                pk = tr.peek_token(ps)
            except LatexWalkerEndOfStream as e:
                out += e.final_space
                break
            except LatexWalkerTokenParseError as e:
                if tolerant: return "tolerant peek_token raised %r on %r" % (e, s)
                return None     # strict mode may reject
            if tr.cur_pos() != p0:
                return "peek_token moved the position from %d to %d on %r" % (p0, tr.cur_pos(), s)
            t = tr.next_token(ps)
            if not (t == pk):
                return "next_token %r differs from peek_token %r on %r" % (t, pk, s)
            if not (t.pos < t.pos_end <= len(s)):
                return "token %r does not advance / out of range on %r" % (t, s)
            if tr.cur_pos() != t.pos_end or t.pos - len(t.pre_space) != p0:
                return "gap or overlap around token %r (reader at %d, was %d) on %r" % (t, tr.cur_pos(), p0, s)
            out += t.pre_space + s[t.pos:t.pos_end]
            src = s[t.pos:t.pos_end]
            if not t.pre_space.isspace() and t.pre_space != "":
                return "pre_space %r of %r is not whitespace on %r" % (t.pre_space, t, s)
            # content clauses (DESIGN C11-K3): the token's fields partition its source slice
            if t.tok == "char" and t.arg != src:
                return "char token %r does not carry its source slice %r on %r" % (t, src, s)
            if t.tok == "char" and t.arg.isspace() and not (t.arg.count("\n") >= 2 and t.arg[0] == "\n" and t.arg[-1] == "\n"):
                return "paragraph token %r is not a run from first to last newline on %r" % (t, s)
            if t.tok == "macro" and ps.macro_escape_char + t.arg + t.post_space != src:
                return "macro token %r: escape+name+post_space != source slice %r on %r" % (t, src, s)
            if t.tok == "comment" and ps.comment_start + t.arg + t.post_space != src:
                return "comment token %r: start+text+post_space != source slice %r on %r" % (t, src, s)
            if t.tok in ("macro", "comment") and (t.post_space.count("\n") >= 2 or (t.post_space and not t.post_space.isspace())):
                return "post_space of %r is not whitespace without paragraph break on %r" % (t, s)
            if t.tok in ("brace_open", "brace_close", "mathmode_inline", "mathmode_display") and t.arg != src:
                return "delimiter token %r does not carry its source slice %r on %r" % (t, src, s)
            if t.tok == "specials" and t.arg.specials_chars != "\n\n" and t.arg.specials_chars != src:
                return "specials token %r does not cover its characters (slice %r) on %r" % (t, src, s)
            if t.tok in ("begin_environment", "end_environment") and not (
                    src.startswith(ps.macro_escape_char) and src.endswith("{" + t.arg + "}")):
                return "environment token %r does not match its source slice %r on %r" % (t, src, s)
            tr.move_past_token(t, fastforward_post_space=False)
            if tr.cur_pos() != t.pos_end - len(getattr(t, "post_space", "") or ""):
                return "move_past_token(fastforward_post_space=False) left the reader at %d for %r on %r" % (tr.cur_pos(), t, s)
            tr.move_to_token(t, rewind_pre_space=False)
            if tr.cur_pos() != t.pos:
                return "move_to_token(rewind_pre_space=False) left the reader at %d for %r" % (tr.cur_pos(), t)
            tr.move_to_token(t)
            t2 = tr.next_token(ps)
            if not (t2 == t):
                return "re-reading gives %r instead of %r on %r" % (t2, t, s)
            n += 1
            if n > len(s):
                return "more than len(s) tokens read on %r" % (s,)
    except TimeoutError as e:
        return "%s on %r (tolerant=%r)" % (e, s, tolerant)
    finally:
        signal.alarm(0)
    if out != s:
        return "concatenated tokens %r differ from the input %r" % (out, s)

def search(maxlen=4):
    db = LatexContextDb(); db.add_context_category("c", specials=[SpecialsSpec("~"), SpecialsSpec("``"), SpecialsSpec("`")])
    for t in strings("\\a {}$%\n~`[&", maxlen):
        for tol in (True, False):
            for kw in ({}, {"latex_context": db}, {"in_math_mode": True, "math_mode_delimiter": "$"},
                       {"enable_environments": False, "enable_comments": False}):
                m = check_tokens(t, tol, **kw)
                if m: return m
'''


def replay_tokens(o, model):
    s = model_str(model, 's')
    return NATIVE + '''
s = %r
for tol in (True, False):
    m = check_tokens(s, tol)
    if m: reproduced(m)
m = search()
if m: reproduced(m + "  [found by the replay's bounded search around the verifier's counterexample]")
not_reproduced()
''' % (s,)
