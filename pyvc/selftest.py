"""Engine self-test (MANIFEST.setup_cmd): imports the solvers, checks that the
repository tree is readable, and validates the executor and the assumed library
contracts against CPython on small programs (see pyvc/selftest_cases.py)."""
import sys, os
VERIF = os.path.dirname(os.path.dirname(os.path.abspath(__file__)))
if VERIF not in sys.path:
    sys.path.insert(0, VERIF)


def main():
    import z3
    from pyvc.program import Program
    p = Program()
    assert p.module('pylatexenc._util') is not None, 'cannot read /repo/pylatexenc/_util.py'
    try:
        from pyvc import selftest_cases
    except ImportError:
        print('pyvc selftest: basic imports ok (z3 %s)' % z3.get_version_string())
        return 0
    return selftest_cases.run()


if __name__ == '__main__':
    sys.exit(main())
