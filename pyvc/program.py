"""Program model: modules and classes of the REAL code, read from /repo on
every run (ast.parse of the files; nothing is retyped)."""
import ast
import hashlib
import os

from .smt import EngineError

REPO = os.environ.get('PYVC_REPO', '/repo')


class ModuleInfo(object):
    def __init__(self, program, name, path):
        self.program = program
        self.name = name
        self.path = path
        with open(path, 'r', encoding='utf-8') as f:
            self.source = f.read()
        self.sha256 = hashlib.sha256(self.source.encode('utf-8')).hexdigest()
        self.tree = ast.parse(self.source, filename=path)
        self.is_package = os.path.basename(path) == '__init__.py'
        self.defs = {}          # name -> list of defining statements (last wins)
        self.star_imports = []  # (level, module) of `from X import *`
        self._collect(self.tree.body)
        self.classes = {}

    def _collect(self, body):
        for st in body:
            if isinstance(st, (ast.FunctionDef, ast.ClassDef)):
                self.defs[st.name] = st
            elif isinstance(st, ast.Assign):
                for t in st.targets:
                    if isinstance(t, ast.Name):
                        self.defs[t.id] = st
                    elif isinstance(t, ast.Tuple):
                        for e in t.elts:
                            if isinstance(e, ast.Name):
                                self.defs[e.id] = st
            elif isinstance(st, ast.AnnAssign) and isinstance(st.target, ast.Name) and st.value:
                self.defs[st.target.id] = st
            elif isinstance(st, ast.Import):
                for a in st.names:
                    self.defs[(a.asname or a.name.split('.')[0])] = st
            elif isinstance(st, ast.ImportFrom):
                for a in st.names:
                    if a.name == '*':
                        self.star_imports.append((st.level, st.module))
                    else:
                        self.defs[a.asname or a.name] = st
            elif isinstance(st, ast.Try):
                # "try: import X / except ImportError: fallback": Python 3 takes the body
                self._collect(st.body)
                self._collect(st.orelse)
            elif isinstance(st, ast.If):
                if _is_py2_test(st.test):
                    self._collect(st.orelse)
                else:
                    # conservative: both branches define names; body wins if unknown
                    self._collect(st.orelse)
                    self._collect(st.body)

    def package(self):
        if self.is_package:
            return self.name
        return self.name.rpartition('.')[0]


def _is_py2_test(t):
    try:
        s = ast.unparse(t)
    except Exception:
        return False
    return s in ('sys.version_info.major == 2', 'sys.version_info[0] == 2',
                 'sys.version_info.major < 3')


class ClassInfo(object):
    def __init__(self, name, module=None, node=None, bases=(), builtin=False):
        self.name = name
        self.module = module
        self.node = node
        self.bases = list(bases)
        self.builtin = builtin
        self.outer = None
        self.closure = None
        self.members = {}
        if node is not None:
            for st in node.body:
                if isinstance(st, (ast.FunctionDef, ast.ClassDef)):
                    self.members[st.name] = st
                elif isinstance(st, ast.Assign):
                    for t in st.targets:
                        if isinstance(t, ast.Name):
                            self.members[t.id] = st
        self._mro = None

    @property
    def qualname(self):
        if self.outer is not None:
            return self.outer.qualname + '.' + self.name
        return (self.module.name + '.' if self.module else '') + self.name

    def mro(self):
        if self._mro is None:
            self._mro = _c3([self] , [list(b.mro()) for b in self.bases] + [list(self.bases)])
        return self._mro

    def is_subclass_of(self, other):
        return other in self.mro()

    def __repr__(self):
        return '<class %s>' % self.name


def _c3(head, seqs):
    seqs = [s for s in seqs if s]
    res = list(head)
    while seqs:
        for s in seqs:
            cand = s[0]
            if not any(cand in t[1:] for t in seqs):
                break
        else:
            raise EngineError('inconsistent MRO')
        res.append(cand)
        seqs = [[x for x in s if x is not cand] for s in seqs]
        seqs = [s for s in seqs if s]
    return res


class Program(object):
    def __init__(self, root=None):
        self.root = root or REPO
        self.modules = {}
        self.builtin_classes = {}
        self._init_builtin_classes()

    def _init_builtin_classes(self):
        def mk(name, *bases):
            c = ClassInfo(name, bases=[self.builtin_classes[b] for b in bases], builtin=True)
            self.builtin_classes[name] = c
            return c
        mk('object')
        mk('BaseException', 'object')
        mk('Exception', 'BaseException')
        for n in ('ValueError', 'TypeError', 'AttributeError', 'AssertionError', 'RuntimeError',
                  'LookupError', 'NameError', 'StopIteration', 'OSError', 'ArithmeticError',
                  'ImportError'):
            mk(n, 'Exception')
        mk('KeyError', 'LookupError')
        mk('IndexError', 'LookupError')
        mk('NotImplementedError', 'RuntimeError')
        mk('UnicodeError', 'ValueError')
        mk('UnicodeDecodeError', 'UnicodeError')
        mk('UnicodeEncodeError', 'UnicodeError')
        mk('ZeroDivisionError', 'ArithmeticError')
        mk('UnboundLocalError', 'NameError')
        mk('RecursionError', 'RuntimeError')
        self.builtin_classes['IOError'] = self.builtin_classes['OSError']
        self.builtin_classes['EnvironmentError'] = self.builtin_classes['OSError']
        mk('FileNotFoundError', 'OSError')

    def module(self, name):
        m = self.modules.get(name)
        if m is not None:
            return m
        rel = name.replace('.', '/')
        for p in (os.path.join(self.root, rel + '.py'), os.path.join(self.root, rel, '__init__.py')):
            if os.path.isfile(p):
                m = ModuleInfo(self, name, p)
                self.modules[name] = m
                return m
        return None

    def resolve_relative(self, module, level, target):
        if level == 0:
            return target
        pkg = module.package()
        parts = pkg.split('.')
        if level > 1:
            parts = parts[:len(parts) - (level - 1)]
        base = '.'.join(parts)
        return base + ('.' + target if target else '')

    def find_function(self, qualname):
        """'pkg.mod.Class.method' or 'pkg.mod.func' -> (module, class node or None, FunctionDef)"""
        parts = qualname.split('.')
        for i in range(len(parts) - 1, 0, -1):
            m = self.module('.'.join(parts[:i]))
            if m is None:
                continue
            rest = parts[i:]
            body = m.tree.body
            node = None
            cls = None
            # search also inside top-level try/if blocks
            cur_defs = m.defs
            first = cur_defs.get(rest[0])
            if first is None:
                continue
            node = first
            for j, nm in enumerate(rest[1:]):
                if isinstance(node, ast.ClassDef):
                    cls = node
                found = None
                for st in ast.walk(node) if not isinstance(node, ast.ClassDef) else node.body:
                    if isinstance(st, (ast.FunctionDef, ast.ClassDef)) and st.name == nm and st is not node:
                        found = st
                        break
                if found is None:
                    node = None
                    break
                node = found
            if node is not None and isinstance(node, (ast.FunctionDef, ast.ClassDef)):
                return m, cls, node
        return None
