"""Value domain of the symbolic executor (DESIGN 2.3) and the string algebra.

ints/bools : python constants or z3 Int/Bool terms
str        : python str, or SStr = concatenation of atoms
               ('lit', text) | ('sl', StrBase, a, b) | ('ch', code)
objects    : Obj(cls, fields)   -- identity is python identity (paths are
             re-executed from scratch, so plain mutation is fine)
containers : PyList / PyDict / python tuples / frozenset
"""
import z3

from .smt import EngineError, forall_range

IntT = (int, z3.ArithRef)


def is_sym(v):
    return isinstance(v, z3.ExprRef)


def is_int(v):
    return (isinstance(v, int) and not isinstance(v, bool)) or isinstance(v, z3.ArithRef)


def is_boolv(v):
    return isinstance(v, bool) or isinstance(v, z3.BoolRef)


def zint(v):
    return z3.IntVal(v) if isinstance(v, int) else v


def zbool(v):
    return z3.BoolVal(v) if isinstance(v, bool) else v


def simp(e):
    if isinstance(e, z3.ExprRef):
        e = z3.simplify(e)
        if z3.is_int_value(e):
            return e.as_long()
        if z3.is_true(e):
            return True
        if z3.is_false(e):
            return False
    return e


def same_term(a, b):
    if isinstance(a, int) and isinstance(b, int):
        return a == b
    a, b = simp(a), simp(b)
    if isinstance(a, int) or isinstance(b, int):
        return isinstance(a, int) and isinstance(b, int) and a == b
    return z3.eq(a, b)


def z_and(*xs):
    out = []
    for x in xs:
        if isinstance(x, bool):
            if not x:
                return False
            continue
        out.append(x)
    if not out:
        return True
    return out[0] if len(out) == 1 else z3.And(*out)


def z_or(*xs):
    out = []
    for x in xs:
        if isinstance(x, bool):
            if x:
                return True
            continue
        out.append(x)
    if not out:
        return False
    return out[0] if len(out) == 1 else z3.Or(*out)


def z_not(x):
    if isinstance(x, bool):
        return not x
    return z3.Not(x)


def z_implies(a, b):
    return z_or(z_not(a), b)


def z_ite(c, a, b):
    if isinstance(c, bool):
        return a if c else b
    return z3.If(c, zint(a) if is_int(a) else zbool(a), zint(b) if is_int(b) else zbool(b))


def z_eq(a, b):
    if not is_sym(a) and not is_sym(b):
        return a == b
    return zint(a) == zint(b) if is_int(a) or is_int(b) else zbool(a) == zbool(b)


def z_min(a, b):
    if isinstance(a, int) and isinstance(b, int):
        return min(a, b)
    return simp(z3.If(zint(a) <= zint(b), zint(a), zint(b)))


def z_max(a, b):
    if isinstance(a, int) and isinstance(b, int):
        return max(a, b)
    return simp(z3.If(zint(a) >= zint(b), zint(a), zint(b)))


# ---------------------------------------------------------------------------
# character predicates (A-STR): uninterpreted on all code points, with exact
# axioms on ASCII (validated against CPython by the axiom validators)
# ---------------------------------------------------------------------------
_isspace_f = z3.Function('isspace', z3.IntSort(), z3.BoolSort())
_isalpha_f = z3.Function('isalpha', z3.IntSort(), z3.BoolSort())
_isalnum_f = z3.Function('isalnum', z3.IntSort(), z3.BoolSort())
_isdigit_f = z3.Function('isdigit', z3.IntSort(), z3.BoolSort())

ASCII_SPACE = [c for c in range(128) if chr(c).isspace()]
ASCII_ALPHA = [c for c in range(128) if chr(c).isalpha()]
ASCII_DIGIT = [c for c in range(128) if chr(c).isdigit()]


def _ascii_exact(fn, members, c):
    """On [0,128) the predicate is exactly membership in `members`."""
    mem = z3.Or(*[c == m for m in members]) if members else z3.BoolVal(False)
    return z3.Implies(z3.And(c >= 0, c < 128), fn(c) == mem)


def char_pred(name, code):
    """Return the truth term of str-predicate `name` on a code point; for
    concrete codes the answer is computed, for symbolic ones the predicate is
    the uninterpreted function constrained on ASCII (the constraint is inlined,
    so no global axiom is needed)."""
    if isinstance(code, int):
        return getattr(chr(code), name)()
    if name == 'isspace':
        mem = ASCII_SPACE
        f = _isspace_f
    elif name == 'isalpha':
        mem = ASCII_ALPHA
        f = _isalpha_f
    elif name == 'isdigit':
        mem = ASCII_DIGIT
        f = _isdigit_f
    elif name == 'isalnum':
        mem = ASCII_ALPHA + ASCII_DIGIT
        f = _isalnum_f
    else:
        raise EngineError('char predicate %s' % name)
    memt = z3.Or(*[code == m for m in mem])
    return z3.If(z3.And(code >= 0, code < 128), memt, f(code))


# ---------------------------------------------------------------------------
# strings
# ---------------------------------------------------------------------------
class StrBase(object):
    """A symbolic string: array of code points + length."""
    __slots__ = ('name', 'arr', 'length')

    def __init__(self, name, arr=None, length=None):
        self.name = name
        self.arr = arr if arr is not None else z3.Array(name + '.a', z3.IntSort(), z3.IntSort())
        self.length = length if length is not None else z3.Int(name + '.len')

    def same(self, other):
        return self is other or z3.eq(self.arr, other.arr)

    def whole(self):
        return SStr((('sl', self, 0, self.length),))

    def __repr__(self):
        return '<%s>' % self.name


class SStr(object):
    __slots__ = ('atoms',)

    def __init__(self, atoms):
        self.atoms = tuple(atoms)

    def __repr__(self):
        out = []
        for a in self.atoms:
            if a[0] == 'lit':
                out.append(repr(a[1]))
            elif a[0] == 'sl':
                out.append('%s[%s:%s]' % (a[1].name, a[2], a[3]))
            else:
                out.append('chr(%s)' % (a[1],))
        return 'SStr(' + ' + '.join(out) + ')'


def is_str(v):
    return isinstance(v, (str, SStr))


def atoms_of(v):
    if isinstance(v, str):
        return (('lit', v),) if v else ()
    return v.atoms


def atom_len(a):
    if a[0] == 'lit':
        return len(a[1])
    if a[0] == 'sl':
        if isinstance(a[2], int) and isinstance(a[3], int):
            return a[3] - a[2]
        return simp(zint(a[3]) - zint(a[2]))
    return 1


def mk_str(atoms):
    """Normal form: merge adjacent literals and syntactically adjacent slices."""
    out = []
    for a in atoms:
        if a[0] == 'lit':
            if not a[1]:
                continue
            if out and out[-1][0] == 'lit':
                out[-1] = ('lit', out[-1][1] + a[1])
                continue
        elif a[0] == 'sl':
            a = ('sl', a[1], simp(a[2]), simp(a[3]))
            if same_term(a[2], a[3]):
                continue
            if out and out[-1][0] == 'sl' and out[-1][1].same(a[1]) and same_term(out[-1][3], a[2]):
                out[-1] = ('sl', a[1], out[-1][2], a[3])
                continue
        out.append(a)
    if not out:
        return ''
    if all(a[0] == 'lit' for a in out):
        return ''.join(a[1] for a in out)
    return SStr(out)


def slen(v):
    if isinstance(v, str):
        return len(v)
    n = 0
    for a in v.atoms:
        n = n + atom_len(a)
    return simp(n)


def sconcat(a, b):
    return mk_str(atoms_of(a) + atoms_of(b))


def _lit_char_at(text, j):
    """code of text[j] for symbolic j (0 <= j < len(text) assumed)."""
    if isinstance(j, int):
        if not (0 <= j < len(text)):
            return -1          # only reached as the dead branch of a guarded selection over several atoms
        return ord(text[j])
    e = z3.IntVal(ord(text[-1]))
    for idx in range(len(text) - 2, -1, -1):
        e = z3.If(j == idx, z3.IntVal(ord(text[idx])), e)
    return e


def atom_char_at(a, j):
    if a[0] == 'lit':
        return _lit_char_at(a[1], j)
    if a[0] == 'sl':
        idx = simp(zint(a[2]) + zint(j))
        return a[1].arr[zint(idx)]
    return a[1]


def char_at(v, k):
    """Code point at index k (0 <= k < len assumed)."""
    if isinstance(v, str) and isinstance(k, int):
        return ord(v[k])
    atoms = atoms_of(v)
    if not atoms:
        return z3.IntVal(-1)
    offs = []
    o = 0
    for a in atoms:
        offs.append(o)
        o = simp(o + atom_len(a))
    e = atom_char_at(atoms[-1], simp(zint(k) - zint(offs[-1])))
    for i in range(len(atoms) - 2, -1, -1):
        end = simp(offs[i] + atom_len(atoms[i]))
        e = z3.If(zint(k) < zint(end), zint(atom_char_at(atoms[i], simp(zint(k) - zint(offs[i])))), zint(e))
    return simp(e)


def _strip_common(xa, xb):
    xa, xb = list(xa), list(xb)

    def same_atom(p, q):
        if p[0] != q[0]:
            return False
        if p[0] == 'lit':
            return p[1] == q[1]
        if p[0] == 'sl':
            return p[1].same(q[1]) and same_term(p[2], q[2]) and same_term(p[3], q[3])
        return same_term(p[1], q[1])
    while xa and xb and same_atom(xa[0], xb[0]):
        xa.pop(0)
        xb.pop(0)
    while xa and xb and same_atom(xa[-1], xb[-1]):
        xa.pop()
        xb.pop()
    # literal prefixes
    if xa and xb and xa[0][0] == 'lit' and xb[0][0] == 'lit':
        p, q = xa[0][1], xb[0][1]
        n = 0
        while n < len(p) and n < len(q) and p[n] == q[n]:
            n += 1
        if n < len(p) and n < len(q):
            return None  # differ at a definite position
        xa[0] = ('lit', p[n:])
        xb[0] = ('lit', q[n:])
        xa = [a for a in xa if not (a[0] == 'lit' and not a[1])]
        xb = [a for a in xb if not (a[0] == 'lit' and not a[1])]
    return xa, xb


def seq_eq(ctx, a, b):
    """Truth term of a == b for strings."""
    if isinstance(a, str) and isinstance(b, str):
        return a == b
    r = _strip_common(atoms_of(a), atoms_of(b))
    if r is None:
        return False
    xa, xb = r
    if not xa and not xb:
        return True
    A, B = mk_str(xa), mk_str(xb)
    la, lb = slen(A), slen(B)
    if isinstance(la, int) and isinstance(lb, int) and la != lb:
        return False
    if isinstance(B, str) or isinstance(A, str):
        lit, oth = (B, A) if isinstance(B, str) else (A, B)
        n = len(lit)
        return z_and(z_eq(slen(oth), n), *[z_eq(char_at(oth, k), ord(lit[k])) for k in range(n)])
    shortcut = False
    if len(xa) == 1 and len(xb) == 1 and xa[0][0] == 'sl' and xb[0][0] == 'sl' \
            and xa[0][1].same(xb[0][1]):
        shortcut = z_and(z_eq(xa[0][2], xb[0][2]), z_eq(xa[0][3], xb[0][3]))
    n = la
    if isinstance(n, int) and n <= 8:
        body = z_and(*[z_eq(char_at(A, k), char_at(B, k)) for k in range(n)])
    else:
        body = forall_range(ctx, 0, n, lambda k: zint(char_at(A, k)) == zint(char_at(B, k)), 'eqk')
    return z_or(shortcut, z_and(z_eq(la, lb), body))


def str_truth(v):
    n = slen(v)
    if isinstance(n, int):
        return n > 0
    return n > 0


def clamp_index(ctx, i, n):
    """Python slice-bound normalisation of i against length n."""
    if i is None:
        return None
    if isinstance(i, int) and isinstance(n, int):
        if i < 0:
            return max(n + i, 0)
        return min(i, n)
    if isinstance(i, int) and i == 0:
        return 0
    if ctx is not None and not ctx.spec and ctx.provable(z3.And(zint(i) >= 0, zint(i) <= zint(n))):
        return i
    if ctx is not None and ctx.spec:
        return i
    i, n = zint(i), zint(n)
    return simp(z3.If(i < 0, z3.If(n + i < 0, 0, n + i), z3.If(i > n, n, i)))


def sslice(ctx, v, lo, hi):
    """v[lo:hi] with Python clamping."""
    if isinstance(v, str) and (lo is None or isinstance(lo, int)) and (hi is None or isinstance(hi, int)):
        return v[lo:hi]
    n = slen(v)
    lo2 = 0 if lo is None else clamp_index(ctx, lo, n)
    hi2 = n if hi is None else clamp_index(ctx, hi, n)
    # ensure hi2 >= lo2
    if not (ctx is not None and ctx.spec):
        if not (isinstance(lo2, int) and isinstance(hi2, int) and hi2 >= lo2):
            if ctx is None or not ctx.provable(zint(hi2) >= zint(lo2)):
                hi2 = z_max(lo2, hi2)
    atoms = atoms_of(v)
    if len(atoms) == 1 and atoms[0][0] == 'sl':
        _, base, x, y = atoms[0]
        return mk_str([('sl', base, simp(zint(x) + zint(lo2)), simp(zint(x) + zint(hi2)))])
    # multi-atom: locate cut points atom by atom
    out = []
    o = 0
    for a in atoms:
        L = atom_len(a)
        end = simp(o + L)
        rel_lo = simp(zint(lo2) - zint(o))
        rel_hi = simp(zint(hi2) - zint(o))
        if a[0] == 'sl':
            p = _clamp_prov(ctx, rel_lo, L)
            q = _clamp_prov(ctx, rel_hi, L)
            q = q if _prov(ctx, zint(q) >= zint(p)) else z_max(p, q)
            out.append(('sl', a[1], simp(zint(a[2]) + zint(p)), simp(zint(a[2]) + zint(q))))
        else:
            p = _clamp_prov(ctx, rel_lo, L)
            q = _clamp_prov(ctx, rel_hi, L)
            if isinstance(p, int) and isinstance(q, int):
                if a[0] == 'lit':
                    out.append(('lit', a[1][p:max(p, q)]))
                elif q - p >= 1:
                    out.append(a)
            else:
                raise EngineError('slice cuts a literal/char atom at a symbolic position')
        o = end
    return mk_str(out)


def _prov(ctx, c):
    if isinstance(c, bool):
        return c
    c = simp(c)
    if isinstance(c, bool):
        return c
    if ctx is None or ctx.spec:
        return False
    return ctx.provable(c)


def _clamp_prov(ctx, i, L):
    """clamp i into [0, L], deciding with the solver where possible."""
    if isinstance(i, int) and isinstance(L, int):
        return max(0, min(i, L))
    if _prov(ctx, zint(i) <= 0):
        return 0
    if _prov(ctx, zint(i) >= zint(L)):
        return L
    if _prov(ctx, z3.And(zint(i) >= 0, zint(i) <= zint(L))):
        return i
    i, L = zint(i), zint(L)
    return simp(z3.If(i < 0, 0, z3.If(i > L, L, i)))


def str_key(v):
    """syntactic identity of a string value (for memoising derived terms)"""
    if isinstance(v, str):
        return ('lit', v)
    out = []
    for a in v.atoms:
        if a[0] == 'lit':
            out.append(('lit', a[1]))
        elif a[0] == 'sl':
            out.append(('sl', a[1].arr.get_id(), str(simp(a[2])), str(simp(a[3]))))
        else:
            out.append(('ch', str(a[1])))
    return tuple(out)


def str_all(ctx, v, pred, memo=None):
    """forall k < len(v): pred(code_k)   (pred: code term -> bool term).
    With memo=<name>: the same string yields the identical term on a path."""
    if isinstance(v, str):
        return z_and(*[pred(ord(c)) for c in v])
    if memo is not None and ctx is not None:
        table = ctx.ghost.setdefault('str_all', {})
        k = (memo, str_key(v))
        if k not in table:
            table[k] = str_all(ctx, v, pred)
        return table[k]
    parts = []
    for a in v.atoms:
        if a[0] == 'lit':
            parts.extend(pred(ord(c)) for c in a[1])
        elif a[0] == 'ch':
            parts.append(pred(a[1]))
        else:
            base = a[1]
            L = atom_len(a)
            if isinstance(L, int) and L <= 4:
                parts.extend(pred(base.arr[zint(simp(zint(a[2]) + j))]) for j in range(L))
            else:
                parts.append(forall_range(ctx, a[2], a[3], lambda k, base=base: pred(base.arr[k]), 'ck'))
    return z_and(*parts)


# ---------------------------------------------------------------------------
# heap values
# ---------------------------------------------------------------------------
class Obj(object):
    __slots__ = ('cls', 'fields', 'tag', 'is_input', 'written', 'open')

    def __init__(self, cls, fields=None, tag='', is_input=False):
        self.cls = cls
        self.fields = fields if fields is not None else {}
        self.tag = tag
        self.is_input = is_input
        self.written = set()
        self.open = False   # input object whose unspecified fields are opaque

    def __repr__(self):
        return '<Obj %s %s>' % (self.cls.name, self.tag)


class LazyField(object):
    """Field of a symbolic input object whose (possibly forking) construction is
    postponed until the field is first read."""
    __slots__ = ('fn',)

    def __init__(self, fn):
        self.fn = fn


class AbsVal(object):
    """An abstract value identified by an Int term (e.g. 'the i-th node of a symbolic list').
    `methods`: name -> fn(it, self, args, kwargs) giving the interface contract of a method."""
    __slots__ = ('term', 'kind', 'methods', 'attrs')

    def __init__(self, term, kind, methods=None, attrs=None):
        self.term = term
        self.kind = kind
        self.methods = methods or {}
        self.attrs = attrs or {}

    def pyvc_getattr(self, it, name):
        if name in self.attrs:
            a = self.attrs[name]
            return a(it, self) if callable(a) else a
        if name in self.methods:
            fn = self.methods[name]
            return Builtin('%s.%s' % (self.kind, name), lambda it2, a, k: fn(it2, self, a, k))
        raise EngineError('abstract %s value has no contract for attribute %s' % (self.kind, name))

    def __repr__(self):
        return '<abs %s %s>' % (self.kind, self.term)


class Codec(object):
    """How values are stored as Ints in a symbolic list."""
    def __init__(self, encode, decode, name=''):
        self.encode = encode      # (it, value) -> Int term
        self.decode = decode      # (it, Int term) -> value   (may fork)
        self.name = name


class PyList(object):
    """list: concrete spine `items`, or symbolic (length, arr) of ints (or of
    Int-coded values, see Codec) when items is None."""
    __slots__ = ('items', 'length', 'arr', 'tag', 'codec')

    def __init__(self, items=None, length=None, arr=None, tag='', codec=None):
        self.items = items
        self.length = length
        self.arr = arr
        self.tag = tag
        self.codec = codec

    def is_concrete(self):
        return self.items is not None

    def __repr__(self):
        if self.items is not None:
            return 'PyList(%r)' % (self.items,)
        return 'PyList<sym %s len=%s>' % (self.tag, self.length)


class GenericList(object):
    """A list of unknown length of which only a generic element is known (result of a comprehension over a
    symbolic string).  Only str.join / len / truthiness are modelled."""
    __slots__ = ('elem',)

    def __init__(self, elem):
        self.elem = elem

    def __repr__(self):
        return 'GenericList(%r)' % (self.elem,)


class PyDict(object):
    __slots__ = ('items', 'tag')

    def __init__(self, items=None, tag=''):
        self.items = items if items is not None else {}
        self.tag = tag

    def __repr__(self):
        return 'PyDict(%r)' % (self.items,)


class PySet(object):
    __slots__ = ('items', 'frozen')

    def __init__(self, items=None, frozen=False):
        self.items = list(items) if items is not None else []
        self.frozen = frozen


class CharSet(object):
    """A set of characters given by a predicate on code points.  Stands for a
    str/frozenset/dict used only through `c in X` with a 1-character c."""
    __slots__ = ('pred', 'tag', 'valfn')

    def __init__(self, pred, tag='', valfn=None):
        self.pred = pred
        self.tag = tag
        self.valfn = valfn


class Opaque(object):
    __slots__ = ('why',)

    def __init__(self, why):
        self.why = why

    def __repr__(self):
        return 'Opaque(%s)' % self.why


class Func(object):
    __slots__ = ('node', 'module', 'closure', 'owner', 'name', 'qualname', 'defaults',
                 'kw_defaults', 'is_static', 'is_classmethod', 'is_property', 'is_generator')

    def __init__(self, node, module, closure=None, owner=None, qualname=None):
        self.node = node
        self.module = module
        self.closure = closure
        self.owner = owner
        self.name = getattr(node, 'name', '<lambda>')
        self.qualname = qualname or self.name
        self.defaults = None
        self.kw_defaults = None
        self.is_static = False
        self.is_classmethod = False
        self.is_property = False
        self.is_generator = False

    def __repr__(self):
        return '<Func %s>' % self.qualname


class BoundMethod(object):
    __slots__ = ('func', 'recv')

    def __init__(self, func, recv):
        self.func = func
        self.recv = recv


class Builtin(object):
    __slots__ = ('name', 'fn')

    def __init__(self, name, fn):
        self.name = name
        self.fn = fn

    def __repr__(self):
        return '<builtin %s>' % self.name


class BuiltinMethod(object):
    __slots__ = ('name', 'recv')

    def __init__(self, name, recv):
        self.name = name
        self.recv = recv


class Partial(object):
    __slots__ = ('func', 'args', 'kwargs')

    def __init__(self, func, args, kwargs):
        self.func = func
        self.args = args
        self.kwargs = kwargs


class SuperVal(object):
    __slots__ = ('cls', 'obj')

    def __init__(self, cls, obj):
        self.cls = cls
        self.obj = obj


class ModuleVal(object):
    __slots__ = ('info',)

    def __init__(self, info):
        self.info = info


class BuiltinModule(object):
    __slots__ = ('name', 'attrs')

    def __init__(self, name, attrs):
        self.name = name
        self.attrs = attrs


class SpecFn(object):
    """A specification function usable from contract expressions."""
    __slots__ = ('name', 'fn')

    def __init__(self, name, fn):
        self.name = name
        self.fn = fn
