"""Path context, solver access, obligation bookkeeping, path exploration.

Exploration is by re-execution: a path is identified by its list of decisions
(branch outcomes, non-deterministic choices, cached 'provable' answers).  The
symbolic interpreter is run from the start for each decision prefix; the prefix
is replayed without solver calls, and obligations met while replaying were
already checked by the path that first explored that prefix.
"""
import os
import subprocess
import tempfile
import time

import z3

PROVED, REFUTED, UNDECIDED, UNCHECKED = 'proved', 'refuted', 'undecided', 'unchecked'
_RANK = {PROVED: 0, UNCHECKED: 1, UNDECIDED: 2, REFUTED: 3}


class PathAbort(Exception):
    """The current path is infeasible (or was cut on purpose)."""


class PathSplit(PathAbort):
    """Pre-pass of a sharded exploration reached the split depth."""


class EngineError(Exception):
    """The executor met something it does not model: the unit is unverified,
    never 'proved' and never a violation."""


class Config(object):
    def __init__(self, tier='quick', seed=0):
        self.tier = tier
        self.seed = seed
        self.branch_timeout_ms = 2000
        self.quant_branch_timeout_ms = 400
        self.prove_timeout_ms = 15000 if tier == 'quick' else 60000
        self.max_paths = 4000 if tier == 'quick' else 20000
        self.refute_bound = 6
        self.use_cvc5 = True


class Obligation(object):
    __slots__ = ('name', 'kind', 'status', 'detail', 'model', 'seconds', 'backend',
                 'hits', 'src', 'bounded')

    def __init__(self, name, kind):
        self.name = name
        self.kind = kind
        self.status = PROVED
        self.detail = ''
        self.model = None
        self.seconds = 0.0
        self.backend = 'z3'
        self.hits = 0
        self.src = ''
        self.bounded = None

    def as_dict(self):
        d = {'name': self.name, 'kind': self.kind, 'status': self.status,
             'seconds': round(self.seconds, 4), 'backend': self.backend, 'paths': self.hits}
        if self.detail:
            d['detail'] = self.detail
        if self.src:
            d['src'] = self.src
        if self.model is not None:
            d['model'] = self.model
        if self.bounded is not None:
            d['counterexample_search_bound'] = self.bounded
        return d


class Collector(object):
    """Aggregates obligations of one verification unit over all its paths."""

    def __init__(self, unit):
        self.unit = unit
        self.obligations = {}
        self.paths = 0
        self.incomplete = []      # reasons why the unit is not fully explored
        self.covers = {}          # cover label -> reached?
        self.solver_seconds = 0.0
        self.dropped_calls = []   # logging calls etc dropped (A-LOG)
        self.assumed = set()      # names of contracts assumed at call sites
        self.call_sites = {}      # (caller, callee, site) -> feasible outcomes of the assumed contract

    def record(self, name, kind, status, detail='', model=None, seconds=0.0,
               backend='z3', src='', bounded=None):
        ob = self.obligations.get(name)
        if ob is None:
            ob = self.obligations[name] = Obligation(name, kind)
        ob.hits += 1
        ob.seconds += seconds
        self.solver_seconds += seconds
        if src and not ob.src:
            ob.src = src
        if _RANK[status] > _RANK[ob.status] or (ob.hits == 1):
            ob.status = status
            ob.detail = detail
            ob.backend = backend
            if model is not None:
                ob.model = model
                ob.bounded = bounded
        elif backend != 'z3' and ob.backend == 'z3' and status == PROVED:
            ob.backend = 'z3+' + backend

    def cover(self, label, reached=True):
        self.covers[label] = self.covers.get(label, False) or reached


_QCACHE = {}


def _has_quantifier(e):
    k = e.get_id()
    r = _QCACHE.get(k)
    if r is None:
        if z3.is_quantifier(e):
            r = True
        elif z3.is_app(e):
            r = any(_has_quantifier(c) for c in e.children())
        else:
            r = False
        if len(_QCACHE) > 200000:
            _QCACHE.clear()
        _QCACHE[k] = r
    return r


def _is_true(e):
    return z3.is_true(e)


def _is_false(e):
    return z3.is_false(e)


def forall_range(ctx, lo, hi, fn, hint='k'):
    """forall k. lo <= k < hi -> fn(k).  Built only through this helper so that
    the bounded counter-example search can expand it (see expand_bounded)."""
    if isinstance(lo, int) and isinstance(hi, int):
        if hi - lo <= 64:
            parts = [fn(j) for j in range(lo, hi)]
            return z3.And(*[p for p in parts]) if parts else z3.BoolVal(True)
    k = z3.Int('%s!q%d' % (hint, ctx.next_id()))
    body = fn(k)
    if isinstance(body, bool):
        if body:
            return z3.BoolVal(True)
        body = z3.BoolVal(False)
    lo_t = z3.IntVal(lo) if isinstance(lo, int) else lo
    hi_t = z3.IntVal(hi) if isinstance(hi, int) else hi
    ctx.qranges[str(k)] = (lo_t, hi_t)
    return z3.ForAll([k], z3.Implies(z3.And(lo_t <= k, k < hi_t), body))


def expand_bounded(e, N, side, cache=None, qranges=None, env=()):
    """Replace every forall_range quantifier (identified by the name of its bound
    variable, so that simplification of the body does not matter) by its N
    instances k = lo+0..lo+N-1 and add 'hi-lo <= N' to `side`.  The range guard
    is part of the instantiated body, so the expansion is exact for models that
    satisfy `side`.  `env` carries the values chosen for enclosing bound
    variables, because the registered range of an inner quantifier may mention
    them (as the constants they were built from)."""
    if cache is None:
        cache = {}
    key = (e.get_id(), tuple(v.get_id() for _c, v in env))
    if key in cache:
        return cache[key]
    if z3.is_quantifier(e):
        rng = None
        if e.is_forall() and e.num_vars() == 1 and qranges is not None:
            rng = qranges.get(e.var_name(0))
        if rng is None:
            raise EngineError('quantifier not built by forall_range: %s' % e.sexpr()[:200])
        lo, hi = rng
        if env:
            lo = z3.substitute(lo, *env)
            hi = z3.substitute(hi, *env)
        lo = expand_bounded(lo, N, side, cache, qranges, env)
        hi = expand_bounded(hi, N, side, cache, qranges, env)
        if env:
            # the range depends on outer instances: bound it per instance
            side.append(z3.Or(hi - lo <= N, hi <= lo))
        else:
            side.append(hi - lo <= N)
        body = e.body()
        const = z3.Int(e.var_name(0))
        insts = []
        for j in range(N):
            v = z3.simplify(lo + j)
            bi = z3.substitute_vars(body, v)
            insts.append(expand_bounded(bi, N, side, cache, qranges, env + ((const, v),)))
        r = z3.And(*insts)
        cache[key] = r
        return r
    if z3.is_app(e):
        if e.num_args() == 0:
            cache[key] = e
            return e
        args = [expand_bounded(a, N, side, cache, qranges, env) for a in e.children()]
        changed = any(a.get_id() != b.get_id() for a, b in zip(args, e.children()))
        r = e.decl()(*args) if changed else e
        cache[key] = r
        return r
    cache[key] = e
    return e


def _has_var(e):
    if z3.is_var(e):
        return True
    if z3.is_app(e):
        return any(_has_var(c) for c in e.children())
    if z3.is_quantifier(e):
        return True
    return False


def _bound_of(c, lower):
    """Extract lo from 'lo <= Var0' (lower) or hi from 'Var0 < hi'."""
    if not z3.is_app(c) or c.num_args() != 2:
        return None
    a, b = c.arg(0), c.arg(1)
    k = c.decl().kind()
    if lower:
        if k == z3.Z3_OP_LE and z3.is_var(b) and not _has_var(a):
            return a
        if k == z3.Z3_OP_GE and z3.is_var(a) and not _has_var(b):
            return b
    else:
        if k == z3.Z3_OP_LT and z3.is_var(a) and not _has_var(b):
            return b
        if k == z3.Z3_OP_GT and z3.is_var(b) and not _has_var(a):
            return a
    return None


class Ctx(object):
    """One path."""

    def __init__(self, prefix, collector, cfg):
        self.prefix = list(prefix)
        self.trace = []
        self.forks = []
        self.collector = collector
        self.cfg = cfg
        self.solver = z3.Solver()
        self.solver.set('timeout', cfg.branch_timeout_ms)
        self.qf_solver = z3.Solver()       # quantifier-free facts only: fast path-feasibility pruning
        self.qf_solver.set('timeout', cfg.branch_timeout_ms)
        self._id = 0
        self.inputs = []         # (name, kind, payload) for model extraction
        self.spec = 0            # >0: specification mode (no forking)
        self.facts = []          # python list mirror of assertions (for dumps)
        self.ghost = {}          # ghost state of the unit (e.g. visitor trace)
        self.unit_state = {}     # scratch for the verification unit
        self.opaque_hits = []    # things evaluated to Opaque on this path
        self.qranges = {}        # bound-variable name -> (lo, hi) of forall_range quantifiers
        self.split_depth = None  # pre-pass: stop (PathSplit) when a NEW decision is needed at this depth
        self.loc = ''            # source location hint of the statement being executed
        self.path_log = []       # (location, decision) of this path, for counterexample reports
        self.pc_unknown = False

    # -- ids / fresh symbols ------------------------------------------------
    def next_id(self):
        self._id += 1
        return self._id

    def fresh_int(self, hint='i'):
        return z3.Int('%s!%d' % (hint, self.next_id()))

    def fresh_bool(self, hint='b'):
        return z3.Bool('%s!%d' % (hint, self.next_id()))

    # -- assertions -----------------------------------------------------------
    def assume(self, cond):
        if isinstance(cond, bool):
            if not cond:
                raise PathAbort()
            return
        if _is_true(cond):
            return
        self.solver.add(cond)
        self.facts.append(cond)
        if not _has_quantifier(cond):
            self.qf_solver.add(cond)

    def replaying(self):
        return len(self.trace) < len(self.prefix)

    def _check(self, *extra):
        """Feasibility of the path condition (plus extra).  'unsat' is only ever
        answered when it is certain; the quantifier-free subset is tried first
        (fewer hypotheses unsat => all unsat), then the full set briefly."""
        t0 = time.time()
        try:
            r = guarded_check(self.qf_solver, self.cfg.branch_timeout_ms, *extra)
            if r == z3.unsat:
                return r
            if len(self.facts) == len(self.qf_solver.assertions()):
                return r
            self.solver.set('timeout', self.cfg.quant_branch_timeout_ms)
            r2 = guarded_check(self.solver, self.cfg.quant_branch_timeout_ms, *extra)
            self.solver.set('timeout', self.cfg.branch_timeout_ms)
            if r2 == z3.unsat:
                return r2
            return r2 if r2 == z3.sat else z3.unknown
        finally:
            self.collector.solver_seconds += time.time() - t0

    def _decide(self, n_alternatives_fn):
        raise NotImplementedError

    def branch(self, cond, wd_name=None):
        """Return a Python bool for the symbolic condition, forking as needed.
        With wd_name: a proved 'wd' obligation is recorded when the false side
        is infeasible."""
        if isinstance(cond, bool):
            return cond
        if cond is None:
            return False
        cond = z3.simplify(cond)
        if _is_true(cond):
            return True
        if _is_false(cond):
            return False
        if self.spec:
            raise EngineError('fork requested in specification mode: %s' % cond.sexpr()[:200])
        r = self._branch(cond, wd_name)
        self.path_log.append('%s=%s' % (wd_name.rsplit(':wd:', 1)[-1][:40] if wd_name else self.loc, 'T' if r else 'F'))
        return r

    def _branch(self, cond, wd_name=None):
        i = len(self.trace)
        if i < len(self.prefix):
            d = self.prefix[i]
            self.trace.append(d)
            self.assume(cond if d else z3.Not(cond))
            return bool(d)
        if self.split_depth is not None and i >= self.split_depth:
            raise PathSplit()
        rt = self._check(cond)
        if rt == z3.unsat:
            # pc & cond infeasible; pc itself is feasible by construction
            self.trace.append(0)
            self.assume(z3.Not(cond))
            return False
        rf = self._check(z3.Not(cond))
        if rf == z3.unsat:
            self.trace.append(1)
            self.assume(cond)
            if wd_name is not None:
                self.collector.record(wd_name, 'wd', PROVED)
            return True
        if rt == z3.unknown or rf == z3.unknown:
            self.pc_unknown = True
        self.forks.append(self.trace + [0])
        self.trace.append(1)
        self.assume(cond)
        return True

    def choose(self, n, label=''):
        """Non-deterministic choice among n alternatives (no solver)."""
        if n <= 1:
            return 0
        if self.spec:
            raise EngineError('choice requested in specification mode: %s' % label)
        i = len(self.trace)
        if i < len(self.prefix):
            d = self.prefix[i]
            self.trace.append(d)
            self.path_log.append('%s=%d' % (label[:40], d))
            return d
        if self.split_depth is not None and i >= self.split_depth:
            raise PathSplit()
        for k in range(n - 1, 0, -1):
            self.forks.append(self.trace + [k])
        self.trace.append(0)
        self.path_log.append('%s=0' % label[:40])
        return 0

    def provable(self, cond):
        """Is cond valid under the path condition?  Answer is recorded in the
        trace so that replays are deterministic.  'unknown' counts as no."""
        if isinstance(cond, bool):
            return cond
        cond = z3.simplify(cond)
        if _is_true(cond):
            return True
        if _is_false(cond):
            return False
        i = len(self.trace)
        if i < len(self.prefix):
            d = self.prefix[i]
            self.trace.append(d)
            return bool(d)
        if self.split_depth is not None and i >= self.split_depth:
            raise PathSplit()
        r = self._check(z3.Not(cond))
        d = 1 if r == z3.unsat else 0
        self.trace.append(d)
        return bool(d)

    def feasible(self):
        r = self._check()
        return r != z3.unsat

    # -- obligations ----------------------------------------------------------
    def prove(self, name, cond, kind, src=''):
        if self.replaying():
            return
        col = self.collector
        if isinstance(cond, bool):
            cond = z3.BoolVal(cond)
        cond = z3.simplify(cond)
        if _is_true(cond):
            col.record(name, kind, PROVED, src=src, backend='simplifier')
            return
        t0 = time.time()
        s = self.solver
        s.push()
        s.set('timeout', self.cfg.prove_timeout_ms)
        try:
            s.add(z3.Not(cond))
            r = guarded_check(s, self.cfg.prove_timeout_ms)
            if r == z3.unsat:
                col.record(name, kind, PROVED, seconds=time.time() - t0, src=src)
                return
            model = None
            if r == z3.sat:
                model = self.extract_model(s.model())
            # try to find a small, printable counterexample (also decides many
            # z3 'unknown's in the presence of quantified hypotheses)
            bm = self._bounded_refute(z3.Not(cond))
            if bm is not None:
                col.record(name, kind, REFUTED, model=bm, seconds=time.time() - t0, src=src,
                           bounded=self.cfg.refute_bound,
                           detail='counterexample found with quantifier ranges <= %d'
                                  % self.cfg.refute_bound)
                return
            if r == z3.sat:
                col.record(name, kind, REFUTED, model=model, seconds=time.time() - t0, src=src)
                return
            # z3 unknown: ask cvc5 for a proof
            if self.cfg.use_cvc5:
                rr = cvc5_check(s, self.cfg.prove_timeout_ms)
                if rr == 'unsat':
                    col.record(name, kind, PROVED, seconds=time.time() - t0, src=src,
                               backend='cvc5')
                    return
            col.record(name, kind, UNDECIDED, seconds=time.time() - t0, src=src,
                       detail='solver: %s' % s.reason_unknown())
        finally:
            s.set('timeout', self.cfg.branch_timeout_ms)
            s.pop()

    def unchecked(self, name, kind, why, src=''):
        if self.replaying():
            return
        self.collector.record(name, kind, UNCHECKED, detail=why, src=src)

    def _bounded_refute(self, negcond):
        N = self.cfg.refute_bound
        side = []
        cache = {}
        try:
            asserts = [expand_bounded(a, N, side, cache, self.qranges) for a in self.facts]
            goal = expand_bounded(negcond, N, side, cache, self.qranges)
        except EngineError:
            return None
        s2 = z3.Solver()
        s2.set('timeout', self.cfg.prove_timeout_ms)
        s2.add(*asserts)
        s2.add(goal)
        s2.add(*side)
        # printable-ASCII witnesses, short strings
        nice = []
        for (nm, kind, payload) in self.inputs:
            if kind == 'str':
                arr, ln = payload
                nice.append(ln <= N)
                for j in range(N):
                    c = arr[j]
                    nice.append(z3.Or(z3.And(c >= 32, c <= 126), c == 10, c == 9))
            elif kind == 'int':
                nice.append(z3.And(payload >= -2, payload <= 4 * N))
        r = guarded_check(s2, self.cfg.prove_timeout_ms, *nice)
        if r != z3.sat:
            r = guarded_check(s2, self.cfg.prove_timeout_ms)
        if r == z3.sat:
            return self.extract_model(s2.model())
        return None

    def extract_model(self, m):
        out = {}
        for (nm, kind, payload) in self.inputs:
            try:
                if kind == 'int':
                    v = m.eval(payload, model_completion=True)
                    out[nm] = v.as_long()
                elif kind == 'bool':
                    v = m.eval(payload, model_completion=True)
                    out[nm] = z3.is_true(v)
                elif kind == 'str':
                    arr, ln = payload
                    n = m.eval(ln, model_completion=True).as_long()
                    codes = []
                    for j in range(min(n, 200)):
                        c = m.eval(arr[j], model_completion=True).as_long()
                        codes.append(c)
                    out[nm] = {'len': n, 'codes': codes,
                               'text': ''.join(chr(c) if 0 <= c < 0x110000 else '?' for c in codes)}
                elif kind == 'expr':
                    v = m.eval(payload, model_completion=True)
                    out[nm] = str(v)
            except Exception as e:  # model extraction is best effort
                out[nm] = '<%s>' % e
        out['_decisions'] = list(self.trace)
        out['_path'] = list(self.path_log[-40:])
        return out

    def register_input(self, name, kind, payload):
        self.inputs.append((name, kind, payload))


def guarded_check(solver, timeout_ms, *extra):
    """solver.check with a hard stop: z3's own (soft) timeout is not honoured inside some quantifier-instantiation loops, so
    a watchdog thread interrupts the context when the query runs for more than twice its budget (+3 s).  An interrupted
    query answers `unknown`, like a timed-out one."""
    import threading
    t = threading.Timer(2.0 * timeout_ms / 1000.0 + 3.0, solver.ctx.interrupt)
    t.daemon = True
    t.start()
    try:
        return solver.check(*extra)
    except z3.Z3Exception as e:
        if 'cancel' in str(e).lower() or 'interrupt' in str(e).lower():
            return z3.unknown
        raise
    finally:
        t.cancel()


_CVC5 = '/usr/bin/cvc5'


def cvc5_check(solver, timeout_ms):
    """Send the solver's current assertions to the cvc5 binary.  Only 'unsat'
    is ever used (as a proof); anything else leaves the obligation undecided."""
    if not os.path.exists(_CVC5):
        return 'unknown'
    try:
        text = solver.to_smt2()
    except Exception:
        return 'unknown'
    text = '(set-logic ALL)\n' + text
    fd, path = tempfile.mkstemp(suffix='.smt2', prefix='pyvc_')
    try:
        with os.fdopen(fd, 'w') as f:
            f.write(text)
        p = subprocess.run([_CVC5, '--lang', 'smt2', '--tlimit=%d' % timeout_ms, path],
                           capture_output=True, text=True, timeout=timeout_ms / 1000.0 + 5)
        out = p.stdout.strip().splitlines()
        return out[0] if out else 'unknown'
    except Exception:
        return 'unknown'
    finally:
        try:
            os.unlink(path)
        except OSError:
            pass


def explore(run_path, collector, cfg, start=None, split_depth=None):
    """Run run_path(ctx) for every feasible decision prefix.  With split_depth:
    stop each path where it needs a new decision at that depth and return those
    prefixes (the frontier) instead of exploring below them."""
    stack = [list(p) for p in (start if start is not None else [[]])]
    frontier = []
    while stack:
        prefix = stack.pop()
        ctx = Ctx(prefix, collector, cfg)
        ctx.split_depth = split_depth
        try:
            run_path(ctx)
        except PathSplit:
            frontier.append(list(ctx.trace))
            stack.extend(ctx.forks)
            continue
        except PathAbort:
            pass
        collector.paths += 1
        stack.extend(ctx.forks)
        if collector.paths >= cfg.max_paths and stack:
            collector.incomplete.append('path limit %d reached' % cfg.max_paths)
            break
    return frontier
