"""Models of Python builtins and of the few stdlib modules the repo uses
(assumption A-LIB: every symbolic model here is validated against CPython by
pyvc.axioms on generated instances, but not proved)."""
import re as _re
import unicodedata as _ud

import z3

from . import values as V
from .values import (Obj, PyList, PyDict, PySet, SStr, StrBase, Func, BoundMethod, Builtin,
                     BuiltinMethod, Partial, SuperVal, ModuleVal, BuiltinModule, Opaque,
                     CharSet, is_str, is_int, is_boolv, zint, simp, z_and, z_or, z_not, z_eq)
from .smt import EngineError, forall_range
from .program import ClassInfo

STR_METHODS = {'find', 'rfind', 'count', 'startswith', 'endswith', 'strip', 'lstrip', 'rstrip',
               'isspace', 'isalpha', 'isalnum', 'isdigit', 'format', 'join', 'split', 'replace',
               'lower', 'upper', 'encode', 'decode', 'splitlines', 'index', 'rindex', 'title',
               'zfill', 'ljust', 'rjust', 'partition', 'rpartition', 'isupper', 'islower',
               'capitalize', 'expandtabs', 'center', 'isascii', 'rsplit', 'translate', 'casefold'}

BUILTIN_MODULES = {'re', 'os', 'os.path', 'sys', 'logging', 'bisect', 'unicodedata', 'functools',
                   'itertools', 'collections', 'inspect', 'textwrap', 'json', 'copy', 'warnings',
                   'importlib', 'argparse', 'fileinput', 'codecs', 'io', 'math', 'string',
                   'chainmap', 'pkgutil', 'datetime', 'traceback', 'types', 'keyword'}


class Namespace(object):
    def __init__(self, name, attrs):
        self.name = name
        self.attrs = attrs

    def pyvc_getattr(self, it, name):
        if name in self.attrs:
            return self.attrs[name]
        it.raise_builtin('AttributeError', 'wd:attr[%s.%s]' % (self.name, name))


class RangeVal(object):
    def __init__(self, lo, hi):
        self.lo = lo
        self.hi = hi

    def pyvc_iter(self, it):
        if isinstance(self.lo, int) and isinstance(self.hi, int):
            return list(range(self.lo, self.hi))
        raise EngineError('iteration over a symbolic range (needs a loop contract)')


def _pytype(name):
    from .interp import TypeMarker
    return TypeMarker(name)


def make_set(it, items):
    out = []
    for x in items:
        dup = False
        for y in out:
            t = it.equal_term(x, y)
            if isinstance(t, bool):
                if t:
                    dup = True
                    break
            else:
                if it.ctx.branch(t):
                    dup = True
                    break
        if not dup:
            out.append(x)
    return PySet(out)


# ---------------------------------------------------------------------------
# list helpers
# ---------------------------------------------------------------------------
def _log(it, obj):
    if it.heap_log is not None:
        it.heap_log.append((obj, '[]'))


def list_append(it, lst, v):
    _log(it, lst)
    if lst.items is not None:
        lst.items.append(v)
        return
    if lst.codec is not None:
        v = lst.codec.encode(it, v)
    if not is_int(v):
        raise EngineError('append of non-int to symbolic int list')
    lst.arr = z3.Store(lst.arr, lst.length, zint(v))
    lst.length = simp(lst.length + 1)


def list_extend(it, lst, other):
    _log(it, lst)
    if lst.items is None:
        raise EngineError('extend of symbolic list')
    lst.items.extend(it.iter_values(other))


# ---------------------------------------------------------------------------
# string operations
# ---------------------------------------------------------------------------
def _norm_start(it, s, start):
    """normalised start index (>= 0), not clamped above."""
    if start is None:
        return 0
    n = V.slen(s)
    if isinstance(start, int):
        if start >= 0:
            return start
        if isinstance(n, int):
            return max(n + start, 0)
    if it.ctx.spec or it.ctx.provable(zint(start) >= 0):
        return start
    return simp(z3.If(zint(start) < 0, z3.If(zint(n) + zint(start) < 0, 0, zint(n) + zint(start)), zint(start)))


def match_at(it, s, sub, j):
    """truth term: sub occurs in s at index j (0 <= j assumed)."""
    m = V.slen(sub)
    n = V.slen(s)
    fits = simp(zint(j) + zint(m) <= zint(n))
    if isinstance(sub, str):
        return z_and(fits, *[z_eq(V.char_at(s, simp(zint(j) + k)), ord(sub[k])) for k in range(len(sub))])
    if isinstance(m, int) and m <= 6:
        return z_and(fits, *[z_eq(V.char_at(s, simp(zint(j) + k)), V.char_at(sub, k)) for k in range(m)])
    return z_and(fits, forall_range(it.ctx, 0, m,
                                    lambda k: zint(V.char_at(s, simp(zint(j) + k))) == zint(V.char_at(sub, k)), 'mk'))


def str_startswith(it, s, prefix, start=None, end=None):
    if end is not None:
        s = V.sslice(it.ctx, s, None, end)
    if isinstance(prefix, tuple):
        return z_or(*[str_startswith(it, s, p, start) for p in prefix])
    if not is_str(prefix):
        it.raise_builtin('TypeError', 'wd:type[startswith arg]')
    if isinstance(s, str) and isinstance(prefix, str) and (start is None or isinstance(start, int)):
        return s.startswith(prefix, start if start is not None else 0)
    st = _norm_start(it, s, start)
    return match_at(it, s, prefix, st)


def str_endswith(it, s, suffix):
    if isinstance(suffix, tuple):
        return z_or(*[str_endswith(it, s, p) for p in suffix])
    if isinstance(s, str) and isinstance(suffix, str):
        return s.endswith(suffix)
    n, m = V.slen(s), V.slen(suffix)
    j = simp(zint(n) - zint(m))
    return z_and(simp(zint(j) >= 0), match_at(it, s, suffix, j))


def str_find(it, s, sub, start=None, end=None, reverse=False):
    if not is_str(sub):
        it.raise_builtin('TypeError', 'wd:type[find arg]')
    if isinstance(s, str) and isinstance(sub, str) and all(x is None or isinstance(x, int) for x in (start, end)):
        return (s.rfind if reverse else s.find)(sub, start, end)
    if end is not None:
        raise EngineError('find with end bound on symbolic string')
    ctx = it.ctx
    n = V.slen(s)
    m = V.slen(sub)
    if not (isinstance(m, int) and m >= 1):
        if not ctx.provable(zint(m) >= 1):
            raise EngineError('find of possibly empty symbolic needle')
    st = _norm_start(it, s, start)
    r = ctx.fresh_int('rfind' if reverse else 'find')
    last = simp(zint(n) - zint(m) + 1)     # exclusive upper bound of match positions
    if not reverse:
        nf = z_and(r == -1, forall_range(ctx, st, last, lambda j: z_not(match_at(it, s, sub, j)), 'fj'))
        fd = z_and(zint(st) <= r, r < zint(last), match_at(it, s, sub, r),
                   forall_range(ctx, st, r, lambda j: z_not(match_at(it, s, sub, j)), 'fj'))
    else:
        nf = z_and(r == -1, forall_range(ctx, st, last, lambda j: z_not(match_at(it, s, sub, j)), 'fj'))
        fd = z_and(zint(st) <= r, r < zint(last), match_at(it, s, sub, r),
                   forall_range(ctx, r + 1, last, lambda j: z_not(match_at(it, s, sub, j)), 'fj'))
    ctx.assume(z_or(nf, fd))
    return r


def str_count(it, s, sub):
    if isinstance(s, str) and isinstance(sub, str):
        return s.count(sub)
    ctx = it.ctx
    if not (isinstance(sub, str) and len(sub) == 1):
        c = ctx.fresh_int('count')
        ctx.assume(c >= 0)
        return c
    code = ord(sub)
    n = V.slen(s)
    memo = ctx.ghost.setdefault('str_count', {})
    mk = (V.str_key(s), sub)
    if mk in memo:
        return memo[mk]
    c = memo[mk] = ctx.fresh_int('count')
    i1 = ctx.fresh_int('cfirst')
    i2 = ctx.fresh_int('clast')

    def at(k):
        return zint(V.char_at(s, k)) == code

    def nowhere(lo, hi):
        return forall_range(ctx, lo, hi, lambda k: z_not(at(k)), 'cj')
    ctx.assume(z3.And(c >= 0, c <= zint(n)))
    ctx.assume(z3.Implies(c == 0, nowhere(0, n)))
    ctx.assume(z3.Implies(c >= 1, z3.And(0 <= i1, i1 < zint(n), at(i1), nowhere(0, i1))))
    ctx.assume(z3.Implies(c >= 1, z3.And(0 <= i2, i2 < zint(n), at(i2), nowhere(i2 + 1, n), i1 <= i2)))
    ctx.assume(z3.Implies(c == 1, i1 == i2))
    ctx.assume(z3.Implies(c >= 2, i1 < i2))
    # conversely: an occurrence implies c >= 1, two distinct occurrences imply c >= 2
    ctx.assume(z3.Implies(i1 < i2, c >= 2)) if False else None
    k0 = ctx.fresh_int('cany')
    ctx.assume(forall_range(ctx, 0, n, lambda k: z3.Implies(at(k), c >= 1), 'cj'))
    ctx.assume(forall_range(ctx, 0, n, lambda k: z3.Implies(z3.And(at(k), c == 1), k == i1), 'cj'))
    ctx.assume(c <= i2 - i1 + 1)
    return c


def str_all_pred(it, s, name):
    n = V.slen(s)
    if isinstance(s, str):
        return getattr(s, name)()
    body = V.str_all(it.ctx, s, lambda code: V.char_pred(name, code), memo=name)
    return z_and(simp(zint(n) >= 1), body)


def str_strip(it, s, chars=None, left=True, right=True):
    if isinstance(s, str) and (chars is None or isinstance(chars, str)):
        if left and right:
            return s.strip(chars)
        return s.lstrip(chars) if left else s.rstrip(chars)
    if chars is not None and not isinstance(chars, str):
        raise EngineError('strip with symbolic char set')
    ctx = it.ctx
    atoms = V.atoms_of(s)
    if chars is None and not ctx.spec and not isinstance(V.slen(s), int) or (chars is None and not ctx.spec and len(atoms) == 1 and atoms[0][0] == 'ch'):
        # nothing to strip: a single character that is not whitespace
        if (len(atoms) == 1 and atoms[0][0] == 'ch' or ctx.provable(zint(V.slen(s)) == 1)) and \
                ctx.provable(z_not(V.char_pred('isspace', V.char_at(s, 0)))):
            return s
    if not (len(atoms) == 1 and atoms[0][0] == 'sl'):
        return it.fresh_str('strip')
    n = V.slen(s)

    def drop(code):
        if chars is None:
            return V.char_pred('isspace', code)
        return z3.Or(*[code == ord(c) for c in chars]) if chars else z3.BoolVal(False)
    memo = ctx.ghost.setdefault('str_strip', {})
    mk = (V.str_key(s), chars, left, right)
    if mk in memo:
        a, b = memo[mk]           # strip is a function: the same bounds for the same string
        return V.sslice(ctx, s, a, b)
    a = ctx.fresh_int('stripa') if left else 0
    b = ctx.fresh_int('stripb') if right else n
    memo[mk] = (a, b)
    ctx.assume(z3.And(0 <= zint(a), zint(a) <= zint(b), zint(b) <= zint(n)))
    if left:
        ctx.assume(forall_range(ctx, 0, a, lambda k: drop(zint(V.char_at(s, k))), 'sk'))
        ctx.assume(z3.Or(a == zint(b) if right else a == zint(n), z3.Not(drop(zint(V.char_at(s, a))))))
    if right:
        ctx.assume(forall_range(ctx, b, n, lambda k: drop(zint(V.char_at(s, k))), 'sk'))
        ctx.assume(z3.Or(zint(a) == b, z3.Not(drop(zint(V.char_at(s, b - 1))))))
    return V.sslice(ctx, s, a, b)


def str_contains(it, cont, item):
    if isinstance(cont, str) and isinstance(item, str):
        return item in cont
    ctx = it.ctx
    m = V.slen(item)
    if isinstance(cont, str):
        if isinstance(m, int) and m == 1 or (not ctx.spec and ctx.provable(zint(m) == 1)):
            code = V.char_at(item, 0)
            cs = sorted(set(cont))
            return z_or(*[z_eq(code, ord(c)) for c in cs])
        if len(cont) <= 8:
            subs = {''}
            for i in range(len(cont)):
                for j in range(i + 1, len(cont) + 1):
                    subs.add(cont[i:j])
            return z_or(*[V.seq_eq(ctx, item, x) for x in sorted(subs)])
        raise EngineError('substring test of a symbolic string in a long literal')
    n = V.slen(cont)
    if isinstance(m, int) and m == 0:
        return True
    last = simp(zint(n) - zint(m) + 1)
    return z_not(forall_range(ctx, 0, last, lambda j: z_not(match_at(it, cont, item, j)), 'inj'))


def _concrete(v):
    return isinstance(v, (str, int, bool)) or v is None


def to_py(it, v):
    """Concrete python value of a (fully concrete) engine value, else raise."""
    if _concrete(v):
        return v
    if isinstance(v, tuple):
        return tuple(to_py(it, x) for x in v)
    if isinstance(v, PyList) and v.items is not None:
        return [to_py(it, x) for x in v.items]
    if isinstance(v, PyDict):
        return {to_py(it, k): to_py(it, x) for k, x in v.items.items()}
    raise EngineError('value is not concrete: %r' % (v,))


def from_py(v):
    if isinstance(v, (str, int, bool)) or v is None:
        return v
    if isinstance(v, tuple):
        return tuple(from_py(x) for x in v)
    if isinstance(v, list):
        return PyList([from_py(x) for x in v])
    if isinstance(v, dict):
        return PyDict({k: from_py(x) for k, x in v.items()})
    if isinstance(v, frozenset):
        return frozenset(v)
    raise EngineError('cannot import python value %r' % (v,))


def call_str_method(it, name, s, args, kwargs, node):
    ctx = it.ctx
    if kwargs and name not in ('format', 'split', 'encode', 'decode', 'splitlines'):
        raise EngineError('keyword arguments to str.%s' % name)
    if name == 'find':
        return str_find(it, s, *args)
    if name == 'rfind':
        return str_find(it, s, *args, reverse=True)
    if name in ('index', 'rindex'):
        r = str_find(it, s, *args, reverse=(name == 'rindex'))
        if ctx.branch(z_eq(r, -1)):
            it.raise_builtin('ValueError', 'wd:value[substring not found]')
        return r
    if name == 'count':
        return str_count(it, s, *args)
    if name == 'startswith':
        return simp(V.zbool(str_startswith(it, s, *args))) if not isinstance(str_startswith(it, s, *args), bool) \
            else str_startswith(it, s, *args)
    if name == 'endswith':
        return str_endswith(it, s, *args)
    if name in ('isspace', 'isalpha', 'isalnum', 'isdigit'):
        return str_all_pred(it, s, name)
    if name == 'strip':
        return str_strip(it, s, *args)
    if name == 'lstrip':
        return str_strip(it, s, *args, right=False)
    if name == 'rstrip':
        return str_strip(it, s, *args, left=False)
    if name == 'join':
        if isinstance(args[0], V.GenericList):
            if not is_str(args[0].elem):
                it.raise_builtin('TypeError', 'wd:type[join of non-str]')
            return it.fresh_str('joined')
        if isinstance(args[0], V.SStr) and not isinstance(V.slen(args[0]), int):
            return it.fresh_str('joined')       # sep.join(symbolic string): its characters separated by sep
        items = it.iter_values(args[0])
        out = ''
        for i, x in enumerate(items):
            if not is_str(x):
                it.raise_builtin('TypeError', 'wd:type[join of non-str]')
            if i:
                out = V.sconcat(out, s)
            out = V.sconcat(out, x)
        return out
    if name == 'format':
        if isinstance(s, str) and all(_concrete(a) for a in args) and all(_concrete(a) for a in kwargs.values()):
            try:
                return s.format(*args, **kwargs)
            except (IndexError, KeyError):
                it.raise_builtin('IndexError', 'wd:format[%s]' % s[:30])
            except (ValueError, TypeError):
                it.raise_builtin('ValueError', 'wd:format[%s]' % s[:30])
        if isinstance(s, str):
            _check_format_arity(it, s, args, kwargs)
            # a template made of literal text and plain '{}' fields, filled with strings / integers: the concatenation of
            # the pieces with str() of each argument (str of an unknown integer is one unknown string per integer term)
            if not kwargs and '{{' not in s and '}}' not in s and s.count('{}') == len(args) == s.count('{') == s.count('}') \
                    and all(is_str(a) or is_int(a) and not isinstance(a, bool) for a in args):
                pieces = s.split('{}')
                out = pieces[0]
                for a, lit in zip(args, pieces[1:]):
                    out = V.sconcat(V.sconcat(out, a if is_str(a) else int_str(it, a)), lit)
                return out
        return it.fresh_str('format')
    # remaining methods: concrete only, else an unconstrained fresh string/list
    if isinstance(s, str) and all(_concrete(a) or isinstance(a, tuple) for a in args):
        try:
            r = getattr(s, name)(*[to_py(it, a) for a in args], **{k: to_py(it, v) for k, v in kwargs.items()})
        except (ValueError, TypeError, UnicodeError) as e:
            it.raise_builtin(type(e).__name__ if type(e).__name__ in it.program.builtin_classes else 'ValueError',
                             'wd:value[str.%s]' % name)
        if isinstance(r, bytes):
            return Opaque('bytes')
        return from_py(r)
    if name == 'replace' and len(args) >= 2 and is_str(args[0]) and is_str(args[1]):
        t = it.equal_term(args[0], args[1])
        if isinstance(t, bool) and t and not (isinstance(args[0], str) and args[0] == ''):
            return s          # replacing a substring by itself
    if name in ('lower', 'upper', 'replace', 'strip_', 'title', 'capitalize', 'casefold') and \
            all(is_str(a) for a in args) and not kwargs:
        # a function of its arguments: the same call on the same strings yields the same (otherwise unknown) string
        memo = ctx.ghost.setdefault('str_fn', {})
        mk = (name, V.str_key(s)) + tuple(V.str_key(a) for a in args)
        if mk not in memo:
            memo[mk] = it.fresh_str(name)
        return memo[mk]
    if name in ('lower', 'upper', 'replace', 'title', 'capitalize', 'expandtabs', 'casefold',
                'zfill', 'ljust', 'rjust', 'center', 'translate'):
        return it.fresh_str(name)
    if name in ('isupper', 'islower', 'isascii'):
        return ctx.fresh_bool(name)
    if name in ('encode',):
        return Opaque('bytes')
    if name == 'split' and not args and not kwargs and not ctx.spec:
        # s.split() of a single non-space character is [s]
        n = V.slen(s)
        if ctx.provable(zint(n) == 1) and ctx.provable(z_not(V.char_pred('isspace', V.char_at(s, 0)))):
            return PyList([s])
    raise EngineError('str.%s on a symbolic string' % name)


def _check_format_arity(it, fmt, args, kwargs):
    import string
    try:
        fields = list(string.Formatter().parse(fmt))
    except ValueError:
        it.raise_builtin('ValueError', 'wd:format[%s]' % fmt[:30])
    auto = 0
    for (_lit, fname, _spec, _conv) in fields:
        if fname is None:
            continue
        head = fname.split('.')[0].split('[')[0]
        if head == '':
            if auto >= len(args):
                it.raise_builtin('IndexError', 'wd:format[%s]' % fmt[:30])
            auto += 1
        elif head.isdigit():
            if int(head) >= len(args):
                it.raise_builtin('IndexError', 'wd:format[%s]' % fmt[:30])
        elif head not in kwargs:
            it.raise_builtin('KeyError', 'wd:format[%s]' % fmt[:30])


def call_list_method(it, name, lst, args, kwargs, node):
    ctx = it.ctx
    if name == 'append':
        list_append(it, lst, args[0])
        return None
    if name == 'extend':
        list_extend(it, lst, args[0])
        return None
    if lst.items is None:
        return sym_list_method(it, name, lst, args, kwargs, node)
    items = lst.items
    if name == 'insert':
        _log(it, lst)
        idx = args[0]
        if isinstance(idx, int):
            items.insert(idx, args[1])
            return None
        raise EngineError('list.insert at symbolic index on concrete list')
    if name == 'pop':
        _log(it, lst)
        if not items:
            it.raise_builtin('IndexError', 'wd:index[pop from empty list]')
        idx = args[0] if args else -1
        if not isinstance(idx, int):
            raise EngineError('pop with symbolic index')
        if not (-len(items) <= idx < len(items)):
            it.raise_builtin('IndexError', 'wd:index[pop index out of range]')
        return items.pop(idx)
    if name == 'index':
        for i, x in enumerate(items):
            if ctx.branch(it.equal_term(x, args[0])):
                return i
        it.raise_builtin('ValueError', 'wd:value[list.index: not in list]')
    if name == 'remove':
        _log(it, lst)
        for i, x in enumerate(items):
            if ctx.branch(it.equal_term(x, args[0])):
                del items[i]
                return None
        it.raise_builtin('ValueError', 'wd:value[list.remove: not in list]')
    if name == 'count':
        n = 0
        for x in items:
            if ctx.branch(it.equal_term(x, args[0])):
                n += 1
        return n
    if name == 'reverse':
        _log(it, lst)
        items.reverse()
        return None
    if name == 'copy':
        return PyList(list(items))
    if name == 'clear':
        _log(it, lst)
        del items[:]
        return None
    if name == 'sort':
        _log(it, lst)
        r = bi_sorted(it, [lst], kwargs)
        lst.items = r.items
        return None
    raise EngineError('list.%s' % name)


def sym_list_method(it, name, lst, args, kwargs, node):
    """list methods on a symbolic (Int-coded) list; A-LIB contracts of list.insert/index/copy."""
    ctx = it.ctx
    enc = (lambda v: lst.codec.encode(it, v)) if lst.codec is not None else (lambda v: v)
    n, arr = lst.length, lst.arr
    if name == 'insert':
        _log(it, lst)
        i, x = args[0], zint(enc(args[1]))
        if not is_int(i):
            it.raise_builtin('TypeError', 'wd:type[list.insert index]')
        i = zint(i)
        # python clamps the index into [0, n] (negative indices count from the end)
        idx = simp(z3.If(i < 0, z3.If(n + i < 0, 0, n + i), z3.If(i > n, n, i)))
        new = z3.Array('ins!%d' % ctx.next_id(), z3.IntSort(), z3.IntSort())
        ctx.assume(forall_range(ctx, 0, idx, lambda j: new[j] == arr[j], 'li'))
        ctx.assume(new[idx] == x)
        ctx.assume(forall_range(ctx, idx + 1, n + 1, lambda j: new[j] == arr[j - 1], 'li'))
        lst.arr = new
        lst.length = simp(n + 1)
        return None
    if name == 'index':
        x = zint(enc(args[0]))
        r = ctx.fresh_int('index')
        found = z3.And(0 <= r, r < n, arr[r] == x, forall_range(ctx, 0, r, lambda j: arr[j] != x, 'li'))
        absent = forall_range(ctx, 0, n, lambda j: arr[j] != x, 'li')
        if ctx.branch(z_not(absent)):
            ctx.assume(found)
            return r
        it.raise_builtin('ValueError', 'wd:value[list.index: not in list]')
    if name == 'copy':
        return PyList(None, n, arr, lst.tag, lst.codec)
    raise EngineError('list.%s on symbolic list' % name)


def call_dict_method(it, name, d, args, kwargs, node):
    ctx = it.ctx
    if name == 'get':
        try:
            return it.dict_get(d, args[0])
        except Exception as e:
            from .interp import PyExc
            if isinstance(e, PyExc) and e.value.cls.name == 'KeyError':
                return args[1] if len(args) > 1 else None
            raise
    if name == 'items':
        return PyList([(k, v) for k, v in d.items.items()])
    if name == 'keys':
        return PyList(list(d.items.keys()))
    if name == 'values':
        return PyList(list(d.items.values()))
    if name == 'copy':
        return PyDict(dict(d.items))
    if name == 'pop':
        _log(it, d)
        from .interp import PyExc, _hkey
        k = _hkey(args[0])
        if k is None:
            raise EngineError('dict.pop with symbolic key')
        if k in d.items:
            return d.items.pop(k)
        if len(args) > 1:
            return args[1]
        it.raise_builtin('KeyError', 'wd:key[dict.pop]')
    if name == 'update':
        _log(it, d)
        for a in args:
            if isinstance(a, PyDict):
                for k, v in a.items.items():
                    d.items[k] = v
            else:
                for kv in it.iter_values(a):
                    k, v = it.iter_values(kv)
                    it.dict_set(d, k, v)
        for k, v in kwargs.items():
            d.items[k] = v
        return None
    if name == 'setdefault':
        from .interp import _hkey
        k = _hkey(args[0])
        if k is None:
            raise EngineError('setdefault with symbolic key')
        if k not in d.items:
            _log(it, d)
            d.items[k] = args[1] if len(args) > 1 else None
        return d.items[k]
    if name == 'clear':
        _log(it, d)
        d.items.clear()
        return None
    if name == '__contains__':
        return it.contains_term(args[0], d)
    raise EngineError('dict.%s' % name)


def call_set_method(it, name, s, args, kwargs, node):
    if isinstance(s, frozenset):
        s = PySet(list(s), frozen=True)
    if name == 'add':
        _log(it, s)
        t = it.contains_term(args[0], s)
        if not it.ctx.branch(t):
            s.items.append(args[0])
        return None
    if name == 'union':
        items = list(s.items)
        for a in args:
            items.extend(it.iter_values(a))
        return make_set(it, items)
    if name == 'copy':
        return PySet(list(s.items))
    if name == 'discard' or name == 'remove':
        _log(it, s)
        for i, x in enumerate(s.items):
            if it.ctx.branch(it.equal_term(x, args[0])):
                del s.items[i]
                return None
        if name == 'remove':
            it.raise_builtin('KeyError', 'wd:key[set.remove]')
        return None
    if name == 'update':
        _log(it, s)
        for a in args:
            for x in it.iter_values(a):
                if not it.ctx.branch(it.contains_term(x, s)):
                    s.items.append(x)
        return None
    raise EngineError('set.%s' % name)


def call_builtin_method(it, bm, args, kwargs, node):
    kind, _, name = bm.name.partition('.')
    if kind == 'str':
        return call_str_method(it, name, bm.recv, args, kwargs, node)
    if kind == 'list':
        return call_list_method(it, name, bm.recv, args, kwargs, node)
    if kind == 'dict':
        return call_dict_method(it, name, bm.recv, args, kwargs, node)
    if kind == 'set':
        return call_set_method(it, name, bm.recv, args, kwargs, node)
    if kind == 'tuple':
        if name == 'index':
            return call_list_method(it, 'index', PyList(list(bm.recv)), args, kwargs, node)
        if name == 'count':
            return call_list_method(it, 'count', PyList(list(bm.recv)), args, kwargs, node)
    if kind == 'object':
        if name == '__init__':
            if args or kwargs:
                it.raise_builtin('TypeError', 'wd:bind[object.__init__() takes exactly one argument]')
            return None
        if name == '__enter__':
            return bm.recv
        if name == '__exit__':
            return None
        if name in ('__repr__', '__str__'):
            return it.fresh_str('repr')
    if kind == 'charset':
        if name == '__contains__':
            return it.contains_term(args[0], bm.recv)
    raise EngineError('builtin method %s' % bm.name)


# ---------------------------------------------------------------------------
# builtin functions
# ---------------------------------------------------------------------------
def bi_len(it, args, kwargs):
    (v,) = args
    if is_str(v):
        return V.slen(v)
    if isinstance(v, tuple):
        return len(v)
    if isinstance(v, PyList):
        return len(v.items) if v.items is not None else v.length
    if isinstance(v, PyDict):
        return len(v.items)
    if isinstance(v, PySet):
        return len(v.items)
    if isinstance(v, frozenset):
        return len(v)
    if isinstance(v, Obj):
        if it.class_lookup(v.cls, '__len__'):
            return it.call_method(v, '__len__', [], {})
        it.raise_builtin('TypeError', 'wd:type[len() of object]')
    if v is None:
        it.raise_builtin('TypeError', 'wd:none[len(None)]')
    if is_int(v) or is_boolv(v):
        it.raise_builtin('TypeError', 'wd:type[len() of int]')
    if hasattr(v, 'pyvc_len'):
        return v.pyvc_len(it)
    raise EngineError('len of %r' % (v,))


def isinstance_term(it, v, t):
    from .interp import TypeMarker
    if isinstance(t, tuple):
        return z_or(*[isinstance_term(it, v, x) for x in t])
    if isinstance(v, Opaque):
        raise EngineError('isinstance of opaque value')
    if isinstance(t, TypeMarker):
        n = t.name
        if n == 'str':
            return is_str(v)
        if n == 'int':
            return is_int(v) or is_boolv(v)
        if n == 'bool':
            return is_boolv(v)
        if n == 'list':
            return isinstance(v, PyList)
        if n == 'tuple':
            return isinstance(v, tuple)
        if n == 'dict':
            return isinstance(v, PyDict)
        if n == 'set':
            return isinstance(v, PySet) and not v.frozen
        if n == 'frozenset':
            return isinstance(v, frozenset) or (isinstance(v, PySet) and v.frozen)
        if n == 'object':
            return True
        if n == 'NoneType':
            return v is None
        if n in ('float', 'bytes', 'complex'):
            return False
        if n == 'type':
            return isinstance(v, (ClassInfo, TypeMarker))
        raise EngineError('isinstance(_, %s)' % n)
    if isinstance(t, ClassInfo):
        if isinstance(v, Obj):
            return v.cls.is_subclass_of(t)
        if t.name == 'object' and t.builtin:
            return True
        return False
    if hasattr(t, 'pyvc_isinstance'):
        return t.pyvc_isinstance(it, v)
    raise EngineError('isinstance(_, %r)' % (t,))


def bi_isinstance(it, args, kwargs):
    return isinstance_term(it, args[0], args[1])


def bi_issubclass(it, args, kwargs):
    a, b = args
    if isinstance(b, tuple):
        return any(bi_issubclass(it, [a, x], {}) for x in b)
    if isinstance(a, ClassInfo) and isinstance(b, ClassInfo):
        return a.is_subclass_of(b)
    return False


def bi_getattr(it, args, kwargs):
    from .interp import PyExc
    o, name = args[0], args[1]
    if not isinstance(name, str):
        raise EngineError('getattr with symbolic name')
    if len(args) == 2:
        return it.getattr(o, name, 'getattr(., %r)' % name)
    try:
        return it.getattr(o, name)
    except PyExc as e:
        if e.value.cls.name == 'AttributeError':
            return args[2]
        raise


def bi_setattr(it, args, kwargs):
    o, name, v = args
    if not isinstance(name, str):
        raise EngineError('setattr with symbolic name')
    it.setattr(o, name, v)
    return None


def bi_hasattr(it, args, kwargs):
    o, name = args
    if not isinstance(name, str):
        raise EngineError('hasattr with symbolic name')
    return it.hasattr(o, name)


def bi_callable(it, args, kwargs):
    v = args[0]
    if isinstance(v, (Func, BoundMethod, Builtin, BuiltinMethod, ClassInfo, Partial)):
        return True
    if isinstance(v, Obj):
        return it.class_lookup(v.cls, '__call__') is not None
    if isinstance(v, Opaque):
        raise EngineError('callable() of opaque')
    if hasattr(v, 'pyvc_call'):
        return True
    return False


def int_str(it, v):
    """str(v) for an integer: concrete, or one unknown string per integer term (str is a function)"""
    if isinstance(v, int):
        return str(v)
    memo = it.ctx.ghost.setdefault('int_str', {})
    k = str(V.simp(V.zint(v)))
    if k not in memo:
        memo[k] = it.fresh_str('str(int)')
    return memo[k]


def bi_str(it, args, kwargs):
    if not args:
        return ''
    v = args[0]
    if is_str(v):
        return v
    if isinstance(v, bool):
        return str(v)
    if isinstance(v, int):
        return str(v)
    if is_int(v) and not is_boolv(v):
        return int_str(it, v)
    if v is None:
        return 'None'
    if isinstance(v, Obj):
        r = it.class_lookup(v.cls, '__str__')
        if r is not None and not r[0].builtin:
            return it.call_method(v, '__str__', [], {})
    return it.fresh_str('str')


def bi_repr(it, args, kwargs):
    v = args[0]
    if isinstance(v, (str, int)) or v is None:
        return repr(v)
    return it.fresh_str('repr')


def bi_int(it, args, kwargs):
    v = args[0] if args else 0
    if is_int(v):
        return v
    if is_boolv(v):
        return simp(z3.If(v, 1, 0)) if V.is_sym(v) else int(v)
    if isinstance(v, str):
        try:
            return int(v, *args[1:])
        except ValueError:
            it.raise_builtin('ValueError', 'wd:value[int()]')
    if isinstance(v, SStr):
        # may raise ValueError or return some integer
        if it.ctx.choose(2, 'int(str)') == 1:
            it.raise_builtin('ValueError', 'wd:value[int()]')
        return it.ctx.fresh_int('int')
    if v is None:
        it.raise_builtin('TypeError', 'wd:none[int(None)]')
    raise EngineError('int() of %r' % (v,))


def bi_bool(it, args, kwargs):
    if not args:
        return False
    t = it.truth_term(args[0])
    return simp(t) if V.is_sym(t) else t


def bi_list(it, args, kwargs):
    if not args:
        return PyList([])
    v = args[0]
    if isinstance(v, PyList) and v.items is None:
        return PyList(None, v.length, v.arr, v.tag, v.codec)
    return PyList(list(it.iter_values(v)))


def bi_tuple(it, args, kwargs):
    if not args:
        return ()
    return tuple(it.iter_values(args[0]))


def bi_dict(it, args, kwargs):
    d = PyDict()
    if args:
        a = args[0]
        if isinstance(a, PyDict):
            d.items.update(a.items)
        elif isinstance(a, Obj) and it.class_lookup(a.cls, 'keys'):
            raise EngineError('dict() of mapping object')
        else:
            for kv in it.iter_values(a):
                k, v = it.iter_values(kv)
                it.dict_set(d, k, v)
    for k, v in kwargs.items():
        d.items[k] = v
    return d


def bi_set(it, args, kwargs):
    return make_set(it, it.iter_values(args[0]) if args else [])


def bi_frozenset(it, args, kwargs):
    s = make_set(it, it.iter_values(args[0]) if args else [])
    s.frozen = True
    return s


def bi_sorted(it, args, kwargs):
    items = it.iter_values(args[0])
    key = kwargs.get('key')
    rev = kwargs.get('reverse', False)
    if not isinstance(rev, bool):
        raise EngineError('sorted(reverse=symbolic)')
    keys = [it.call(key, [x], {}) if key is not None else x for x in items]
    try:
        pk = [to_py(it, k) for k in keys]
        order = sorted(range(len(items)), key=lambda i: pk[i], reverse=rev)
    except EngineError:
        raise EngineError('sorted() with symbolic keys')
    except TypeError:
        it.raise_builtin('TypeError', 'wd:type[sorted(): unorderable]')
    return PyList([items[i] for i in order])


def bi_reversed(it, args, kwargs):
    if hasattr(args[0], 'pyvc_reversed'):
        return args[0].pyvc_reversed(it)
    items = it.iter_values(args[0])
    items.reverse()
    return PyList(items)


def bi_enumerate(it, args, kwargs):
    start = args[1] if len(args) > 1 else kwargs.get('start', 0)
    return PyList([(start + i, x) for i, x in enumerate(it.iter_values(args[0]))])


def bi_zip(it, args, kwargs):
    cols = [it.iter_values(a) for a in args]
    return PyList([tuple(t) for t in zip(*cols)])


def bi_range(it, args, kwargs):
    if len(args) == 1:
        lo, hi = 0, args[0]
    elif len(args) == 2:
        lo, hi = args
    else:
        lo, hi, st = args
        if all(isinstance(x, int) for x in args):
            return PyList(list(range(lo, hi, st)))
        raise EngineError('range with step')
    if isinstance(lo, int) and isinstance(hi, int):
        return PyList(list(range(lo, hi)))
    return RangeVal(lo, hi)


def bi_minmax(which):
    def f(it, args, kwargs):
        if len(args) == 1:
            items = it.iter_values(args[0])
        else:
            items = list(args)
        key = kwargs.get('key')
        if not items:
            if 'default' in kwargs:
                return kwargs['default']
            it.raise_builtin('ValueError', 'wd:value[%s() arg is an empty sequence]' % which)
        best = items[0]
        bk = it.call(key, [best], {}) if key else best
        for x in items[1:]:
            xk = it.call(key, [x], {}) if key else x
            import ast as _ast
            t = it.compare(_ast.Lt() if which == 'min' else _ast.Gt(), xk, bk)
            if it.ctx.spec:
                if is_int(xk) and is_int(bk):
                    best = V.z_ite(t, x, best)
                    bk = V.z_ite(t, xk, bk)
                    continue
                raise EngineError('min/max in spec over non-ints')
            if it.ctx.branch(t):
                best, bk = x, xk
        return best
    return f


def bi_sum(it, args, kwargs):
    tot = args[1] if len(args) > 1 else 0
    for x in it.iter_values(args[0]):
        import ast as _ast
        tot = it.binop(_ast.Add(), tot, x)
    return tot


def bi_any(it, args, kwargs):
    if it.ctx.spec:
        return z_or(*[it.truth_term(x) for x in it.iter_values(args[0])])
    for x in it.iter_values(args[0]):
        if it.truthy(x):
            return True
    return False


def bi_all(it, args, kwargs):
    if it.ctx.spec:
        return z_and(*[it.truth_term(x) for x in it.iter_values(args[0])])
    for x in it.iter_values(args[0]):
        if not it.truthy(x):
            return False
    return True


def bi_ord(it, args, kwargs):
    v = args[0]
    if isinstance(v, str):
        if len(v) != 1:
            it.raise_builtin('TypeError', 'wd:type[ord() expected a character]')
        return ord(v)
    if isinstance(v, SStr):
        n = V.slen(v)
        if not it.ctx.spec and not it.ctx.branch(z_eq(n, 1)):
            it.raise_builtin('TypeError', 'wd:type[ord() expected a character]')
        return V.char_at(v, 0)
    it.raise_builtin('TypeError', 'wd:type[ord() of non-string]')


def bi_chr(it, args, kwargs):
    v = args[0]
    if isinstance(v, int):
        if not (0 <= v < 0x110000):
            it.raise_builtin('ValueError', 'wd:value[chr() arg not in range]')
        return chr(v)
    if is_int(v):
        if not it.ctx.spec and not it.ctx.branch(z3.And(v >= 0, v < 0x110000)):
            it.raise_builtin('ValueError', 'wd:value[chr() arg not in range]')
        return V.mk_str([('ch', v)])
    it.raise_builtin('TypeError', 'wd:type[chr() of non-int]')


def bi_super(it, args, kwargs):
    cls, obj = args
    return SuperVal(cls, obj)


def bi_type(it, args, kwargs):
    v = args[0]
    if isinstance(v, Obj):
        return v.cls
    if v is None:
        return _pytype('NoneType')
    if is_str(v):
        return it.builtins['str']
    if is_boolv(v):
        return it.builtins['bool']
    if is_int(v):
        return it.builtins['int']
    if isinstance(v, PyList):
        return it.builtins['list']
    if isinstance(v, tuple):
        return it.builtins['tuple']
    if isinstance(v, PyDict):
        return it.builtins['dict']
    raise EngineError('type() of %r' % (v,))


def bi_print(it, args, kwargs):
    return None


def bi_id(it, args, kwargs):
    return it.ctx.fresh_int('id')


def bi_abs(it, args, kwargs):
    v = args[0]
    if isinstance(v, int):
        return abs(v)
    return simp(z3.If(v < 0, -v, v))


def bi_hex(it, args, kwargs):
    v = args[0]
    if isinstance(v, int):
        return hex(v)
    return it.fresh_str('hex')


def bi_format(it, args, kwargs):
    if all(_concrete(a) for a in args):
        return format(*args)
    return it.fresh_str('format')


def bi_map(it, args, kwargs):
    f = args[0]
    return PyList([it.call(f, [x], {}) for x in it.iter_values(args[1])])


def bi_filter(it, args, kwargs):
    f = args[0]
    out = []
    for x in it.iter_values(args[1]):
        if it.truthy(it.call(f, [x], {}) if f is not None else x):
            out.append(x)
    return PyList(out)


def bi_iter(it, args, kwargs):
    v = args[0]
    if isinstance(v, PyList) and v.items is None:
        return v
    return PyList(it.iter_values(v))


def bi_next(it, args, kwargs):
    lst = args[0]
    if isinstance(lst, PyList) and lst.items is not None:
        if lst.items:
            return lst.items.pop(0)
        if len(args) > 1:
            return args[1]
        it.raise_builtin('StopIteration', 'wd:stopiteration')
    raise EngineError('next()')


def call_type(it, tm, args, kwargs):
    n = tm.name
    ov = getattr(it.registry, 'builtin_overrides', {}).get(n) if it.registry is not None else None
    if ov is not None:
        return ov(it, args, kwargs)
    table = {'str': bi_str, 'int': bi_int, 'bool': bi_bool, 'list': bi_list, 'tuple': bi_tuple,
             'dict': bi_dict, 'set': bi_set, 'frozenset': bi_frozenset, 'type': bi_type}
    if n in table:
        return table[n](it, args, kwargs)
    if n == 'object':
        return Obj(it.program.builtin_classes['object'])
    raise EngineError('call of type %s' % n)


def type_attr(it, tm, name):
    if tm.name == 'str' and name in STR_METHODS:
        return Builtin('str.' + name, lambda it2, a, k: call_str_method(it2, name, a[0], a[1:], k, None))
    if name == '__name__':
        return tm.name
    if tm.name == 'dict' and name == 'fromkeys':
        return Builtin('dict.fromkeys', lambda it2, a, k: PyDict({x: (a[1] if len(a) > 1 else None)
                                                                   for x in it2.iter_values(a[0])}))
    raise EngineError('attribute %s of type %s' % (name, tm.name))


def make_builtins(it):
    from .interp import TypeMarker
    b = {}
    for n in ('str', 'int', 'bool', 'list', 'tuple', 'dict', 'set', 'frozenset', 'object', 'float',
              'bytes', 'type', 'complex'):
        b[n] = TypeMarker(n)
    b['unicode'] = b['str']
    b['basestring'] = b['str']
    b['long'] = b['int']
    fns = {'len': bi_len, 'isinstance': bi_isinstance, 'issubclass': bi_issubclass,
           'getattr': bi_getattr, 'setattr': bi_setattr, 'hasattr': bi_hasattr,
           'callable': bi_callable, 'repr': bi_repr, 'sorted': bi_sorted, 'reversed': bi_reversed,
           'enumerate': bi_enumerate, 'zip': bi_zip, 'range': bi_range, 'min': bi_minmax('min'),
           'max': bi_minmax('max'), 'sum': bi_sum, 'any': bi_any, 'all': bi_all, 'ord': bi_ord,
           'chr': bi_chr, 'super': bi_super, 'print': bi_print, 'id': bi_id, 'abs': bi_abs,
           'hex': bi_hex, 'format': bi_format, 'map': bi_map, 'filter': bi_filter, 'iter': bi_iter,
           'next': bi_next, 'unichr': bi_chr}
    for n, f in fns.items():
        b[n] = Builtin(n, f)
    for n, c in it.program.builtin_classes.items():
        if n != 'object':
            b[n] = c
    from .values import SpecFn

    def sp_forall(it2, lo, hi, fn):
        return forall_range(it2.ctx, lo, hi, lambda k: V.zbool(it2.truth_term(it2.call(fn, [k], {}))), 'q')

    def sp_exists(it2, lo, hi, fn):
        return z_not(forall_range(it2.ctx, lo, hi, lambda k: V.zbool(z_not(it2.truth_term(it2.call(fn, [k], {})))), 'q'))

    def sp_implies(it2, a, b):
        return z_or(z_not(it2.truth_term(a)), it2.truth_term(b))

    def sp_iff(it2, a, b):
        return z_eq(V.zbool(it2.truth_term(a)), V.zbool(it2.truth_term(b)))

    def sp_isspace(it2, c):
        return V.char_pred('isspace', V.char_at(c, 0) if is_str(c) else c)

    b['open'] = Builtin('open', lambda it2, a, k: _lib_call(it2, 'open', a, k))
    b['forall'] = SpecFn('forall', sp_forall)
    b['exists'] = SpecFn('exists', sp_exists)
    b['implies'] = SpecFn('implies', sp_implies)
    b['iff'] = SpecFn('iff', sp_iff)
    b['True'] = True
    b['False'] = False
    b['None'] = None
    b['NotImplemented'] = Opaque('NotImplemented')
    b['__debug__'] = True
    return b


# ---------------------------------------------------------------------------
# builtin modules
# ---------------------------------------------------------------------------
class RegexVal(object):
    def __init__(self, pattern, flags=0):
        self.pattern = pattern
        self.flags = flags
        self.rx = _re.compile(pattern, flags) if isinstance(pattern, str) and isinstance(flags, int) else None

    def pyvc_getattr(self, it, name):
        if name == 'pattern':
            return self.pattern
        return Builtin('re.%s' % name, lambda it2, a, k: regex_method(it2, self, name, a, k))


class MatchVal(object):
    """A concrete match (from CPython's re on a concrete string)."""
    def __init__(self, m):
        self.m = m

    def pyvc_getattr(self, it, name):
        m = self.m
        if name in ('group', 'start', 'end', 'span', 'groups', 'groupdict'):
            def f(it2, a, k):
                try:
                    return from_py(getattr(m, name)(*[to_py(it2, x) for x in a]))
                except IndexError:
                    it2.raise_builtin('IndexError', 'wd:index[no such group]')
            return Builtin('match.' + name, f)
        if name == 'lastindex':
            return m.lastindex
        raise EngineError('match.%s' % name)


def regex_method(it, rv, name, args, kwargs):
    hook = it.registry.regex_hook if it.registry is not None else None
    s = args[0] if args else None
    if isinstance(s, str) and rv.rx is not None and all(_concrete(a) for a in args):
        if name in ('match', 'search', 'fullmatch'):
            m = getattr(rv.rx, name)(*args)
            return MatchVal(m) if m is not None else None
        if name == 'finditer':
            return PyList([MatchVal(m) for m in rv.rx.finditer(*args)])
        if name in ('sub', 'split', 'findall'):
            if name == 'sub' and not isinstance(args[0], str):
                raise EngineError('re.sub with callable')
            return from_py(getattr(rv.rx, name)(*args))
    if hook is not None:
        r = hook(it, rv, name, args, kwargs)
        if r is not NotImplemented:
            return r
    raise EngineError('regex %s on symbolic input (pattern %r)' % (name, rv.pattern))


def get_builtin_module(it, full):
    key = ('<builtin-module>', full)
    m = it.module_state.get(key)
    if m is None:
        m = _make_builtin_module(it, full)
        it.module_state[key] = m
    return m


def _make_builtin_module(it, full):
    from .interp import LOGGER
    A = {}
    if full == 'sys':
        A['version_info'] = Namespace('version_info', {'major': 3, 'minor': 11, 'micro': 0})
        A['maxunicode'] = 0x10FFFF
        A['stderr'] = Opaque('stderr')
        A['stdout'] = Opaque('stdout')
        A['stdin'] = Opaque('stdin')
        A['argv'] = PyList([])
    elif full == 'logging':
        A['getLogger'] = Builtin('logging.getLogger', lambda it2, a, k: LOGGER)
        for n in ('DEBUG', 'INFO', 'WARNING', 'ERROR'):
            A[n] = {'DEBUG': 10, 'INFO': 20, 'WARNING': 30, 'ERROR': 40}[n]
    elif full == 'bisect':
        A['bisect_right'] = Builtin('bisect.bisect_right', bisect_right)
        A['bisect'] = A['bisect_right']
    elif full == 're':
        A['compile'] = Builtin('re.compile', lambda it2, a, k: RegexVal(a[0], a[1] if len(a) > 1 else k.get('flags', 0)))
        for n in ('match', 'search', 'sub', 'finditer', 'split', 'findall', 'fullmatch'):
            A[n] = Builtin('re.' + n, (lambda nm: lambda it2, a, k: regex_method(it2, RegexVal(a[0], k.get('flags', 0)), nm, a[1:], {}))(n))
        for n in ('IGNORECASE', 'I', 'MULTILINE', 'M', 'DOTALL', 'S', 'VERBOSE', 'X', 'UNICODE', 'U'):
            A[n] = int(getattr(_re, n))
        A['escape'] = Builtin('re.escape', lambda it2, a, k: _re.escape(a[0]) if isinstance(a[0], str) else it2.fresh_str('reesc'))
    elif full == 'functools':
        A['partial'] = Builtin('functools.partial', lambda it2, a, k: Partial(a[0], list(a[1:]), dict(k)))
    elif full == 'unicodedata':
        def normalize(it2, a, k):
            form, s = a
            if isinstance(s, str) and isinstance(form, str):
                return _ud.normalize(form, s)
            if not is_str(s):
                it2.raise_builtin('TypeError', 'wd:type[normalize() argument must be str]')
            h = it2.registry.lib_hook('unicodedata.normalize') if it2.registry else None
            if h is not None:
                return h(it2, form, s)
            return it2.fresh_str('nfc')
        A['normalize'] = Builtin('unicodedata.normalize', normalize)
    elif full in ('os', 'os.path'):
        pathmod = BuiltinModule('os.path', {})
        for n in ('realpath', 'join', 'exists', 'isfile', 'isdir', 'abspath', 'dirname', 'basename',
                  'splitext', 'expanduser', 'normpath', 'commonprefix', 'commonpath', 'islink', 'relpath',
                  'samefile', 'isabs', 'lexists', 'split'):
            pathmod.attrs[n] = Builtin('os.path.' + n, (lambda nm: lambda it2, a, k: _lib_call(it2, 'os.path.' + nm, a, k))(n))
        if full == 'os.path':
            return pathmod
        pathmod.attrs['sep'] = '/'
        A['path'] = pathmod
        A['sep'] = '/'
        A['environ'] = Opaque('os.environ')
        for n in ('getcwd', 'listdir', 'stat', 'readlink'):
            A[n] = Builtin('os.' + n, (lambda nm: lambda it2, a, k: _lib_call(it2, 'os.' + nm, a, k))(n))
    elif full == 'collections':
        A['ChainMap'] = Builtin('collections.ChainMap', lambda it2, a, k: _lib_call(it2, 'collections.ChainMap', a, k))
        A['OrderedDict'] = it.builtins['dict'] if hasattr(it, 'builtins') and it.builtins else None
    elif full == 'chainmap':
        A['ChainMap'] = Builtin('collections.ChainMap', lambda it2, a, k: _lib_call(it2, 'collections.ChainMap', a, k))
    elif full == 'inspect':
        A['getfullargspec'] = Builtin('inspect.getfullargspec', lambda it2, a, k: _lib_call(it2, 'inspect.getfullargspec', a, k))
    elif full == 'textwrap':
        A['fill'] = Builtin('textwrap.fill', lambda it2, a, k: (_lib_call(it2, 'textwrap.fill', a, k) if it2.registry is not None and
                                                               it2.registry.lib_hook('textwrap.fill') else it2.fresh_str('fill')))
        A['wrap'] = Builtin('textwrap.wrap', lambda it2, a, k: _lib_call(it2, 'textwrap.wrap', a, k))
    elif full == 'warnings':
        A['warn'] = Builtin('warnings.warn', lambda it2, a, k: None)
    elif full == 'copy':
        A['copy'] = Builtin('copy.copy', lambda it2, a, k: _lib_call(it2, 'copy.copy', a, k))
        A['deepcopy'] = Builtin('copy.deepcopy', lambda it2, a, k: _lib_call(it2, 'copy.deepcopy', a, k))
    elif full == 'types':
        # read-only view of a dict: lookups behave like the dict's (A-LIB)
        A['MappingProxyType'] = Builtin('types.MappingProxyType', lambda it2, a, k: a[0])
    elif full == 'string':
        import string as _s
        for n in ('ascii_letters', 'ascii_lowercase', 'ascii_uppercase', 'digits', 'punctuation', 'whitespace'):
            A[n] = getattr(_s, n)
    return BuiltinModule(full, A)


def _lib_call(it, name, args, kwargs):
    h = it.registry.lib_hook(name) if it.registry is not None else None
    if h is None:
        raise EngineError('library function %s has no model' % name)
    return h(it, *args, **kwargs)


def bisect_right(it, args, kwargs):
    """A-LIB contract of bisect.bisect_right(a, x) for a list of ints:
    requires a sorted (checked as an obligation at the call site);
    ensures 0 <= r <= len(a), a[i] <= x for i < r, a[i] > x for i >= r."""
    lst, x = args[0], args[1]
    if isinstance(lst, PyList) and lst.items is not None and all(isinstance(v, int) for v in lst.items) \
            and isinstance(x, int):
        import bisect
        return bisect.bisect_right(lst.items, x)
    if not isinstance(lst, PyList):
        if lst is None:
            it.raise_builtin('TypeError', 'wd:none[bisect_right(None, .)]')
        raise EngineError('bisect_right on %r' % (lst,))
    if x is None or not is_int(x):
        it.raise_builtin('TypeError', 'wd:type[bisect_right: unorderable]')
    ctx = it.ctx
    if lst.items is not None:
        n = len(lst.items)
        arr = z3.K(z3.IntSort(), z3.IntVal(0))
        for i, v in enumerate(lst.items):
            if not is_int(v):
                raise EngineError('bisect_right on non-int list')
            arr = z3.Store(arr, i, zint(v))
    else:
        n, arr = lst.length, lst.arr
    srt = forall_range(ctx, 0, simp(zint(n) - 1), lambda i: arr[i] <= arr[i + 1], 'bi')
    ctx.prove('pre@bisect_right:sorted', srt, 'pre@callsite', 'bisect_right requires a sorted list')
    ctx.assume(srt)
    r = ctx.fresh_int('bisect')
    ctx.assume(z3.And(0 <= r, r <= zint(n)))
    ctx.assume(forall_range(ctx, 0, r, lambda i: arr[i] <= zint(x), 'bi'))
    ctx.assume(forall_range(ctx, r, n, lambda i: arr[i] > zint(x), 'bi'))
    return r
