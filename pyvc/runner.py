"""Run verification units (in a fork pool) and summarise their obligations."""
import multiprocessing
import os
import time
import traceback

from .smt import Config, Collector, explore, PROVED, REFUTED, UNDECIDED, UNCHECKED, EngineError
from .program import Program

_STATE = {}


def _run_one(name):
    reg = _STATE['registry']
    cfg = _STATE['cfg']
    unit = _STATE['units'][name]
    program = Program()
    col = Collector(name)
    t0 = time.time()
    c2 = cfg
    if getattr(unit, 'max_paths', None):
        c2 = Config(cfg.tier, cfg.seed)
        c2.__dict__.update(cfg.__dict__)
        c2.max_paths = unit.max_paths
    crash = None
    try:
        explore(lambda ctx: unit.run_path(ctx, program, reg), col, c2)
    except Exception:
        crash = traceback.format_exc()
    files = {}
    for m in program.modules.values():
        files[os.path.relpath(m.path, program.root)] = m.sha256
    return {
        'unit': name,
        'kind': unit.kind,
        'functions': unit.functions(),
        'paths': col.paths,
        'obligations': [o.as_dict() for o in col.obligations.values()],
        'incomplete': sorted(set(col.incomplete)),
        'covers': col.covers,
        'solver_seconds': round(col.solver_seconds, 3),
        'wall_s': round(time.time() - t0, 3),
        'dropped_calls': sorted(set(col.dropped_calls)),
        'assumed_contracts': sorted(col.assumed),
        'crash': crash,
        'files': files,
    }


def run_units(registry, units, cfg, jobs=None):
    """units: dict name -> unit.  Returns list of result dicts (input order)."""
    _STATE['registry'] = registry
    _STATE['cfg'] = cfg
    _STATE['units'] = units
    names = list(units)
    jobs = jobs or min(len(names), int(os.environ.get('PYVC_JOBS', '16')) or 1)
    if jobs <= 1 or len(names) <= 1:
        return [_run_one(n) for n in names]
    ctx = multiprocessing.get_context('fork')
    with ctx.Pool(jobs) as pool:
        return pool.map(_run_one, names, chunksize=1)
