"""Run verification units (in a fork pool) and summarise their obligations.

A unit may be sharded: a pre-pass explores the decision tree down to a split
depth (proving what it meets) and returns the frontier prefixes; the shards
explore below their prefixes in parallel.  Obligations met while replaying a
prefix were checked by the pre-pass, so nothing is skipped."""
import multiprocessing
import os
import time
import traceback

from .smt import Config, Collector, explore, PROVED, REFUTED, UNDECIDED, UNCHECKED, EngineError, _RANK
from .program import Program

_STATE = {}


def _cfg_for(unit, cfg):
    if getattr(unit, 'max_paths', None):
        c2 = Config(cfg.tier, cfg.seed)
        c2.__dict__.update(cfg.__dict__)
        c2.max_paths = unit.max_paths
        return c2
    return cfg


def _summary(name, unit, col, program, t0, crash, frontier=None):
    files = {}
    for m in program.modules.values():
        files[os.path.relpath(m.path, program.root)] = m.sha256
    return {
        'unit': name, 'kind': unit.kind, 'functions': unit.functions(), 'paths': col.paths,
        'obligations': [o.as_dict() for o in col.obligations.values()],
        'incomplete': sorted(set(col.incomplete)), 'covers': col.covers,
        'solver_seconds': round(col.solver_seconds, 3), 'wall_s': round(time.time() - t0, 3),
        'dropped_calls': sorted(set(col.dropped_calls)), 'assumed_contracts': sorted(col.assumed),
        'crash': crash, 'files': files, 'frontier': frontier,
        'call_sites': [[list(k), sorted(v)] for k, v in col.call_sites.items()],
    }


def _run_job(job):
    name, start, split_depth = job
    reg = _STATE['registry']
    unit = _STATE['units'][name]
    cfg = _cfg_for(unit, _STATE['cfg'])
    program = Program()
    col = Collector(name)
    t0 = time.time()
    crash = None
    frontier = None
    try:
        frontier = explore(lambda ctx: unit.run_path(ctx, program, reg), col, cfg,
                           start=start, split_depth=split_depth)
    except Exception:
        crash = traceback.format_exc()
    return _summary(name, unit, col, program, t0, crash, frontier)


def _merge(parts):
    out = dict(parts[0])
    obl = {}
    for p in parts:
        for o in p['obligations']:
            cur = obl.get(o['name'])
            if cur is None:
                obl[o['name']] = dict(o)
                continue
            cur['paths'] += o['paths']
            cur['seconds'] = round(cur['seconds'] + o['seconds'], 4)
            if _RANK[o['status']] > _RANK[cur['status']]:
                keep = {'paths': cur['paths'], 'seconds': cur['seconds']}
                cur.clear()
                cur.update(o)
                cur.update(keep)
            elif o['backend'] != cur['backend'] and o['status'] == cur['status'] == PROVED:
                if o['backend'] not in cur['backend']:
                    cur['backend'] = '+'.join(sorted(set(cur['backend'].split('+')) | set(o['backend'].split('+'))))
    out['obligations'] = list(obl.values())
    out['paths'] = sum(p['paths'] for p in parts)
    out['incomplete'] = sorted(set(x for p in parts for x in p['incomplete']))
    cov = {}
    for p in parts:
        for k, v in p['covers'].items():
            cov[k] = cov.get(k, False) or v
    out['covers'] = cov
    out['solver_seconds'] = round(sum(p['solver_seconds'] for p in parts), 3)
    out['wall_s'] = round(sum(p['wall_s'] for p in parts), 3)
    out['dropped_calls'] = sorted(set(x for p in parts for x in p['dropped_calls']))
    out['assumed_contracts'] = sorted(set(x for p in parts for x in p['assumed_contracts']))
    crashes = [p['crash'] for p in parts if p['crash']]
    out['crash'] = crashes[0] if crashes else None
    files = {}
    for p in parts:
        files.update(p['files'])
    out['files'] = files
    out['shards'] = len(parts) - 1
    sites = {}
    for p in parts:
        for k, v in p.get('call_sites', []):
            sites.setdefault(tuple(k), set()).update(v)
    out['call_sites'] = [[list(k), sorted(v)] for k, v in sites.items()]
    for k, v in sites.items():
        if not v:
            out['incomplete'] = sorted(set(out['incomplete']) | {
                '%s: every outcome of the assumed contract of %s is unsatisfiable at call %r '
                '(vacuity guard)' % (k[0], k[1], k[2])})
    return out


def run_units(registry, units, cfg, jobs=None):
    """units: dict name -> unit.  Returns list of result dicts (input order).

    Units with a `split_depth` are explored as a dynamic work queue: every job
    explores at most `split_depth` new decision levels below its start prefix and
    hands back the frontier, which is re-queued."""
    _STATE['registry'] = registry
    _STATE['cfg'] = cfg
    _STATE['units'] = units
    names = list(units)
    njobs = jobs or int(os.environ.get('PYVC_JOBS', '16')) or 1
    if njobs <= 1:
        return [_run_job((n, None, None)) for n in names]
    mp = multiprocessing.get_context('fork')
    parts = {n: [] for n in names}
    # A worker that dies abruptly (a crash inside the solver library, the OOM killer) must not hang the run: the executor
    # reports a broken pool; the jobs that were lost are re-submitted to a fresh pool once, and reported as a checker crash
    # (exit 3, never a verdict) if they are lost again.
    from concurrent.futures import ProcessPoolExecutor
    from concurrent.futures.process import BrokenProcessPool
    todo = [((n, None, getattr(units[n], 'split_depth', None)), 0) for n in names]
    while todo:
        lost = []
        with ProcessPoolExecutor(max_workers=njobs, mp_context=mp) as pool:
            pending = [(pool.submit(_run_job, job), job, tries) for job, tries in todo]
            todo = []
            broken = False
            while pending:
                nxt = []
                for h, job, tries in pending:
                    if not h.done():
                        nxt.append((h, job, tries))
                        continue
                    try:
                        r = h.result()
                    except BrokenProcessPool:
                        broken = True
                        lost.append((job, tries + 1))
                        continue
                    parts[r['unit']].append(r)
                    sd = getattr(units[r['unit']], 'split_depth', None)
                    for pre in (r.get('frontier') or []):
                        job2 = (r['unit'], [pre], len(pre) + sd)
                        if broken:
                            lost.append((job2, 0))
                        else:
                            try:
                                nxt.append((pool.submit(_run_job, job2), job2, 0))
                            except BrokenProcessPool:
                                broken = True
                                lost.append((job2, 0))
                pending = nxt
                if pending:
                    time.sleep(0.02)
        for job, tries in lost:
            if tries >= 2:
                u = units[job[0]]
                parts[job[0]].append({'unit': job[0], 'kind': u.kind, 'functions': u.functions(), 'obligations': [], 'incomplete': [],
                                      'crash': 'a worker process died twice while exploring this unit (prefix %r)' % (job[1],),
                                      'covers': {}, 'files': {}, 'dropped_calls': [], 'assumed_contracts': [], 'solver_seconds': 0.0,
                                      'wall_s': 0.0, 'paths': 0, 'frontier': None, 'call_sites': []})
            else:
                todo.append((job, tries))
    return [_merge(parts[n]) for n in names]
