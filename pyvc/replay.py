"""Helpers for generating replay scripts (run with PYTHONPATH=/repo against the real code)."""

PRELUDE = '''
import sys, json, itertools
def reproduced(msg, witness_class=None):
    print("REPRODUCED: " + msg)
    if witness_class:
        print("WITNESS-CLASS: " + witness_class)
    sys.exit(1)
def not_reproduced(msg="the real code satisfies the clause on the verifier's input and on the small search"):
    print("NOT-REPRODUCED: " + msg)
    sys.exit(0)
def strings(alphabet, maxlen):
    for n in range(maxlen + 1):
        for t in itertools.product(alphabet, repeat=n):
            yield "".join(t)
'''


def model_str(model, name, default=''):
    v = model.get(name)
    if isinstance(v, dict):
        return v.get('text', default)
    return default


def model_int(model, name, default=0):
    v = model.get(name)
    return v if isinstance(v, int) and not isinstance(v, bool) else default
