"""Contracts (sidecar, keyed by qualified name / loop ordinal), the registry,
and the verification units that turn contract + real function AST into named
obligations."""
import ast
import re

import z3

from . import values as V
from .values import (Obj, PyList, PyDict, SStr, StrBase, Func, Opaque, SpecFn, is_str, is_int,
                     is_boolv, zint, simp, z_and, z_or, z_not)
from .smt import EngineError, PathAbort, forall_range, PROVED, REFUTED, UNDECIDED, UNCHECKED
from .interp import Interp, Frame, PyExc, _Return, _Break, _Continue, assigned_names, _src
from .program import ClassInfo


# ---------------------------------------------------------------------------
# symbolic input makers (used by contract `setup` functions and havoc)
# ---------------------------------------------------------------------------
def sym_int(it, name, lo=None, hi=None, register=True):
    v = z3.Int(name)
    if register:
        it.ctx.register_input(name, 'int', v)
    if lo is not None:
        it.ctx.assume(v >= zint(lo))
    if hi is not None:
        it.ctx.assume(v <= zint(hi))
    return v


def _scope_of_the_property(ctx):
    """A property stated for strict parsing only (C05: "with tolerant_parsing=False ...") is decided on the strict paths of the
    shared units only: clauses that can only fail in tolerant mode (progress after a swallowed error, recovery nodes) belong to
    C06 and must not raise an alarm for C05.  Every walker / reader of the unit set-ups uses the one symbol 'tolerant_parsing'."""
    return        # (applied where the symbol is made, see sym_bool: units that never mention the flag are left untouched)


def sym_bool(it, name, register=True):
    v = z3.Bool(name)
    if name == 'tolerant_parsing' and getattr(it.ctx.cfg, 'strict_only', False) and not it.ctx.ghost.get('strict_scope_assumed'):
        it.ctx.ghost['strict_scope_assumed'] = True
        it.ctx.assume(z3.Not(v))
    if register:
        it.ctx.register_input(name, 'bool', v)
    return v


def sym_str(it, name, register=True):
    base = StrBase(name)
    it.ctx.assume(base.length >= 0)
    if register:
        it.ctx.register_input(name, 'str', (base.arr, base.length))
    return base.whole()


def sym_intlist(it, name):
    n = z3.Int(name + '.n')
    arr = z3.Array(name + '.arr', z3.IntSort(), z3.IntSort())
    it.ctx.assume(n >= 0)
    return PyList(None, n, arr, name)


def result_shape(v, depth=0):
    """coarse shape of a returned value, used to compare what a function really returns (in its own unit) with what the
    result generator of its contract produces at call sites: None / empty, one-element, longer or symbolic list / tuple arity"""
    if v is None:
        return 'None'
    if isinstance(v, bool):
        return 'bool:%s' % v
    if isinstance(v, PyList):
        if v.items is None:
            return 'list:sym'
        return 'list:%s' % (len(v.items) if len(v.items) < 2 else 'many')
    if isinstance(v, tuple):
        if depth >= 1:
            return 'tuple:%d' % len(v)
        return 'tuple(%s)' % ','.join(result_shape(x, depth + 1) for x in v)
    return 'value'


def make_value(it, T, hint):
    """Fresh value of type spec T."""
    ctx = it.ctx
    if callable(T):
        return T(it, hint)
    if T == 'int':
        return ctx.fresh_int(hint)
    if T == 'nat':
        v = ctx.fresh_int(hint)
        ctx.assume(v >= 0)
        return v
    if T == 'bool':
        return ctx.fresh_bool(hint)
    if T == 'str':
        return it.fresh_str(hint)
    if T == 'none':
        return None
    if T == 'intlist':
        n = ctx.fresh_int(hint + '.n')
        ctx.assume(n >= 0)
        return PyList(None, n, z3.Array('%s.arr!%d' % (hint, ctx.next_id()), z3.IntSort(), z3.IntSort()), hint)
    if isinstance(T, tuple):
        if T[0] == 'opt':
            if ctx.choose(2, 'opt ' + hint) == 1:
                return None
            return make_value(it, T[1], hint)
        if T[0] == 'tuple':
            return tuple(make_value(it, t, '%s.%d' % (hint, i)) for i, t in enumerate(T[1:]))
        if T[0] == 'const':
            return T[1]
        if T[0] == 'oneof':
            k = ctx.choose(len(T) - 1, 'oneof ' + hint)
            return make_value(it, T[1 + k], hint)
    raise EngineError('type spec %r' % (T,))


def resolve_class(it, qualname):
    parts = qualname.split('.')
    for i in range(len(parts) - 1, 0, -1):
        m = it.program.module('.'.join(parts[:i]))
        if m is None:
            continue
        v = it.module_get(m, parts[i])
        for nm in parts[i + 1:]:
            v = it.getattr(v, nm)
        if not isinstance(v, ClassInfo):
            raise EngineError('%s is not a class' % qualname)
        return v
    raise EngineError('class %s not found' % qualname)


def new_obj(it, cls_qualname, fields, tag='', is_input=True):
    cls = resolve_class(it, cls_qualname)
    o = Obj(cls, dict(fields), tag=tag, is_input=is_input)
    return o


# ---------------------------------------------------------------------------
OLD_RX = re.compile(r'\bold\(')


def _old_exprs(src):
    """source texts of old(...) arguments in an expression string."""
    out = []
    try:
        tree = ast.parse(src.strip(), mode='eval')
    except SyntaxError as e:
        raise EngineError('contract clause does not parse: %s (%s)' % (src, e))
    for n in ast.walk(tree):
        if isinstance(n, ast.Call) and isinstance(n.func, ast.Name) and n.func.id == 'old' and n.args:
            out.append(ast.unparse(n.args[0]))
    return out


def _snapshot(v):
    """old(e) of a mutable container is its value at entry, not the (later mutated) object"""
    if isinstance(v, PyList):
        return PyList(list(v.items) if v.items is not None else None, v.length, v.arr, v.tag, v.codec)
    if isinstance(v, PyDict):
        return PyDict(dict(v.items))
    if hasattr(v, 'pyvc_snapshot'):
        return v.pyvc_snapshot()
    return v


class _OldFn(object):
    """`old(e)` inside a clause: looked up by source text of its argument."""
    def __init__(self, table):
        self.table = table


def _clause_label(c):
    if isinstance(c, tuple):
        return c[0], c[1]
    s = ' '.join(c.split())
    return s[:90], c


class Contract(object):
    def __init__(self, qualname, setup=None, requires=(), ensures=(), raises=None, modifies=(),
                 ghost=None, result_type=None, result_expr=None, replay=None, note='',
                 allow_any_raise=False, result_make=None, pre_state=None):
        self.qualname = qualname
        self.setup = setup
        self.requires = [_clause_label(c) for c in requires]
        self.ensures = [_clause_label(c) for c in ensures]
        self.raises = {}
        for k, v in (raises or {}).items():
            if isinstance(v, (list, tuple)):
                v = {'ensures': list(v)}
            v = dict(v)
            v['ensures'] = [_clause_label(c) for c in v.get('ensures', ())]
            self.raises[k] = v
        self.modifies = list(modifies)
        self.ghost = ghost or {}
        self.result_type = result_type
        self.result_expr = result_expr
        self.result_make = result_make
        self.pre_state = pre_state
        self.replay = replay
        self.note = note
        self.allow_any_raise = allow_any_raise
        self.olds = []
        self.extra_olds = []
        for _, c in self.ensures:
            self.olds.extend(_old_exprs(c))
        for v in self.raises.values():
            for _, c in v['ensures']:
                self.olds.extend(_old_exprs(c))
            if v.get('when'):
                self.olds.extend(_old_exprs(v['when']))

    # -- helpers -------------------------------------------------------------
    def _env(self, it, func, bound):
        fr = Frame(func.module, func, func.closure)
        fr.vars = dict(bound)
        return fr

    def _eval_olds(self, it, env):
        table = {}
        for src in list(self.olds) + list(self.extra_olds):
            if src not in table:
                try:
                    table[src] = _snapshot(it.spec_eval(src, env))
                except EngineError as e:
                    table[src] = e        # undefined in this pre-state; an error only if the clause uses it
        env.vars['old'] = SpecFn('old', None)
        env.vars['__old__'] = table
        return table

    def _modifies_paths(self, typed=False):
        out = []
        for m in self.modifies:
            T = None
            if isinstance(m, tuple):
                m, T = m
            head, _, field = m.rpartition('.')
            out.append((head, field, T) if typed else (head, field))
        return out

    # -- use at a call site (modular: the body is NOT looked at) ---------------
    def apply_at_call(self, it, func, bound, node):
        ctx = it.ctx
        ctx.collector.assumed.add(self.qualname)
        env = self._env(it, func, bound)
        caller = it.cur_func_name()
        site = _src(node)[:50] if node is not None else self.qualname
        for lab, c in self.requires:
            t = it.spec_truth(c, env)
            ctx.prove('%s:pre@callsite[%s]:%s' % (caller, self.qualname.rsplit('.', 2)[-1], lab), t,
                      'pre@callsite', src=site)
            ctx.assume(t)
        self._eval_olds(it, env)
        if self.pre_state is not None:
            self.pre_state(it, env.vars)
        # havoc the frame
        for head, field, T in self._modifies_paths(typed=True):
            o = it.spec_eval(head, env)
            if isinstance(o, Obj):
                cur = o.fields.get(field)
                if T is not None:
                    if callable(T) and getattr(T, 'wants_current', False):
                        nv = T(it, '%s.%s' % (head, field), cur)
                    else:
                        nv = make_value(it, T, '%s.%s' % (head, field))
                else:
                    nv = it.fresh_like(cur, '%s.%s' % (head, field))
                if nv is None and cur is not None and T is None:
                    raise EngineError('cannot havoc %s.%s of kind %r' % (head, field, cur))
                o.fields[field] = nv
                o.written.add(field)
                if it.heap_log is not None:
                    it.heap_log.append((o, field))
            elif o is None:
                pass          # nothing to modify (e.g. an optional argument that is None at this call)
            else:
                raise EngineError('modifies path %s is not an object' % head)
        outcomes = ['normal'] + sorted(self.raises.keys())
        self._site = (caller, self.qualname, site)
        if not ctx.replaying():
            ctx.collector.call_sites.setdefault(self._site, set())
        k = ctx.choose(len(outcomes), 'outcome of ' + self.qualname)
        if k == 0:
            for g, (T, _w) in self.ghost.items():
                env.vars[g] = make_value(it, T, g)
            if self.result_expr is not None:
                res = it.spec_eval(self.result_expr, env)
            elif self.result_make is not None:
                res = self.result_make(it, env)
                ctx.collector.cover('made-shape|%s|%s' % (self.qualname, result_shape(res)), True)
            elif self.result_type is not None:
                res = make_value(it, self.result_type, 'ret_' + func.name)
            else:
                res = None
            env.vars['result'] = res
            for lab, c in self.ensures:
                if lab.startswith('internal:'):
                    continue      # a clause over ghost state of the function's own execution: proved, never assumed
                ctx.assume(it.spec_truth(c, env))
            self._check_consistent(it)
            return res
        ename = outcomes[k]
        spec = self.raises[ename]
        if spec.get('when'):
            ctx.assume(it.spec_truth(spec['when'], env))
        exc = spec['make'](it, env) if spec.get('make') else self._default_exc(it, ename)
        env.vars['exc'] = exc
        for lab, c in spec['ensures']:
            ctx.assume(it.spec_truth(c, env))
        self._check_consistent(it, ename)
        raise PyExc(exc, 'contract:%s' % self.qualname)

    def _check_consistent(self, it, outcome='normal'):
        """An assumed postcondition that contradicts the state would silently kill the path
        (vacuous proofs below it): that is a checker error, never a pass."""
        ctx = it.ctx
        if ctx.replaying():
            return
        import z3 as _z3
        r = ctx.solver.check()
        if r == _z3.unsat:
            # this outcome is impossible in this state; fine as long as some other outcome of the same
            # call is possible (checked per call site when the unit is summarised)
            raise PathAbort()
        ctx.collector.call_sites.setdefault(self._site, set()).add(outcome)

    def _default_exc(self, it, ename):
        cls = it.program.builtin_classes.get(ename)
        if cls is None:
            cls = self._find_class(it, ename)
        o = Obj(cls, {'args': ()})
        o.open = True
        return o

    def _find_class(self, it, ename):
        if '.' in ename:
            return resolve_class(it, ename)
        for modname in ('pylatexenc.latexnodes._exctypes', 'pylatexenc.latexnodes.parsers._base',
                        'pylatexenc.latexnodes._nodescollector', 'pylatexenc.latexnodes.parsers._delimited'):
            m = it.program.module(modname)
            if m is not None and ename in m.defs:
                return it.module_get(m, ename)
        raise EngineError('exception class %s not found' % ename)

    def _match_raise(self, it, exc_obj):
        for c in exc_obj.cls.mro():
            if c.name in self.raises:
                return c.name
            if c.qualname in self.raises:
                return c.qualname
        return None


class LoopContract(object):
    def __init__(self, func_qualname, ordinal, invariant=(), variant=None, havoc=None, define=None,
                 index=None, havoc_fields=(), note='', snapshot=None, step=()):
        self.func_qualname = func_qualname
        self.ordinal = ordinal
        self.invariant = [_clause_label(c) for c in invariant]
        self.variant = variant
        self.havoc = havoc or {}
        self.define = define or {}
        self.index = index
        self.havoc_fields = list(havoc_fields)
        self.note = note
        # snapshot: names bound to expressions evaluated at the START of an arbitrary iteration;
        # step: clauses over them proved at the END of that iteration (one-step relation of the body)
        self.snapshot = snapshot or {}
        self.step = [_clause_label(c) for c in step]

    def _name(self, kind, lab=''):
        return '%s:loop%d:%s%s' % (self.func_qualname, self.ordinal, kind, (':' + lab) if lab else '')

    def _check_inv(self, it, frame, kind):
        for lab, c in self.invariant:
            it.ctx.prove(self._name(kind, lab), it.spec_truth(c, frame), kind)
        for n, e in self.define.items():
            it.ctx.prove(self._name(kind, '%s == %s' % (n, e)),
                         it.equal_term(frame.vars.get(n), it.spec_eval(e, frame)), kind)

    def _assume_inv(self, it, frame):
        for lab, c in self.invariant:
            it.ctx.assume(it.spec_truth(c, frame))

    def _havoc(self, it, node, frame, extra_names=()):
        names, attrs = assigned_names(node.body)
        names |= set(extra_names)
        names |= set(k for k in self.havoc if '.' not in k)
        havoced = set()
        for n in sorted(names):
            if n in self.havoc:
                frame.vars[n] = make_value(it, self.havoc[n], n)
                if isinstance(frame.vars[n], (PyList, PyDict)):
                    havoced.add((id(frame.vars[n]), '[]'))
            elif n in self.define:
                continue
            elif n in frame.vars:
                cur = frame.vars[n]
                nv = it.fresh_like(cur, n)
                if nv is None and cur is not None:
                    raise EngineError('loop %s: cannot havoc local %s of kind %r (declare it)'
                                      % (self._name('havoc'), n, cur))
                frame.vars[n] = nv
        for path in self.havoc_fields:
            head, _, field = path.rpartition('.')
            o = it.spec_eval(head, frame) if head else frame.vars[field]
            if isinstance(o, Obj):
                cur = o.fields.get(field)
                T = self.havoc.get(path)
                o.fields[field] = make_value(it, T, path) if T else it.fresh_like(cur, path)
                havoced.add((id(o), field))
            elif isinstance(o, PyList):
                T = self.havoc.get(path, 'intlist')
                nv = make_value(it, T, path)
                o.items, o.length, o.arr = nv.items, nv.length, nv.arr
                havoced.add((id(o), '[]'))
        for n, e in self.define.items():
            frame.vars[n] = it.spec_eval(e, frame)
        return havoced

    def _body_writes_ok(self, it, log, havoced, frame_objs_before):
        for (o, f) in log:
            if id(o) not in frame_objs_before:
                continue       # object allocated inside the iteration
            if (id(o), f) not in havoced and (id(o), '[]') not in havoced:
                raise EngineError('loop %s: body writes %r.%s which is not havoced (add to havoc_fields)'
                                  % (self._name('frame'), o, f))

    def run_while(self, it, node, frame):
        ctx = it.ctx
        self._check_inv(it, frame, 'inv-init')
        k = ctx.choose(2, self._name('cut'))
        havoced = self._havoc(it, node, frame)
        self._assume_inv(it, frame)
        if k == 0:
            # an arbitrary iteration
            if not it.truthy(it.eval(node.test, frame)):
                raise PathAbort()
            for n_, e_ in self.snapshot.items():
                frame.vars[n_] = _snapshot(it.spec_eval(e_, frame))
            v0 = it.spec_eval(self.variant, frame) if self.variant else None
            before = _live_ids(frame)
            saved_log = it.heap_log
            it.heap_log = []
            try:
                try:
                    it.exec_block(node.body, frame)
                except _Continue:
                    pass
                except _Break:
                    it.heap_log, log = saved_log, it.heap_log
                    self._body_writes_ok(it, log, havoced, before)
                    if saved_log is not None:
                        saved_log.extend(log)
                    return
                log = it.heap_log
            finally:
                if it.heap_log is not saved_log:
                    lg = it.heap_log
                    it.heap_log = saved_log
                    if saved_log is not None and lg:
                        saved_log.extend(lg)
            self._body_writes_ok(it, log, havoced, before)
            self._check_inv(it, frame, 'inv-keep')
            for lab, c_ in self.step:
                ctx.prove(self._name('step', lab), it.spec_truth(c_, frame), 'step')
            if self.variant:
                v1 = it.spec_eval(self.variant, frame)
                ctx.prove(self._name('variant'), z3.And(zint(v0) >= 0, zint(v1) < zint(v0)), 'variant')
            raise PathAbort()
        # exit path
        if it.truthy(it.eval(node.test, frame)):
            raise PathAbort()
        it.exec_block(node.orelse, frame)

    def run_for(self, it, node, frame, iterable):
        """for-loop over a symbolic sequence; the ghost index is `self.index`."""
        ctx = it.ctx
        if self.index is None:
            raise EngineError('for-loop contract needs index=')
        seq = _SeqView(it, iterable)
        frame.vars[self.index] = 0
        self._check_inv(it, frame, 'inv-init')
        k = ctx.choose(2, self._name('cut'))
        tnames, _ = assigned_names([ast.Assign(targets=[node.target], value=ast.Constant(0))])
        havoced = self._havoc(it, node, frame)
        i = ctx.fresh_int(self.index)
        ctx.assume(z3.And(i >= 0, i <= zint(seq.length())))
        frame.vars[self.index] = i
        for n, e in self.define.items():
            frame.vars[n] = it.spec_eval(e, frame)
        self._assume_inv(it, frame)
        if k == 0:
            ctx.assume(i < zint(seq.length()))
            it.assign(node.target, seq.item(i), frame)
            for n_, e_ in self.snapshot.items():
                frame.vars[n_] = _snapshot(it.spec_eval(e_, frame))
            before = _live_ids(frame)
            saved_log = it.heap_log
            it.heap_log = []
            try:
                try:
                    it.exec_block(node.body, frame)
                except _Continue:
                    pass
                except _Break:
                    log = it.heap_log
                    it.heap_log = saved_log
                    self._body_writes_ok(it, log, havoced, before)
                    frame.vars.pop(self.index, None)
                    return
                log = it.heap_log
            finally:
                if it.heap_log is not saved_log:
                    it.heap_log = saved_log
            self._body_writes_ok(it, log, havoced, before)
            frame.vars[self.index] = simp(i + 1)
            self._check_inv(it, frame, 'inv-keep')
            for lab, c_ in self.step:
                ctx.prove(self._name('step', lab), it.spec_truth(c_, frame), 'step')
            raise PathAbort()
        ctx.assume(i == zint(seq.length()))
        it.exec_block(node.orelse, frame)


def _live_ids(frame):
    """ids of heap objects reachable from the frame's variables (one level of
    fields), i.e. objects that exist before the iteration."""
    seen = set()
    todo = list(frame.vars.values()) if isinstance(frame.vars, dict) else []
    depth = 0
    while todo and depth < 4:
        nxt = []
        for v in todo:
            if isinstance(v, (Obj, PyList, PyDict)) and id(v) not in seen:
                seen.add(id(v))
                if isinstance(v, Obj):
                    nxt.extend(v.fields.values())
                elif isinstance(v, PyList) and v.items is not None:
                    nxt.extend(v.items)
                elif isinstance(v, PyDict):
                    nxt.extend(v.items.values())
            elif isinstance(v, tuple):
                nxt.extend(v)
        todo = nxt
        depth += 1
    return seen


class _SeqView(object):
    def __init__(self, it, v):
        self.it = it
        self.v = v
        if isinstance(v, Obj) and it.class_lookup(v.cls, '__iter__'):
            v = it.call_method(v, '__iter__', [], {})
        if hasattr(v, 'pyvc_seq'):
            self.impl = v.pyvc_seq(it)
        elif isinstance(v, PyList) and v.items is None:
            if v.codec is not None:
                self.impl = (v.length, lambda i: v.codec.decode(it, v.arr[zint(i)]))
            else:
                self.impl = (v.length, lambda i: v.arr[zint(i)])
        elif isinstance(v, (PyList, tuple)):
            items = v.items if isinstance(v, PyList) else list(v)
            raise EngineError('for-loop contract over a concrete list')
        elif isinstance(v, SStr):
            self.impl = (V.slen(v), lambda i: V.sslice(it.ctx, v, i, simp(zint(i) + 1)))
        elif hasattr(v, 'lo') and hasattr(v, 'hi'):
            self.impl = (simp(zint(v.hi) - zint(v.lo)), lambda i: simp(zint(v.lo) + zint(i)))
        else:
            raise EngineError('for-loop contract over %r' % (v,))

    def length(self):
        return self.impl[0]

    def item(self, i):
        return self.impl[1](i)


# ---------------------------------------------------------------------------
class Registry(object):
    def __init__(self):
        self.contracts = {}
        self.loops = {}
        self.spec_fns = {}
        self.lib_hooks = {}
        self.class_contracts = {}
        self.regex_hook = None
        self.units = []
        self.inline_only = set()
        self._loop_index = {}

    def add(self, c):
        self.contracts[c.qualname] = c
        return c

    def add_loop(self, lc):
        self.loops[(lc.func_qualname, lc.ordinal)] = lc
        return lc

    def spec(self, name):
        def deco(fn):
            if name in self.spec_fns:
                raise EngineError('specification function %s is defined twice (one namespace for all contract modules)' % name)
            self.spec_fns[name] = SpecFn(name, fn)
            return fn
        return deco

    def lib(self, name):
        def deco(fn):
            self.lib_hooks[name] = fn
            return fn
        return deco

    def lib_hook(self, name):
        return self.lib_hooks.get(name)

    def class_contract(self, cls):
        return self.class_contracts.get(cls.qualname)

    def contract_for_call(self, it, func):
        c = self.contracts.get(func.qualname)
        if c is None:
            return None
        if it.depth == 0:
            return None
        if it.unit_inline and func.qualname in it.unit_inline:
            return None
        return c

    def loop_contract(self, it, func, node):
        key = id(func.node)
        idx = self._loop_index.get(key)
        if idx is None:
            idx = {}
            n = 0
            for ln in _loops_in_order(func.node):
                idx[id(ln)] = n
                n += 1
            self._loop_index[key] = idx
        k = idx.get(id(node))
        if k is None:
            return None
        return self.loops.get((func.qualname, k))


def _loops_in_order(fn):
    out = []

    def visit(n):
        for c in ast.iter_child_nodes(n):
            if isinstance(c, (ast.FunctionDef, ast.Lambda, ast.ClassDef)):
                continue
            if isinstance(c, (ast.While, ast.For)):
                out.append(c)
            visit(c)
    visit(fn)
    return out


# ---------------------------------------------------------------------------
# verification units
# ---------------------------------------------------------------------------
def resolve_function(it, qualname):
    """Func value for 'pkg.mod.Class.method', 'pkg.mod.func' or nested
    'pkg.mod.Class.method.inner'."""
    r = it.program.find_function(qualname)
    if r is None:
        raise EngineError('contract target %s not found in the tree' % qualname)
    m, clsnode, node = r
    if not isinstance(node, ast.FunctionDef):
        raise EngineError('%s is not a function' % qualname)
    owner = None
    if clsnode is not None:
        # walk the (possibly nested) class path
        parts = qualname[len(m.name) + 1:].split('.')
        owner = it.module_get(m, parts[0])
        for nm in parts[1:]:
            if owner.node is clsnode:
                break
            owner = it.getattr(owner, nm)
            if not isinstance(owner, ClassInfo):
                raise EngineError('%s: %s is not a class' % (qualname, nm))
    f = it.make_func(node, m, None, owner, qualname)
    return f


class FunctionUnit(object):
    """Verify one real function against its own contract."""
    kind = 'function'

    def __init__(self, contract, name=None, inline=(), max_paths=None, split_depth=None, resolver=None):
        self.contract = contract
        self.name = name or contract.qualname
        self.inline = set(inline)
        self.max_paths = max_paths
        self.split_depth = split_depth
        # resolver(it) -> Func: for functions that have no qualified name (lambdas in tables, closures);
        # they are located in the real source on every run by the resolver
        self.resolver = resolver

    def functions(self):
        return [self.contract.qualname]

    def run_path(self, ctx, program, registry):
        c = self.contract
        it = Interp(ctx, program, registry)
        it.unit_func = c.qualname
        it.unit_inline = self.inline
        it.func_stack = []
        col = ctx.collector
        _scope_of_the_property(ctx)
        try:
            func = self.resolver(it) if self.resolver is not None else resolve_function(it, c.qualname)
            bound = c.setup(it)
            if func.closure is None and '__closure__' in bound:
                clo = Frame(func.module)
                clo.vars = bound.pop('__closure__')
                func.closure = clo
            env = Frame(func.module, func, func.closure)
            env.vars = dict(bound)
            for lab, r in c.requires:
                ctx.assume(it.spec_truth(r, env))
            if not ctx.replaying():
                if ctx.feasible():
                    col.cover(self.name + ':requires', True)
                else:
                    col.cover(self.name + ':requires', False)
                    raise PathAbort()
            c._eval_olds(it, env)
            env_old = env.vars['__old__']
            pre_extra = {}
            if c.pre_state is not None:
                tmp = dict(env.vars)
                c.pre_state(it, tmp)
                pre_extra = {k: v for k, v in tmp.items() if k not in env.vars}
            # visible to loop invariants of the unit's body: pre-state extras and old(...)
            ctx.ghost['spec_vars'] = dict(pre_extra, __old__=env_old)
            inputs = _input_objects(bound)
            snap = {id(o): (o, dict(o.fields)) for o in inputs}
            for o in inputs:
                o.written = set()
        except EngineError as e:
            col.incomplete.append('%s: setup: %s' % (self.name, e))
            return
        exc = None
        result = None
        try:
            result = it.run_function(func, dict(bound))
        except PyExc as pe:
            exc = pe
        except EngineError as e:
            if not ctx.replaying():
                col.incomplete.append('%s: %s' % (self.name, e))
            return
        except RecursionError:
            col.incomplete.append('%s: python recursion limit' % self.name)
            return
        try:
            post = Frame(func.module, func, func.closure)
            post.vars = dict(bound)
            post.vars['old'] = SpecFn('old', None)
            post.vars['__old__'] = env_old
            post.vars.update(pre_extra)
            if exc is None:
                col.cover(self.name + ':normal-exit', True)
                if c.result_make is not None:
                    col.cover('real-shape|%s|%s' % (c.qualname, result_shape(result)), True)
                post.vars['result'] = result
                for g, (T, w) in c.ghost.items():
                    post.vars[g] = it.spec_eval(w, post)
                if c.result_expr is not None:
                    want = it.spec_eval(c.result_expr, post)
                    ctx.prove('%s:post:result == %s' % (self.name, c.result_expr[:60]),
                              it.equal_term(result, want), 'post')
                for lab, cl in c.ensures:
                    ctx.prove('%s:post:%s' % (self.name, lab), it.spec_truth(cl, post), 'post', src=cl)
            else:
                en = c._match_raise(it, exc.value)
                if en is None:
                    if not c.allow_any_raise:
                        ctx.prove('%s:raises-closed:%s@%s' % (self.name, exc.value.cls.name, exc.origin),
                                  False, 'raises-closed',
                                  src='%s escapes; contract allows %s' % (exc.value.cls.name,
                                                                          sorted(c.raises) or 'nothing'))
                else:
                    col.cover('%s:raises:%s' % (self.name, en), True)
                    spec = c.raises[en]
                    post.vars['exc'] = exc.value
                    if spec.get('when'):
                        ctx.prove('%s:xpost[%s]:when %s' % (self.name, en, spec['when'][:60]),
                                  it.spec_truth(spec['when'], post), 'xpost')
                    for lab, cl in spec['ensures']:
                        ctx.prove('%s:xpost[%s]:%s' % (self.name, en, lab), it.spec_truth(cl, post),
                                  'xpost', src=cl)
            # frame
            allowed = set()
            for head, field in c._modifies_paths():
                o = it.spec_eval(head, post)
                if isinstance(o, Obj):
                    allowed.add((id(o), field))
            for oid, (o, before) in snap.items():
                for f in sorted(o.written):
                    if (oid, f) in allowed:
                        continue
                    if f not in before:
                        ctx.prove('%s:frame:%s.%s' % (self.name, o.tag or o.cls.name, f), False, 'frame',
                                  src='new attribute stored on an input object outside modifies')
                        continue
                    try:
                        t = it.equal_term(o.fields.get(f), before[f])
                    except EngineError:
                        t = False
                    ctx.prove('%s:frame:%s.%s' % (self.name, o.tag or o.cls.name, f), t, 'frame',
                              src='field written but not listed in modifies: must be unchanged')
        except EngineError as e:
            if not ctx.replaying():
                col.incomplete.append('%s: post-state: %s' % (self.name, e))


def _input_objects(bound):
    out = []
    seen = set()
    todo = list(bound.values())
    while todo:
        v = todo.pop()
        if isinstance(v, Obj):
            if id(v) in seen:
                continue
            seen.add(id(v))
            out.append(v)
            todo.extend(v.fields.values())
        elif isinstance(v, tuple):
            todo.extend(v)
        elif isinstance(v, PyList) and v.items is not None:
            todo.extend(v.items)
        elif isinstance(v, PyDict):
            todo.extend(v.items.values())
        elif isinstance(v, dict):
            todo.extend(v.values())
    return out


class LemmaUnit(object):
    """Obligations produced by custom code over spec-level terms."""
    kind = 'lemma'

    def __init__(self, name, fn, functions=()):
        self.name = name
        self.fn = fn
        self._functions = list(functions)
        self.max_paths = None

    def functions(self):
        return self._functions

    def run_path(self, ctx, program, registry):
        it = Interp(ctx, program, registry)
        it.unit_func = None
        it.unit_inline = set()
        it.func_stack = []
        _scope_of_the_property(ctx)
        try:
            self.fn(it)
        except EngineError as e:
            if not ctx.replaying():
                ctx.collector.incomplete.append('%s: %s' % (self.name, e))
