"""Per-property check driver.

  python3-vt -m pyvc.check <PID> [--tier quick|thorough] [--replay <file>] [--write-baseline]

exit 0  every registered obligation proved (known findings are printed, not counted)
exit 1  some obligation refuted -> 'VIOLATION property=<id> replay=<path>'
exit 2  undecided / incomplete / coverage regression against obligations_baseline.json
exit 3  checker crash or vacuous run (zero obligations, unreachable contract)
Only a refuted obligation produces a VIOLATION line; unknown/timeouts/tracebacks never do.
"""
import argparse
import hashlib
import json
import os
import re
import subprocess
import sys
import time

VERIF = os.path.dirname(os.path.dirname(os.path.abspath(__file__)))
if VERIF not in sys.path:
    sys.path.insert(0, VERIF)

from pyvc.smt import Config, PROVED, REFUTED, UNDECIDED, UNCHECKED   # noqa: E402
from pyvc.contracts import Registry                                   # noqa: E402
from pyvc.runner import run_units                                     # noqa: E402
from pyvc import program as _program                                  # noqa: E402

REPO = _program.REPO
PY = sys.executable

TRUSTED_BASE = [
    "A-SEM: pyvc's encoding of the Python subset (evaluation order, truthiness, slicing clamps, "
    "exceptions, keyword binding, MRO); cross-checked against CPython by pyvc.selftest, not proved",
    "A-INT: none needed -- Python ints are unbounded and are encoded as mathematical integers",
    "A-STR: strings are finite sequences of code points; isspace/isalpha are uninterpreted outside ASCII",
    "A-LIB: assumed contracts of stdlib functions (str.find/rfind/count/startswith/strip, bisect_right, "
    "re, unicodedata.normalize, os.path, ChainMap); validated on samples by pyvc.selftest, not proved",
    "A-LOG: logger.* and pylatexenc_deprecated_* calls are no-ops (records are not formatted); their argument expressions ARE evaluated, so an exception raised while building a log argument is seen",
    "A-DYN: no monkey-patching or user subclass overriding the verified methods",
    "A-SMT: z3 5.1 / cvc5 1.0.3 are correct when they answer unsat",
]

DROPPED = ("extraction drops: docstrings/comments, logger.* and pylatexenc_deprecated_* calls (A-LOG), "
           "Python-2 branches (sys.version_info.major == 2), Transcrypt pragmas; generator functions are "
           "executed as 'append each yielded value to a list'; generator expressions are evaluated eagerly")


def slug(s):
    h = hashlib.sha1(s.encode()).hexdigest()[:8]
    t = re.sub(r'[^A-Za-z0-9]+', '_', s)[:60].strip('_')
    return '%s_%s' % (t, h)


def load_json(path, default):
    try:
        with open(path) as f:
            return json.load(f)
    except (OSError, ValueError):
        return default


def run_replay(path, timeout=120):
    env = dict(os.environ)
    env['PYTHONPATH'] = REPO + os.pathsep + env.get('PYTHONPATH', '')
    try:
        p = subprocess.run([PY, path], capture_output=True, text=True, timeout=timeout, env=env)
        out = (p.stdout + p.stderr)[-4000:]
        return p.returncode == 1 and 'REPRODUCED' in p.stdout, out
    except subprocess.TimeoutExpired as e:
        return False, 'replay timed out after %ss' % timeout


def main(argv=None):
    ap = argparse.ArgumentParser()
    ap.add_argument('pid')
    ap.add_argument('--tier', default=os.environ.get('VERIF_TIER', 'quick'))
    ap.add_argument('--replay', default=None)
    ap.add_argument('--write-baseline', action='store_true')
    ap.add_argument('--jobs', type=int, default=None)
    ap.add_argument('--unit', action='append', default=None)
    args = ap.parse_args(argv)
    pid = args.pid
    tier = args.tier if args.tier in ('quick', 'thorough') else 'quick'
    seed = int(os.environ.get('VERIF_SEED', '0') or 0)

    if args.replay:
        ok, out = run_replay(args.replay)
        print(out)
        if ok:
            print('VIOLATION property=%s replay=%s' % (pid, args.replay))
            return 1
        print('replay did not reproduce a failure')
        return 0

    t0 = time.time()
    import contracts
    reg = Registry()
    allunits = contracts.build(reg)
    if pid not in allunits:
        print('no check registered for %s' % pid)
        return 3
    units = allunits[pid]
    if args.unit:
        units = {k: v for k, v in units.items() if any(u in k for u in args.unit)}
    cfg = Config(tier, seed)
    cfg.strict_only = pid in getattr(contracts, 'STRICT_ONLY', ())
    results = run_units(reg, units, cfg, jobs=args.jobs)

    # Verdict stability: solver budgets are wall-clock, so on a loaded machine a feasibility query can time out and
    # send the executor down a path that a calm run prunes; obligations met there may come out refuted or undecided.
    # A refutation that is real is deterministic, so every unit with a refuted / undecided obligation is re-run once
    # with three-fold budgets and the re-run's verdicts are the ones reported (proofs are proofs in either run).
    listed = set(f.get('obligation') for f in load_json(os.path.join(VERIF, 'known_findings.json'), {}).get('findings', [])
                 if f.get('property') == pid)
    # a refutation whose replay exhibits a failing input on the real code needs no confirmation
    replay_cache = {}
    shaky = set()
    for r in results:
        if r['crash']:
            shaky.add(r['unit'])
        for o in r['obligations']:
            if o['status'] == PROVED or o['name'] in listed:
                continue
            if o['status'] == REFUTED:
                oo = dict(o, unit=r['unit'])
                path = os.path.join(VERIF, 'replays', '%s__%s.py' % (pid, slug(o['name'])))
                rep = write_and_run_replay(contracts, reg, pid, oo, path)
                replay_cache[o['name']] = rep
                if rep[0]:
                    continue
            shaky.add(r['unit'])
    shaky = sorted(shaky)
    if shaky and not os.environ.get('PYVC_NO_RERUN'):
        calm = Config(tier, seed)
        calm.strict_only = cfg.strict_only
        calm.branch_timeout_ms *= 3
        calm.quant_branch_timeout_ms *= 3
        calm.prove_timeout_ms *= 3
        again = run_units(reg, {k: units[k] for k in shaky}, calm, jobs=args.jobs)
        by_unit = {r['unit']: r for r in again}
        results = [by_unit.get(r['unit'], r) for r in results]
        for r in again:
            for o in r['obligations']:
                replay_cache.pop(o['name'], None) if o['status'] != REFUTED else None
        print('re-ran %d unit(s) with larger solver budgets to confirm their verdicts: %s' % (len(shaky), ', '.join(shaky)[:300]))

    obligations = {}
    incomplete = []
    crashes = []
    covers = {}
    files = {}
    functions = []
    dropped = set()
    assumed = set()
    solver_s = 0.0
    paths = 0
    by_backend = {}
    for r in results:
        if r['crash']:
            crashes.append((r['unit'], r['crash']))
        incomplete.extend(r['incomplete'])
        covers.update(r['covers'])
        files.update(r['files'])
        functions.extend(r['functions'])
        dropped.update(r['dropped_calls'])
        assumed.update(r['assumed_contracts'])
        solver_s += r['solver_seconds']
        paths += r['paths']
        for o in r['obligations']:
            o = dict(o)
            o['unit'] = r['unit']
            obligations[o['name']] = o
    functions = sorted(set(functions))
    verified_fns = set(functions)
    assumed_only = sorted(a for a in assumed if a not in verified_fns)

    n_total = len(obligations)
    proved = [o for o in obligations.values() if o['status'] == PROVED]
    refuted = [o for o in obligations.values() if o['status'] == REFUTED]
    undecided = [o for o in obligations.values() if o['status'] in (UNDECIDED, UNCHECKED)]
    for o in proved:
        by_backend[o['backend']] = by_backend.get(o['backend'], 0) + 1

    # --- baseline ------------------------------------------------------------
    base_all = load_json(os.path.join(VERIF, 'obligations_baseline.json'), {})
    if args.write_baseline:
        base_all[pid] = sorted(o['name'] for o in proved)
        with open(os.path.join(VERIF, 'obligations_baseline.json'), 'w') as f:
            json.dump(base_all, f, indent=0, sort_keys=True)
    baseline = base_all.get(pid, [])
    regress = []

    def _site_key(name):
        # a call-site obligation is named after the function that contains the call; moving the call into / out of a helper
        # or a nested function renames it without changing what is proved: compare those by callee and clause only
        m = re.match(r'^(.*?):pre@callsite\[(.*?)\]:(.*)$', name)
        return ('pre@callsite', m.group(2), m.group(3)) if m else None
    proved_site_keys = set(_site_key(o['name']) for o in proved if _site_key(o['name']))
    if not args.unit:
        for name in baseline:
            o = obligations.get(name)
            if o is None:
                if _site_key(name) in proved_site_keys:
                    continue
                regress.append((name, 'missing'))
            elif o['status'] in (UNDECIDED, UNCHECKED):
                regress.append((name, o['status']))
    new_obls = sorted(set(obligations) - set(baseline))

    # --- violations / known findings ---------------------------------------------
    known = load_json(os.path.join(VERIF, 'known_findings.json'), {'findings': [], 'fixed': []})
    replay_mod = getattr(contracts, 'replays', None)
    violations = []
    known_hits = []
    for o in sorted(refuted, key=lambda x: x['name']):
        kf = None
        for f in known.get('findings', []):
            if f.get('property') == pid and f.get('obligation') == o['name']:
                kf = f
        path = os.path.join(VERIF, 'replays', '%s__%s.py' % (pid, slug(o['name'])))
        if o['name'] in replay_cache:
            reproduced, out, note = replay_cache[o['name']]
        else:
            reproduced, out, note = write_and_run_replay(contracts, reg, pid, o, path)
        if kf is not None and (kf.get('witness_class') in (None, '', note.get('witness_class'))):
            known_hits.append((o, kf))
            continue
        violations.append((o, path, reproduced))

    # --- thorough tier: the native oracles also search on the real code (bounded stand-in, never counted as proved) ---
    native_runs = []
    if tier == 'thorough' and not args.unit and not os.environ.get('PYVC_NO_NATIVE'):
        seen_bodies = set()
        maker = getattr(contracts, 'make_replay', None)
        for r in results:
            o = {'name': '%s:thorough-native-search' % r['unit'], 'kind': 'bounded', 'unit': r['unit'], 'model': {}, 'backend': 'cpython',
                 'src': 'thorough tier: the replay oracle of this unit searches small inputs on the real code (bounded stand-in)'}
            try:
                body = maker(pid, o, {}) if maker else None
            except Exception:
                body = None
            if body is None or hash(body) in seen_bodies:
                continue
            seen_bodies.add(hash(body))
            path = os.path.join(VERIF, 'replays', '%s__%s.py' % (pid, slug(o['name'])))
            reproduced, out, note = write_and_run_replay(contracts, reg, pid, o, path, timeout=900)
            listed = any(f.get('property') == pid and f.get('witness_class') and f.get('witness_class') == note.get('witness_class')
                         for f in known.get('findings', []))
            native_runs.append({'unit': r['unit'], 'reproduced': bool(reproduced), 'known_finding': bool(listed)})
            if reproduced and not listed:
                violations.append((o, path, True))

    # --- result generators of assumed contracts must cover what the function really returns -------------------
    real_shapes, made_shapes = {}, {}
    for k, v in covers.items():
        if v and k.startswith('real-shape|'):
            real_shapes.setdefault(k.split('|')[1], set()).add(k.split('|')[2])
        if v and k.startswith('made-shape|'):
            made_shapes.setdefault(k.split('|')[1], set()).add(k.split('|')[2])
    generator_gaps = []
    for q in sorted(set(real_shapes) & set(made_shapes)):
        declared = getattr(reg.contracts.get(q), 'arg_dependent_shapes', ())
        for sh in sorted(real_shapes[q] - made_shapes[q] - set(declared)):
            generator_gaps.append('%s really returns a result of shape %s which the result generator of its contract never '
                                  'produces at call sites (generated: %s)' % (q, sh, sorted(made_shapes[q])))
    # a gap means callers were verified against fewer behaviours than the callee has: the proof is incomplete (exit 2)
    for g in generator_gaps:
        incomplete.append('result-generator gap: ' + g)

    # --- evidence ------------------------------------------------------------------
    vac = []
    if n_total == 0:
        vac.append('zero obligations generated')
    for k, v in covers.items():
        if k.endswith(':requires') and not v:
            vac.append('precondition unreachable: ' + k)
    samples = []
    for o in list(obligations.values())[:3] + refuted[:3]:
        samples.append({k: o[k] for k in ('name', 'kind', 'status', 'backend', 'src') if k in o})
    ev = {
        'property_id': pid,
        'tier': tier,
        'seed': seed,
        'level': getattr(contracts, 'LEVELS', {}).get(pid, 'proof'),
        'coverage': {
            # a refuted obligation that is a listed known finding is reported on its own (KNOWN-FINDING line, key below) and
            # is not part of the obligations this run claims to have discharged
            'obligations': n_total - len(known_hits),
            'discharged': len(proved),
            'known_finding_obligations': [o['name'] for (o, _kf) in known_hits],
            'native_oracle_searches_thorough_tier': native_runs,
            # exploration-style counts (one case = one feasible path of the symbolic execution of the real function under
            # its setup, i.e. one distinct sequence of branch / choice decisions)
            'evaluations': paths,
            'distinct_nontrivial': sum(max([o.get('paths', 0) for o in r['obligations']] or [0]) for r in results),
            'rule': 'one case = one feasible path (distinct sequence of branch / choice decisions) of the symbolic execution of a real '
                    'function under its contract set-up; counted as non-trivial when it reached at least one proof obligation '
                    '(per unit: the largest number of paths on which one obligation was checked)',
            'checker_cmd': 'python3-vt -m pyvc.check %s --tier %s' % (pid, tier),
            'trusted_base': TRUSTED_BASE,
            'samples': samples,
            'functions_under_contract': functions,
            'contracts_assumed_not_verified_in_this_check': assumed_only,
            'units': [{k: r[k] for k in ('unit', 'kind', 'functions', 'paths', 'wall_s', 'solver_seconds',
                                         'incomplete')} for r in results],
            'obligations_by_backend': by_backend,
            'solver_seconds': round(solver_s, 2),
            'paths_explored': paths,
            'refuted': [o['name'] for o in refuted],
            'undecided_or_unchecked': [{'name': o['name'], 'status': o['status'], 'detail': o.get('detail', '')}
                                       for o in undecided],
            'unverified_paths': sorted(set(incomplete)),
            'baseline_regressions': regress,
            'new_obligations_not_in_baseline': len(new_obls),
            'covers': covers,
            'source_sha256': files,
            'dropped_calls_A_LOG': sorted(dropped)[:200],
            'extraction': DROPPED,
            'obligation_list': sorted(
                [{'name': o['name'], 'kind': o['kind'], 'status': o['status'], 'backend': o['backend'],
                  'seconds': o['seconds']} for o in obligations.values()], key=lambda d: d['name']),
            'known_findings_hit': [kf.get('what', '') for (_o, kf) in known_hits],
            'exhaustive': False,
        },
        'assumptions': TRUSTED_BASE + [DROPPED] + getattr(contracts, 'EXTRA_ASSUMPTIONS', {}).get(pid, []),
        'wall_s': round(time.time() - t0, 2),
        'violations': len(violations),
    }
    evdir = os.path.join(VERIF, 'evidence')
    if os.path.realpath(REPO) != '/repo' or args.unit or os.environ.get('PYVC_EVIDENCE_SCRATCH'):
        # scratch trees (developer mutation runs) and partial runs never overwrite the evidence of /repo
        evdir = os.path.join(VERIF, 'evidence_scratch')
    os.makedirs(evdir, exist_ok=True)
    with open(os.path.join(evdir, pid + '.json'), 'w') as f:
        json.dump(ev, f, indent=1)

    # --- report -----------------------------------------------------------------------
    print('%s: %d obligations, %d proved, %d refuted, %d undecided/unchecked; %d paths; solver %.1fs; wall %.1fs'
          % (pid, n_total, len(proved), len(refuted), len(undecided), paths, solver_s, time.time() - t0))
    for (o, kf) in known_hits:
        print('KNOWN-FINDING: property=%s %s [%s]' % (pid, kf.get('what', ''), o['name']))
    for (o, path, reproduced) in violations:
        print('  refuted: %s' % o['name'])
        print('VIOLATION property=%s replay=%s%s' % (pid, os.path.relpath(path, VERIF),
                                                     '' if reproduced else ' no-failing-input-found'))
    if violations:
        return 1
    if crashes:
        for u, c in crashes:
            print('checker crash in unit %s:\n%s' % (u, c))
        return 3
    if vac:
        for v in vac:
            print('vacuous: ' + v)
        return 3
    rc = 0
    if undecided or incomplete or regress:
        # The proof is (partly) unavailable on this tree -- e.g. an edit moved a function outside the
        # executor's subset.  That is 'undecided' (exit 2), never a violation by itself.  As a bounded
        # stand-in (labelled so, never counted as proved) the native replay oracle of the affected units
        # is run with its small exhaustive search; a failing input found there IS a violation.
        seen = set()
        for r in results:
            touched = r['incomplete'] or any(o['status'] in (UNDECIDED, UNCHECKED) for o in r['obligations']) \
                or any(nm.startswith(tuple(r['functions'])) or nm.startswith(r['unit']) for nm, _w in regress)
            fn = getattr(contracts, 'REPLAYERS', {}).get(r['unit'])
            if pid in ('C05', 'C06'):
                fn = pid          # property-level native oracle (contracts.make_replay picks it)
            if not touched or fn is None or fn in seen:
                continue
            seen.add(fn)
            o = {'name': '%s:bounded-native-search' % r['unit'], 'kind': 'bounded', 'unit': r['unit'],
                 'src': 'bounded stand-in: the deductive check of this unit is incomplete on this tree; '
                        'the replay oracle searches small inputs on the real code',
                 'backend': 'cpython', 'detail': '; '.join(r['incomplete'])[:300], 'model': {}}
            path = os.path.join(VERIF, 'replays', '%s__%s.py' % (pid, slug(o['name'])))
            reproduced, out, note = write_and_run_replay(contracts, reg, pid, o, path)
            if reproduced and any(f.get('property') == pid and f.get('witness_class') and
                                  f.get('witness_class') == note.get('witness_class') for f in known.get('findings', [])):
                print('KNOWN-FINDING: property=%s (bounded native search) %s' % (pid, note.get('witness_class')))
                reproduced = False
            if reproduced:
                print('  bounded native search (proof unavailable for unit %s) found a failing input' % r['unit'])
                print('VIOLATION property=%s replay=%s' % (pid, os.path.relpath(path, VERIF)))
                rc = 1
    if rc == 1:
        return 1
    for o in undecided:
        print('  undecided: %s (%s)' % (o['name'], o.get('detail', '')))
        rc = 2
    for i in sorted(set(incomplete)):
        print('  unverified path: %s' % i)
        rc = 2
    for name, why in regress:
        print('  coverage regression against baseline: %s (%s)' % (name, why))
        rc = 2
    return rc


def write_and_run_replay(contracts, reg, pid, o, path, timeout=120):
    """Build the replay script for a refuted obligation, run it against the real
    code, and return (reproduced, output, note)."""
    os.makedirs(os.path.dirname(path), exist_ok=True)
    model = o.get('model') or {}
    header = ('# Replay for property %s\n# failed obligation: %s\n# kind: %s\n# clause: %s\n'
              '# solver: %s%s\n# verifier counterexample (inputs of ONE call of the function under contract):\n#   %s\n'
              % (pid, o['name'], o['kind'], (o.get('src') or '').replace('\n', ' '), o['backend'],
                 (' [%s]' % o['detail']) if o.get('detail') else '', json.dumps(model, sort_keys=True)[:3000]))
    body = None
    note = {}
    maker = getattr(contracts, 'make_replay', None)
    if maker is not None:
        try:
            body = maker(pid, o, model)
        except Exception as e:      # a broken replay generator must not hide the violation
            body = None
            header += '# (replay generator failed: %r)\n' % (e,)
    if body is None:
        body = ('import sys\nprint("no concrete replay is available for this obligation; the verifier output '
                'is in the header of this file")\nsys.exit(0)\n')
    with open(path, 'w') as f:
        f.write(header + '\n' + body)
    reproduced, out = run_replay(path, timeout=timeout)
    with open(path, 'a') as f:
        f.write('\n# --- output of this replay when the check ran ---\n')
        for line in out.splitlines()[-40:]:
            f.write('# ' + line + '\n')
    m = re.search(r'WITNESS-CLASS: (\S+)', out)
    if m:
        note['witness_class'] = m.group(1)
    return reproduced, out, note


if __name__ == '__main__':
    sys.exit(main())
