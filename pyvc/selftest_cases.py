"""Engine self-test (run by MANIFEST.setup_cmd).

A. differential: small Python programs are run by CPython and by the symbolic executor on concrete inputs; the values of
   `result` must agree (validates the executor's encoding of the Python subset, A-SEM);
B. library axioms: for every string over a small alphabet up to length 3 the executor runs a str operation on a SYMBOLIC
   string constrained to that value and must PROVE that the result is CPython's result (validates the assumed str / slice /
   find / count / strip / startswith / in / % contracts, A-LIB / A-STR: consistent and complete on that domain);
C. the verdict machinery: a false claim must come out refuted (with a model), a claim under a contradictory assumption
   must be reported as unreachable rather than proved.
Exit 0 only if all of this holds."""
import ast
import itertools
import sys

import z3

from . import values as V
from .contracts import Registry, LemmaUnit, sym_str, sym_int
from .interp import Frame, PyExc
from .runner import run_units
from .smt import Config, PROVED, REFUTED, PathAbort
from .values import PyList, PyDict, zint

PROGRAMS = [
    "def f(a, b=2, *c, **d):\n    return (a, b, c, sorted(d.items()))\nresult = [f(1), f(1, 3), f(1, 2, 3, 4, x=5), f(b=7, a=0)]",
    "def mk(n):\n    def g(x):\n        return x + n\n    return g\nresult = [mk(2)(3), (lambda x, y=4: x * y)(5)]",
    "out = []\ntry:\n    try:\n        out.append(1)\n        raise ValueError('v')\n    finally:\n        out.append(2)\nexcept ValueError as e:\n    out.append(e.args[0])\nelse:\n    out.append('no')\nresult = out",
    "result = [x * y for x in range(4) if x % 2 for y in (1, 10)] + [k for k, v in {'a': 1, 'b': 2}.items() if v > 1]",
    "s = 'hello world'\nresult = [s[1:4], s[-3:], s[:-3], s[::1][2], s.find('o'), s.find('o', 5), s.rfind('o'), s.count('l'), s.strip('hd'), s.startswith('wor', 6), 'lo w' in s, s.replace('l', 'L'), s.upper(), s.split(' '), '-'.join(['a', 'b'])]",
    "d = {'a': 1}\nd['b'] = 2\nd.update(c=3)\ne = dict(d)\ne.pop('a')\nresult = [sorted(d), sorted(e.items()), d.get('z', 9), 'a' in d, len(d), list(d.setdefault('q', []))]",
    "l = [3, 1, 2]\nl.append(4)\nl.insert(0, 9)\nm = l[1:3] + [0]\nl += [7]\nresult = [l, m, sorted(l), l.index(2), len(l), l[-1], [1, 2] * 2, list(reversed(m)), max(l), min([5, 2] + [3])]",
    "class A(object):\n    k = 5\n    def __init__(self, v):\n        self.v = v\n    @property\n    def twice(self):\n        return self.v * 2\n    def m(self, x=1):\n        return self.v + x + self.k\nclass B(A):\n    def m(self, x=1):\n        return super(B, self).m(x) * 10\nb = B(3)\nresult = [b.twice, b.m(), b.m(x=2), isinstance(b, A), hasattr(b, 'v'), hasattr(b, 'w'), getattr(b, 'w', 'dflt'), type(b).__name__]",
    "def gen(n):\n    i = 0\n    while i < n:\n        yield i * i\n        i += 1\nresult = [list(gen(4)), sum(gen(3)), [a for a in gen(2)]]",
    "class CM(object):\n    def __init__(self, log):\n        self.log = log\n    def __enter__(self):\n        self.log.append('in')\n        return self\n    def __exit__(self, t, v, tb):\n        self.log.append('out' if t is None else t.__name__)\n        return t is KeyError\nlog = []\nwith CM(log):\n    log.append('body')\nwith CM(log):\n    raise KeyError('k')\nresult = log",
    "result = ['%s-%s' % ('a', 1), '%(x)s!' % {'x': 'q'}, '%04X' % 255, '{}/{}'.format(1, 'b'), '{a}{b!r}'.format(a=1, b='z'), 'x' * 3, '%s' % ('t',)]",
    "t = (1, 2, 3)\na, (b, c) = 0, (5, 6)\nresult = [t[1:], t + (4,), len(t), a, b, c, 2 in t, tuple(x for x in t if x != 2), list(enumerate('ab')), list(zip('ab', (1, 2)))]",
    "x = None\nresult = [x is None, x or 'd', 0 or [] or 'z', 1 and 2, not [], bool('a'), (1 if x else 2), [] == [], 'a' < 'b', 3 // 2, -3 // 2, 7 % 3, 2 ** 5, abs(-4)]",
    "out = []\nfor i in range(5):\n    if i == 1:\n        continue\n    if i == 4:\n        break\n    out.append(i)\nelse:\n    out.append('else')\nj = 0\nwhile True:\n    j += 1\n    if j > 2:\n        break\nresult = [out, j]",
    "def f(*a, **k):\n    return (a, sorted(k))\nargs = [1, 2]\nkw = {'p': 1}\nresult = [f(*args, **kw), f(*args, 3, q=2, **kw)]",
    "import re\nm = re.search(r'(\\w+)=(\\d+)', 'a=12;b=3')\nresult = [m.group(1), m.group(2), m.start(), m.end(), re.compile(r'\\s+').split('a  b c'), re.sub(r'\\d', '#', 'a1b22')]",
    "s = set([1, 2])\ns.add(3)\nf = frozenset('ab')\nresult = [sorted(s), 2 in s, sorted(f), len(s)]",
    "def f(x):\n    try:\n        return 'try'\n    finally:\n        x.append('fin')\nl = []\nr = f(l)\nresult = [r, l]",
]

ALPHABET = ['a', ' ', '\n']


def _to_py(it, v):
    from .builtins import to_py
    return to_py(it, v)


def _strings(maxlen):
    for n in range(maxlen + 1):
        for t in itertools.product(ALPHABET, repeat=n):
            yield ''.join(t)


def lemma_differential(it):
    m = it.program.module('pylatexenc._util')
    bad = []
    for j, src in enumerate(PROGRAMS):
        g = {}
        exec(compile(src, '<selftest %d>' % j, 'exec'), g)
        want = g['result']
        fr = Frame(m)
        try:
            it.exec_block(ast.parse(src).body, fr)
            got = _to_py(it, fr.vars['result'])
        except PyExc as e:
            got = 'raised %s' % e.value.cls.name
        except Exception as e:          # an executor limitation is a selftest failure too
            got = 'executor: %r' % (e,)
        if _norm(got) != _norm(want):
            bad.append((j, got, want))
    it.ctx.prove('differential: %d programs give the same result in CPython and in the executor' % len(PROGRAMS), not bad, 'selftest',
                 src='differences (program, executor, CPython): %r' % bad[:3])


def _norm(v):
    if isinstance(v, (list, tuple)):
        return [_norm(x) for x in v]
    if isinstance(v, dict):
        return sorted((_norm(k), _norm(x)) for k, x in v.items())
    if isinstance(v, (set, frozenset)):
        return sorted(_norm(x) for x in v)
    return v


OPS = [
    ('s.find(c)', lambda s, c, i, j: s.find(c)), ('s.find(c, i)', lambda s, c, i, j: s.find(c, i)), ('s.rfind(c)', lambda s, c, i, j: s.rfind(c)),
    ('sound:s.count(c)', lambda s, c, i, j: s.count(c)), ('len(s.strip())', lambda s, c, i, j: len(s.strip())), ('s.strip() == s', lambda s, c, i, j: s.strip() == s),
    ('s.startswith(c, i)', lambda s, c, i, j: s.startswith(c, i)), ('c in s', lambda s, c, i, j: c in s), ('s[i:j] == c', lambda s, c, i, j: s[i:j] == c),
    ('len(s[i:j])', lambda s, c, i, j: len(s[i:j])), ('s[i:] + s[:i] == s[:i] + s[i:]', lambda s, c, i, j: s[i:] + s[:i] == s[:i] + s[i:]),
    ('s.isspace()', lambda s, c, i, j: s.isspace()), ("('<%s>' % s) == '<' + s + '>'", lambda s, c, i, j: ('<%s>' % s) == '<' + s + '>'),
    ('s.endswith(c)', lambda s, c, i, j: s.endswith(c)), ("s.find('\\n\\n')", lambda s, c, i, j: s.find('\n\n')),
]


def make_axiom_lemma(op_src, op_fn):
    sound_only = op_src.startswith('sound:')      # the contract is an approximation: CPython's value must be consistent with it
    op_src = op_src[6:] if sound_only else op_src

    def lemma(it):
        ctx = it.ctx
        m = it.program.module('pylatexenc._util')
        strings = list(_strings(3))
        k = ctx.choose(len(strings), 'string')
        conc = strings[k]
        s = sym_str(it, 's')
        ctx.assume(V.seq_eq(ctx, s, conc))
        for c in ('a', ' ', 'a ', '\n'):
            for (i, j) in ((0, 1), (1, 3), (2, 2), (0, 5)):
                try:
                    want = op_fn(conc, c, i, j)
                except Exception:
                    continue
                fr = Frame(m)
                fr.vars.update({'s': s, 'c': c, 'i': i, 'j': j})
                got = it.eval_src(op_src, fr)
                if isinstance(want, bool):
                    t = it.truth_term(got)
                    cond = t if want else V.z_not(t)
                elif isinstance(want, int):
                    cond = V.z_eq(got, want)
                else:
                    cond = V.seq_eq(ctx, got, want)
                if sound_only:
                    cond = ctx._check(V.zbool(cond) if not isinstance(cond, bool) else z3.BoolVal(cond)) != z3.unsat
                ctx.prove('axiom: %s %s CPython on all strings over %r up to length 3' % (
                    op_src, 'is consistent with' if sound_only else 'agrees with', ''.join(ALPHABET)), cond, 'selftest',
                          src='s=%r c=%r i=%d j=%d: CPython gives %r' % (conc, c, i, j, want))
    return lemma


def lemma_refutes(it):
    x = sym_int(it, 'x', lo=0)
    it.ctx.prove('sanity: a false claim (x*2 != 6 for all x >= 0) must be refuted', zint(x) * 2 != 6, 'selftest')


def lemma_vacuous(it):
    x = sym_int(it, 'x')
    it.ctx.assume(z3.And(zint(x) > 0, zint(x) < 0))
    if not it.ctx.feasible():
        it.ctx.collector.cover('contradictory assumptions are noticed', True)
        raise PathAbort()
    it.ctx.prove('sanity: nothing may be proved under contradictory assumptions', False, 'selftest')


def run():
    reg = Registry()
    units = {'differential': LemmaUnit('differential', lemma_differential),
             'refutes': LemmaUnit('refutes', lemma_refutes), 'vacuous': LemmaUnit('vacuous', lemma_vacuous)}
    for src, fn in OPS:
        units['axiom:' + src] = LemmaUnit('axiom:' + src, make_axiom_lemma(src, fn))
    res = run_units(reg, units, Config('quick'))
    ok = True
    n = 0
    for r in res:
        if r['crash']:
            print('selftest: unit %s crashed:\n%s' % (r['unit'], r['crash'][-800:]))
            ok = False
        for msg in r['incomplete']:
            print('selftest: unit %s incomplete: %s' % (r['unit'], msg))
            ok = False
        for o in r['obligations']:
            n += 1
            want = REFUTED if r['unit'] == 'refutes' else PROVED
            if o['status'] != want:
                print('selftest: %s is %s (expected %s) %s' % (o['name'], o['status'], want, (o.get('src') or '')[:300]))
                ok = False
            if r['unit'] == 'refutes' and o['status'] == REFUTED and (o.get('model') or {}).get('x') != 3:
                print('selftest: the counter-model of the false claim is %r, expected x = 3' % (o.get('model'),))
                ok = False
        if r['unit'] == 'vacuous' and (r['obligations'] or not r['covers'].get('contradictory assumptions are noticed')):
            print('selftest: contradictory assumptions were not noticed')
            ok = False
    print('pyvc selftest: %d obligations over %d units: %s (z3 %s)' % (n, len(res), 'ok' if ok else 'FAILED', z3.get_version_string()))
    return 0 if ok else 1


if __name__ == '__main__':
    sys.exit(run())
